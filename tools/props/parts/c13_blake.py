"""C13 part — HMAC over the BLAKE-224/256/384/512 objects of crysp.blake (the property's quantifier lists BLAKE-n among the
hashes HMAC must work with).

Ops (handled by lean/Driver/HmacBlakeD.lean):
  bhmac <n> <key> <msg>              HMAC(Blake(n),key)(msg)
  bhmac.s <n> <key> <msg>            HMAC(blake<n>,key)(msg)           (module singleton)
  bhmacseq <n> <msg> <k1> <k2> …     one HMAC object over Blake(n): setkey(k_i); call(msg) for each key
  bhmach <n|@n> | <step> | …         ONE Blake(n) object (@n: the module singleton) with a HISTORY, handed to HMAC: the steps of
                                     the C14 `blakeseqs` lines on it (new | init [salt=<n>] | upd <hex> [L] | fin <hex> [L] |
                                     call <hex> [s=<n>] [bitlen=<L>]) and `mac <key> <msg>` (o = HMAC(h,key); o(msg)),
                                     `again <msg>` (o(msg) once more, after whatever was done to h since)
The driver answers with Model.Hmac over Model.Blake and with Spec.rfc2104 over Spec.Blake.  check_impl recomputes
RFC 2104 over an independent BLAKE reference (props/parts/blake_ref.py: plain integers, pinned by the submission's known
answers), so the predicate shares nothing with crysp or with the Lean side."""
from props.common import *
from props.parts import blake_ref
from props import hashcommon as HC

PREFIX = ('bhmac',)
LEAN_PROOFS = ['Proofs.C13_Blake']
GEN_ITEMS = ['BlakeG']
TRUSTED = ['tools/props/parts/blake_ref.py as an independent rendering of the BLAKE submission (pinned by its eight known answers); '
           'there is no BLAKE-1 or HMAC-BLAKE oracle in the image']
ASSUMPTIONS = ['HMAC calls the BLAKE object with its default salt 0 and no bit length (what crysp/hmac.py does): RFC 2104 over the UNSALTED BLAKE-n, '
               'whatever salt, bit length or stream the hash object was used with before it was handed to HMAC or between two MACs (bhmach lines)']
SINGLETONS = ('blake224', 'blake256', 'blake384', 'blake512')

SIZES = (224, 256, 384, 512)
def blk(n): return 128 if n > 256 else 64


def run_impl(line):
    from crysp.hmac import HMAC
    import crysp.blake as BL
    t = line.split(); op, a = t[0], t[1:]
    def obj():
        if op == 'bhmac.s': return {224: BL.blake224, 256: BL.blake256, 384: BL.blake384, 512: BL.blake512}[int(a[0])]
        return BL.Blake(int(a[0]))
    if op in ('bhmac', 'bhmac.s'):
        return guarded(lambda: hx(HMAC(obj(), unhx(a[1]))(unhx(a[2]))))
    if op == 'bhmach': return run_hist(a)
    if op == 'bhmacseq':
        try: o = HMAC(obj())
        except Exception: return 'ERR'
        m = unhx(a[1]); out = []
        for k in a[2:]:
            def go(k=k):
                o.setkey(unhx(k)); return hx(o(m))
            out.append(guarded(go))
        return ';'.join(out)
    raise RuntimeError('unknown op ' + op)


def run_hist(a):
    """bhmach: one Blake object through its history and the MACs; the module singletons are put back afterwards"""
    from crysp.hmac import HMAC
    import crysp.blake as BL
    from props.parts import c14_blake as SEQ
    steps = HC.split_bar(a)
    cls = steps[0][0]
    if cls.lstrip('@') not in ('224', '256', '384', '512'): raise RuntimeError('bhmach: no BLAKE class ' + cls)
    saved = [(getattr(BL, n), dict(vars(getattr(BL, n)))) for n in SINGLETONS]
    box = {'h': None, 'o': None}
    out = []
    try:
        for st in steps[1:]:
            h = box['h']
            bl = lambda: ({'bitlen': int(st[2])} if len(st) > 2 else {})
            def cnt(f):
                f(); return 'c%d' % h.padmethod.bitcnt
            if st[0] == 'new': box['h'] = SEQ.mkobj(cls); r = '-'
            elif st[0] == 'mac':
                def go():
                    o = HMAC(h, unhx(st[1])); box['o'] = o
                    return hx(o(unhx(st[2])))
                r = guarded(go)
            elif st[0] == 'again': r = guarded(lambda: hx(box['o'](unhx(st[1]))))
            elif st[0] == 'init': r = guarded(lambda: cnt(lambda: h.initstate(**SEQ.kw_of(st[1:]))))
            elif st[0] == 'upd': r = guarded(lambda: cnt(lambda: h.update(unhx(st[1]), **bl())))
            elif st[0] == 'fin': r = guarded(lambda: hx(h.update(unhx(st[1]), padding=True, **bl())))
            elif st[0] == 'call': r = guarded(lambda: hx(h(unhx(st[1]), **SEQ.kw_of(st[2:]))))
            else: raise RuntimeError('bad step %r' % st)
            out.append(r)
    finally:
        for o, d in saved: vars(o).clear(); vars(o).update(d)
    return ';'.join(out)


def check_hist(a, res):
    """every MAC of the line is RFC 2104 over the UNSALTED BLAKE-n (independent reference) for the key of its HMAC object,
    whatever the hash object did before; the hash object's own calls / streams are the salted BLAKE-n of their own data"""
    steps = HC.split_bar(a)
    cls = steps[0][0]; n = int(cls.lstrip('@'))
    outs = res.split(';')
    if len(outs) != len(steps) - 1: return 'bhmach %s: %d results for %d steps' % (cls, len(outs), len(steps) - 1)
    B = blk(n); key = None; stream = None; seen = []
    for i, (st, o) in enumerate(zip(steps[1:], outs)):
        bad = lambda why: 'bhmach %s step #%d (%s) after [%s]: %s' % (cls, i, st[0], ' | '.join(seen[:-1]), why)
        kw = dict(t.split('=') for t in (st[1:] if st[0] == 'init' else st[2:] if st[0] == 'call' else []))
        seen.append(' '.join([st[0]] + ['%s=%s' % kv for kv in kw.items()]))
        if st[0] in ('mac', 'again'):
            stream = None
            if st[0] == 'mac': key = unhx(st[1])
            if key is None:
                if o != 'ERR': return bad('there is no HMAC object yet')
                continue
            m = unhx(st[2] if st[0] == 'mac' else st[1])
            exp = hx(ref_hmac(n, key, m))
            if o != exp: return bad('|K|=%d |M|=%d: the MAC %s differs from RFC 2104 over (unsalted) BLAKE-%d, %s' % (len(key), len(m), o[:25], n, exp[:25]))
        elif st[0] == 'new': stream = None
        elif st[0] == 'call':
            stream = None
            M = unhx(st[1]); L = int(kw['bitlen']) if 'bitlen' in kw else None
            if L is not None and L > 8 * len(M):
                if o != 'ERR': return bad('a bit length beyond the data must be refused')
            elif L is None or L % 8 == 0:
                exp = hx(blake_ref.blake(n, M if L is None else M[:L // 8], int(kw.get('s', 0))))
                if o != exp: return bad('differs from BLAKE-%d of its own message and salt' % n)
        elif st[0] == 'init':
            stream = (b'', int(kw.get('salt', 0)))
            if o != 'c0': return bad('counter %s right after initstate' % o)
        elif stream is None: continue
        else:
            msg, salt = stream; p = unhx(st[1]); L = int(st[2]) if len(st) > 2 else 8 * len(p)
            if L > 8 * len(p) or (st[0] == 'upd' and L % (8 * B)):
                stream = None
                if o != 'ERR': return bad('a piece that must be refused was accepted')
            elif st[0] == 'upd':
                stream = (msg + p[:L // 8], salt)
                if o != 'c%d' % (8 * len(stream[0])): return bad('counter %s after %d bits' % (o, 8 * len(stream[0])))
            else:
                stream = None
                if L % 8 == 0:
                    exp = hx(blake_ref.blake(n, msg + p[:L // 8], salt))
                    if o != exp: return bad('the streamed digest differs from BLAKE-%d of the pieces with the salt of its initstate' % n)
    return None


def rfc2104(H, B, k, m):
    if len(k) > B: k = H(k)
    k = k + b'\0' * (B - len(k))
    return H(bytes(x ^ 0x5c for x in k) + H(bytes(x ^ 0x36 for x in k) + m))


def ref_hmac(n, k, m): return rfc2104(lambda x: blake_ref.blake(n, x), blk(n), k, m)


def check_impl(line, res):
    t = line.split(); op, a = t[0], t[1:]
    if op == 'bhmach': return check_hist(a, res)
    n = int(a[0])
    bad = lambda why: '%s %d: %s' % (op, n, why)
    if n not in SIZES:
        return None if res == 'ERR' else bad('a size that is no BLAKE size must be refused')
    if op in ('bhmac', 'bhmac.s'):
        k = unhx(a[1])
        exp = hx(ref_hmac(n, k, unhx(a[2])))
        if res != exp: return bad('|K|=%d: differs from RFC 2104 over BLAKE-%d (%s)' % (len(k), n, exp[:40]))
        if len(unhx(res)) != n // 8: return bad('MAC length')
        return None
    if op == 'bhmacseq':
        m = unhx(a[1])
        exp = ';'.join(hx(ref_hmac(n, unhx(k), m)) for k in a[2:])
        return None if res == exp else bad('after setkey the result is not HMAC(h,last key)')
    return None


def rnd(rng, n): return bytes(rng.getrandbits(8) for _ in range(n))


def key_lengths(B, D):
    s = {0, 1, 2, D - 1, D, D + 1, B - 2, B - 1, B, B + 1, B + 2, B + D, 2 * B - 1, 2 * B, 2 * B + 1, 3 * B - 1, 3 * B}
    return sorted(x for x in s if x >= 0)


def msg_lengths(B, w):
    """message lengths that move the inner hash (ipad block + M) across BLAKE's padding spill: B-2w/8-1 .. B+1"""
    lb = 2 * w // 8
    return [0, 1, B - lb - 2, B - lb - 1, B - lb, B - 1, B, B + 1, 2 * B + 3]


def histories(n, rng):
    """what a Blake(n) object may have been used for before it is handed to HMAC / between two MACs -> [(tag, steps)]"""
    B = blk(n); w = 64 if n > 256 else 32
    X, Y = rng.getrandbits(4 * w) | 1, rng.getrandbits(40) | 1
    m, t, blk1 = rnd(rng, B + 9), rnd(rng, 3), rnd(rng, B)
    return [('salted call', ['call %s s=%d' % (hx(m), X)]),
            ('salted call, one word of salt', ['call %s s=%d' % (hx(t), Y)]),
            ('salted stream, finished', ['init salt=%d' % X, 'upd ' + hx(blk1), 'fin ' + hx(t)]),
            ('salted stream, abandoned', ['init salt=%d' % Y, 'upd ' + hx(blk1)]),
            ('unsalted stream, abandoned', ['init', 'upd ' + hx(blk1 + blk1)]),
            ('refused salted call', ['call %s s=%d bitlen=%d' % (hx(m), X, 8 * len(m) + 8)]),
            ('salted stream, refused piece', ['init salt=%d' % X, 'upd ' + hx(blk1), 'upd x0102']),
            ('call with a bit length', ['call %s bitlen=%d' % (hx(m), 8 * B + 13)]),
            ('salted initstate only', ['init salt=%d' % X])]


def hline(cls, steps): return 'bhmach %s | %s' % (cls, ' | '.join(steps))


def hist_cases(tier, rng):
    """the hash object has a HISTORY: before HMAC(h,key), between HMAC(h,key) and the MAC call, between two MACs of one HMAC
    object, between two HMAC objects over the same hash object; new objects and the module singletons; keys shorter than,
    equal to and longer than the block (setkey hashes the long key on the used object too)"""
    thorough = tier == 'thorough'
    for n in SIZES:
        B, D = blk(n), n // 8
        for cls in (str(n), '@%d' % n):
            hs = histories(n, rng)
            for hi, (tag, life) in enumerate(hs):
                if not thorough and cls[0] == '@' and hi % 2: continue
                for kl in ((1, D, B, B + 1, 2 * B + 3) if thorough else (D, B + 1) if hi < 4 else (rng.choice([1, B, B + 5]),)):
                    k, m = rnd(rng, kl), rnd(rng, rng.choice([0, 3, B - 17, B + 1]))
                    yield hline(cls, ['new'] + life + ['mac %s %s' % (hx(k), hx(m))]), 'bhmach:%s, then HMAC' % tag
                k, k2, m = rnd(rng, rng.choice([D, B + 2])), rnd(rng, rng.choice([5, B + 7])), rnd(rng, rng.randrange(0, B))
                other = hs[(hi + 3) % len(hs)][1]
                yield hline(cls, ['new', 'mac %s %s' % (hx(k), hx(m))] + life + ['again ' + hx(m)] + other + ['mac %s %s' % (hx(k2), hx(m)), 'again ' + hx(rnd(rng, 4))]), 'bhmach:HMAC, %s, the same HMAC again, another history, a new HMAC' % tag
            # several lives in a row, then HMAC; the unsalted digest of the object itself afterwards
            ls = list(hs); rng.shuffle(ls)
            yield hline(cls, ['new'] + [x for _, life in ls[:4] for x in life] + ['mac %s %s' % (hx(rnd(rng, B + 1)), hx(rnd(rng, 9))), 'call ' + hx(rnd(rng, 5))]), 'bhmach:several lives, then HMAC'
    yield hline('256', ['new', 'again x00', 'mac x01 x02']), 'bhmach:malformed'


def cases(tier, rng):
    if tier == 'search':
        while True:
            n = rng.choice(SIZES); B = blk(n)
            if rng.randrange(3) == 0:
                hs = histories(n, rng)
                life = [x for _ in range(rng.randrange(1, 3)) for x in rng.choice(hs)[1]]
                kl = rng.choice([rng.randrange(0, B + 1), B + rng.randrange(1, 9)])
                yield hline(rng.choice([str(n), '@%d' % n]), ['new'] + life + ['mac %s %s' % (hx(rnd(rng, kl)), hx(rnd(rng, rng.randrange(0, 2 * B))))]), 'search'
                continue
            kl = rng.choice([rng.randrange(0, 3 * B + 1), B + rng.randrange(-2, 3), n // 8 + rng.randrange(-1, 2)])
            yield 'bhmac %d %s %s' % (n, hx(rnd(rng, kl)), hx(rnd(rng, rng.randrange(0, 3 * B)))), 'search'
        return
    thorough = tier == 'thorough'
    for n in SIZES:
        B, D, w = blk(n), n // 8, (64 if n > 256 else 32)
        for kl in key_lengths(B, D):
            mls = msg_lengths(B, w) if thorough or kl in (0, B - 1, B, B + 1) else (0, 3)
            for ml in mls:
                yield 'bhmac %d %s %s' % (n, hx(rnd(rng, kl)), hx(rnd(rng, ml))), 'bhmac:|K| boundary'
        for kl in (range(0, 3 * B + 1) if thorough else [rng.randrange(0, 3 * B + 1) for _ in range(8)]):
            yield 'bhmac %d %s %s' % (n, hx(rnd(rng, kl)), hx(rnd(rng, rng.randrange(0, 2 * B)))), 'bhmac:|K| seeded'
        # the zero key / empty key / a key and its zero-padded extension give the same MAC by definition
        yield 'bhmac %d %s %s' % (n, hx(bytes(B)), hx(b'abc')), 'bhmac:zero key'
        yield 'bhmac %d %s %s' % (n, hx(b''), hx(b'abc')), 'bhmac:zero key'
        k = rnd(rng, D)
        yield 'bhmac %d %s %s' % (n, hx(k), hx(b'abc')), 'bhmac:padded key'
        yield 'bhmac %d %s %s' % (n, hx(k + bytes(B - D)), hx(b'abc')), 'bhmac:padded key'
        # the module singletons
        for kl in (0, D, B, B + 1):
            yield 'bhmac.s %d %s %s' % (n, hx(rnd(rng, kl)), hx(rnd(rng, rng.randrange(0, B)))), 'bhmac.s:singleton'
        # setkey sequences on one object
        seqs = [(B + 1, 1), (1, B + 1), (B, B + 1, B - 1), (3 * B, 0), (0, 3 * B), (D, B + D), (B + 5, B + 6)]
        for sq in seqs:
            yield 'bhmacseq %d %s %s' % (n, hx(rnd(rng, 5)), ' '.join(hx(rnd(rng, x)) for x in sq)), 'bhmacseq:setkey replaces'
    yield from hist_cases(tier, rng)
    # malformed: sizes that are no BLAKE size
    yield 'bhmac 100 x01 x02', 'malformed'
    yield 'bhmacseq 255 x02 x01 x03', 'malformed'


def shrink(line):
    t = line.split()
    if t[0] == 'bhmach':
        steps = HC.split_bar(t[1:])
        for i in range(2, len(steps) - 1):                   # drop a step of the history (the `new` and the last step stay)
            yield hline(steps[0][0], [' '.join(x) for j, x in enumerate(steps[1:], 1) if j != i])
        return
    if t[0] in ('bhmac', 'bhmac.s'):
        k, m = unhx(t[2]), unhx(t[3])
        if m: yield '%s %s %s %s' % (t[0], t[1], t[2], hx(m[:len(m) // 2]))
        if any(k): yield '%s %s %s %s' % (t[0], t[1], hx(bytes(len(k))), t[3])
        if any(m): yield '%s %s %s %s' % (t[0], t[1], t[2], hx(bytes(len(m))))
    if t[0] == 'bhmacseq' and len(t) > 4:
        for i in range(3, len(t)): yield ' '.join(t[:i] + t[i + 1:])
