"""C13 part — HMAC over the BLAKE-224/256/384/512 objects of crysp.blake (the property's quantifier lists BLAKE-n among the
hashes HMAC must work with).

Ops (handled by lean/Driver/HmacBlakeD.lean):
  bhmac <n> <key> <msg>              HMAC(Blake(n),key)(msg)
  bhmac.s <n> <key> <msg>            HMAC(blake<n>,key)(msg)           (module singleton)
  bhmacseq <n> <msg> <k1> <k2> …     one HMAC object over Blake(n): setkey(k_i); call(msg) for each key
The driver answers with Model.Hmac over Model.Blake and with Spec.rfc2104 over Spec.Blake.  check_impl recomputes
RFC 2104 over an independent BLAKE reference (props/parts/blake_ref.py: plain integers, pinned by the submission's known
answers), so the predicate shares nothing with crysp or with the Lean side."""
from props.common import *
from props.parts import blake_ref

PREFIX = ('bhmac',)
LEAN_PROOFS = ['Proofs.C13_Blake']
GEN_ITEMS = ['BlakeG']
TRUSTED = ['tools/props/parts/blake_ref.py as an independent rendering of the BLAKE submission (pinned by its eight known answers); '
           'there is no BLAKE-1 or HMAC-BLAKE oracle in the image']
ASSUMPTIONS = ['HMAC calls the BLAKE object with its default salt 0 and no bit length (what crysp/hmac.py does)']

SIZES = (224, 256, 384, 512)
def blk(n): return 128 if n > 256 else 64


def run_impl(line):
    from crysp.hmac import HMAC
    import crysp.blake as BL
    t = line.split(); op, a = t[0], t[1:]
    def obj():
        if op == 'bhmac.s': return {224: BL.blake224, 256: BL.blake256, 384: BL.blake384, 512: BL.blake512}[int(a[0])]
        return BL.Blake(int(a[0]))
    if op in ('bhmac', 'bhmac.s'):
        return guarded(lambda: hx(HMAC(obj(), unhx(a[1]))(unhx(a[2]))))
    if op == 'bhmacseq':
        try: o = HMAC(obj())
        except Exception: return 'ERR'
        m = unhx(a[1]); out = []
        for k in a[2:]:
            def go(k=k):
                o.setkey(unhx(k)); return hx(o(m))
            out.append(guarded(go))
        return ';'.join(out)
    raise RuntimeError('unknown op ' + op)


def rfc2104(H, B, k, m):
    if len(k) > B: k = H(k)
    k = k + b'\0' * (B - len(k))
    return H(bytes(x ^ 0x5c for x in k) + H(bytes(x ^ 0x36 for x in k) + m))


def ref_hmac(n, k, m): return rfc2104(lambda x: blake_ref.blake(n, x), blk(n), k, m)


def check_impl(line, res):
    t = line.split(); op, a = t[0], t[1:]
    n = int(a[0])
    bad = lambda why: '%s %d: %s' % (op, n, why)
    if n not in SIZES:
        return None if res == 'ERR' else bad('a size that is no BLAKE size must be refused')
    if op in ('bhmac', 'bhmac.s'):
        k = unhx(a[1])
        exp = hx(ref_hmac(n, k, unhx(a[2])))
        if res != exp: return bad('|K|=%d: differs from RFC 2104 over BLAKE-%d (%s)' % (len(k), n, exp[:40]))
        if len(unhx(res)) != n // 8: return bad('MAC length')
        return None
    if op == 'bhmacseq':
        m = unhx(a[1])
        exp = ';'.join(hx(ref_hmac(n, unhx(k), m)) for k in a[2:])
        return None if res == exp else bad('after setkey the result is not HMAC(h,last key)')
    return None


def rnd(rng, n): return bytes(rng.getrandbits(8) for _ in range(n))


def key_lengths(B, D):
    s = {0, 1, 2, D - 1, D, D + 1, B - 2, B - 1, B, B + 1, B + 2, B + D, 2 * B - 1, 2 * B, 2 * B + 1, 3 * B - 1, 3 * B}
    return sorted(x for x in s if x >= 0)


def msg_lengths(B, w):
    """message lengths that move the inner hash (ipad block + M) across BLAKE's padding spill: B-2w/8-1 .. B+1"""
    lb = 2 * w // 8
    return [0, 1, B - lb - 2, B - lb - 1, B - lb, B - 1, B, B + 1, 2 * B + 3]


def cases(tier, rng):
    if tier == 'search':
        while True:
            n = rng.choice(SIZES); B = blk(n)
            kl = rng.choice([rng.randrange(0, 3 * B + 1), B + rng.randrange(-2, 3), n // 8 + rng.randrange(-1, 2)])
            yield 'bhmac %d %s %s' % (n, hx(rnd(rng, kl)), hx(rnd(rng, rng.randrange(0, 3 * B)))), 'search'
        return
    thorough = tier == 'thorough'
    for n in SIZES:
        B, D, w = blk(n), n // 8, (64 if n > 256 else 32)
        for kl in key_lengths(B, D):
            mls = msg_lengths(B, w) if thorough or kl in (0, B - 1, B, B + 1) else (0, 3)
            for ml in mls:
                yield 'bhmac %d %s %s' % (n, hx(rnd(rng, kl)), hx(rnd(rng, ml))), 'bhmac:|K| boundary'
        for kl in (range(0, 3 * B + 1) if thorough else [rng.randrange(0, 3 * B + 1) for _ in range(8)]):
            yield 'bhmac %d %s %s' % (n, hx(rnd(rng, kl)), hx(rnd(rng, rng.randrange(0, 2 * B)))), 'bhmac:|K| seeded'
        # the zero key / empty key / a key and its zero-padded extension give the same MAC by definition
        yield 'bhmac %d %s %s' % (n, hx(bytes(B)), hx(b'abc')), 'bhmac:zero key'
        yield 'bhmac %d %s %s' % (n, hx(b''), hx(b'abc')), 'bhmac:zero key'
        k = rnd(rng, D)
        yield 'bhmac %d %s %s' % (n, hx(k), hx(b'abc')), 'bhmac:padded key'
        yield 'bhmac %d %s %s' % (n, hx(k + bytes(B - D)), hx(b'abc')), 'bhmac:padded key'
        # the module singletons
        for kl in (0, D, B, B + 1):
            yield 'bhmac.s %d %s %s' % (n, hx(rnd(rng, kl)), hx(rnd(rng, rng.randrange(0, B)))), 'bhmac.s:singleton'
        # setkey sequences on one object
        seqs = [(B + 1, 1), (1, B + 1), (B, B + 1, B - 1), (3 * B, 0), (0, 3 * B), (D, B + D), (B + 5, B + 6)]
        for sq in seqs:
            yield 'bhmacseq %d %s %s' % (n, hx(rnd(rng, 5)), ' '.join(hx(rnd(rng, x)) for x in sq)), 'bhmacseq:setkey replaces'
    # malformed: sizes that are no BLAKE size
    yield 'bhmac 100 x01 x02', 'malformed'
    yield 'bhmacseq 255 x02 x01 x03', 'malformed'


def shrink(line):
    t = line.split()
    if t[0] in ('bhmac', 'bhmac.s'):
        k, m = unhx(t[2]), unhx(t[3])
        if m: yield '%s %s %s %s' % (t[0], t[1], t[2], hx(m[:len(m) // 2]))
        if any(k): yield '%s %s %s %s' % (t[0], t[1], hx(bytes(len(k))), t[3])
        if any(m): yield '%s %s %s %s' % (t[0], t[1], t[2], hx(bytes(len(m))))
    if t[0] == 'bhmacseq' and len(t) > 4:
        for i in range(3, len(t)): yield ' '.join(t[:i] + t[i + 1:])
