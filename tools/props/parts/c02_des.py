"""C02 (DES / TDEA part) — DES and triple-DES encrypt and decrypt exactly as FIPS 46-3 / SP 800-67 say, for every
keying option and every accepted way of passing the keys; undefined sizes are rejected.

run_impl executes the op line on the real crysp.des; check_impl is the property's own predicate: an independent
reference implementation on ints (props/parts/desref.py, standard tables, validated against published vectors)
and the size-rejection rule."""
from props.common import *
from props.parts import desref as R

PREFIX = ('des.', 'tdea.')
LEAN_PROOFS = ['Proofs.C02_Des',
               # sanity of the specification itself (structure of the FIPS 46-3 tables, published known answers in the kernel)
               'Proofs.C02_DesSpec', 'Proofs.C02_DesSpec.Kat', 'Proofs.C02_DesSpec.Weak',
               'Proofs.C02_DesSpec.SboxKat1', 'Proofs.C02_DesSpec.SboxKat2', 'Proofs.C02_DesSpec.SboxKat',
               'Proofs.C02_DesSpec.SboxCover0', 'Proofs.C02_DesSpec.SboxCover1', 'Proofs.C02_DesSpec.SboxCover2',
               'Proofs.C02_DesSpec.SboxCover3', 'Proofs.C02_DesSpec.SboxCover']
GEN_ITEMS = ['Des']
TRUSTED = ['Spec.Des is a hand rendering of FIPS 46-3 / SP 800-67 (tables typed from the standard; validated against published '
           'known-answer vectors through the driver echo and against props/parts/desref.py on every explored input). Shrunk by Proofs.C02_DesSpec '
           '(kernel): IP/IP^-1 are mutually inverse permutations and follow their generating pattern, E and PC-1 equal their generating rule, P is a permutation of '
           '1..32, PC-2 picks 48 distinct positions omitting exactly 9,18,22,25,35,38,43,54, every S-box row is a permutation of 0..15, shifts sum to 28; '
           'Spec.Des reproduces the classic 133457799BBCDFF1 example with its K1/K16, three NBS vectors, weak/semi-weak key and complementation behaviour, and all 19 '
           'vectors of the NBS SP 500-20 S-box test, whose encipherings are proved to look up every one of the 8x64 S-box entries. Still trusted: that P, the order '
           'of PC-2 and the S-box rows are the standard\'s (not merely some) permutations - evidenced only by those known answers; the 19 NBS vectors are typed from memory of the publication']
LEVEL_NOTE = ('Spec.Des itself is checked: structural theorems on every FIPS 46-3 table and published known answers (classic example, NBS S-box test with '
              'proved full S-box coverage) evaluated through Spec.Des in the kernel (Proofs.C02_DesSpec*).')
ASSUMPTIONS = ['DES/TDEA keys and blocks are bytes objects (python lists/ints handed to Bits() are out of scope)']


def ob(t): return None if t == 'None' else unhx(t)
def tob(b): return 'None' if b is None else hx(b)


def run_impl(line):
    from crysp import des as D
    from crysp.bits import Bits
    t = line.split(); op, a = t[0], t[1:]
    def go():
        if op in ('des.enc', 'des.dec'):
            d = D.DES(unhx(a[0]))
            from props.parts import one_object as OO   # the object has already been used for the opposite operation
            return hx(OO.used(d, lambda: unhx(a[1]), op[4:]))
        if op in ('des.len.enc', 'des.len.dec'):
            d = D.DES(unhx(a[0]))
            return str(len(d.enc(unhx(a[1])) if op == 'des.len.enc' else d.dec(unhx(a[1]))))
        if op == 'des.rt.de':
            d = D.DES(unhx(a[0])); return hx(d.dec(d.enc(unhx(a[1]))))
        if op == 'des.rt.ed':
            d = D.DES(unhx(a[0])); return hx(d.enc(d.dec(unhx(a[1]))))
        if op.startswith('tdea.'):
            k1, k2, k3, m = unhx(a[0]), ob(a[1]), ob(a[2]), unhx(a[3])
            # the calling form is part of the input: omitted arguments are really omitted
            if k2 is None and k3 is None: o = D.TDEA(k1)
            elif k3 is None: o = D.TDEA(k1, k2)
            else: o = D.TDEA(k1, k2, k3)
            if op in ('tdea.enc', 'tdea.dec'):
                from props.parts import one_object as OO
                return hx(OO.used(o, lambda: m, op[5:]))
            if op == 'tdea.len.enc': return str(len(o.enc(m)))
            if op == 'tdea.len.dec': return str(len(o.dec(m)))
            if op == 'tdea.rt.de': return hx(o.dec(o.enc(m)))
            if op == 'tdea.rt.ed': return hx(o.enc(o.dec(m)))
        if op in ('des.IP', 'des.IPinv', 'des.PC1', 'des.PC2', 'des.E', 'des.P'):
            return fb(getattr(D, op[4:])(mkbits(a[0])))
        if op == 'des.iprt':
            x = mkbits(a[0])
            return guarded(lambda: fb(D.IPinv(D.IP(x)))) + ';' + guarded(lambda: fb(D.IP(D.IPinv(x))))
        if op == 'des.S': return fb(D.S(int(a[0]), int(a[1])))
        if op == 'des.subkey': return fb(D.subkey(mkbits(a[0]), int(a[1])))
        if op == 'des.F': return fb(D.F(mkbits(a[0]), mkbits(a[1]), int(a[2])))
        raise RuntimeError('unknown op ' + op)
    return guarded(go)


# ---------------------------------------------------------------------------------------------
def msb_int(size, ival):
    """Bits (bit 0 first) -> int whose msb is bit 0"""
    return int(''.join(str((ival >> i) & 1) for i in range(size)) or '0', 2)
def of_msb(size, v):
    return sum(((v >> (size - 1 - i)) & 1) << i for i in range(size))


def check_impl(line, res):
    t = line.split(); op, a = t[0], t[1:]
    bad = lambda why: '%s: %s' % (op, why)
    def expect(exp):
        if exp is None: return None if res == 'ERR' else bad('a size the algorithm does not define must be rejected, got %s' % res)
        return None if res == hx(exp) else bad('expected %s' % hx(exp))
    if op in ('des.enc', 'des.dec'):
        return expect(R.des(unhx(a[0]), unhx(a[1]), op == 'des.dec'))
    if op in ('des.rt.de', 'des.rt.ed'):
        k, m = unhx(a[0]), unhx(a[1])
        return expect(m if len(k) == 8 and len(m) == 8 else None)
    if op.startswith('tdea.'):
        k1, k2, k3, m = unhx(a[0]), ob(a[1]), ob(a[2]), unhx(a[3])
        bd = R.bundle_of_call(k1, k2, k3)
        if bd is None or not all(len(k) == 8 for k in bd) or len(m) != 8: return expect(None)
        if op in ('tdea.rt.de', 'tdea.rt.ed'): return expect(m)
        r = expect(R.tdea(bd[0], bd[1], bd[2], m, op == 'tdea.dec'))
        if r is None and bd[0] == bd[1] == bd[2] and res != hx(R.des(bd[0], m, op == 'tdea.dec')):
            return bad('TDEA(K,K,K) differs from DES(K)')
        return r
    if op in ('des.IP', 'des.IPinv', 'des.PC1', 'des.PC2', 'des.E', 'des.P'):
        n, x = unbt(a[0])
        tbl, need = {'des.IP': (R.IP, 64), 'des.IPinv': (R.FP, 64), 'des.PC1': (R.PC1, 64), 'des.PC2': (R.PC2, 56),
                     'des.E': (R.E, 32), 'des.P': (R.P, 32)}[op]
        if n != need:
            if op == 'des.PC1': return None       # no assertion in the code, not a defined input
            return None if res == 'ERR' else bad('wrong operand size accepted')
        exp = '%d:%d' % (len(tbl), of_msb(len(tbl), R.perm(msb_int(n, x), n, tbl)))
        return None if res == exp else bad('expected %s' % exp)
    if op == 'des.iprt':
        n, x = unbt(a[0])
        exp = '%d:%d;%d:%d' % (n, x, n, x) if n == 64 else 'ERR;ERR'
        return None if res == exp else bad('IP/IPinv are not mutual inverses here: %s' % res)
    if op == 'des.S':
        n, x = int(a[0]), int(a[1])
        if not (0 <= n < 8 and 0 <= x < 64): return None if res == 'ERR' else bad('out of range accepted')
        return None if res == '4:%d' % R.SB[n][x] else bad('S-box entry')
    if op == 'des.subkey':
        n, k = unbt(a[0]); r = int(a[1])
        if n != 56 or r > 15: return None
        cd = msb_int(56, k); c, d = cd >> 28, cd & 0xfffffff
        s = sum(R.SHIFTS[:r + 1])
        c = ((c << s) | (c >> (28 - s))) & 0xfffffff; d = ((d << s) | (d >> (28 - s))) & 0xfffffff
        exp = '48:%d' % of_msb(48, R.perm((c << 28) | d, 56, R.PC2))
        return None if res == exp else bad('expected %s' % exp)
    if op == 'des.F':
        nr, rv = unbt(a[0]); nk, k = unbt(a[1]); r = int(a[2])
        if nr != 32 or nk != 56 or r > 15: return None
        cd = msb_int(56, k); c, d = cd >> 28, cd & 0xfffffff
        s = sum(R.SHIFTS[:r + 1])
        c = ((c << s) | (c >> (28 - s))) & 0xfffffff; d = ((d << s) | (d >> (28 - s))) & 0xfffffff
        kr = R.perm((c << 28) | d, 56, R.PC2)
        exp = '32:%d' % of_msb(32, R.f(msb_int(32, rv), kr))
        return None if res == exp else bad('expected %s' % exp)
    return None


# ---------------------------------------------------------------------------------------------
def rb(rng, n): return bytes(rng.getrandbits(8) for _ in range(n))

def special_keys(rng):
    ks = list(R.WEAK) + list(R.SEMIWEAK)
    ks += [bytes(8), b'\xff' * 8, bytes.fromhex('0123456789ABCDEF'), bytes.fromhex('133457799BBCDFF1')]
    return ks

def single_bit(n=8):
    for i in range(8 * n): yield (1 << i).to_bytes(n, 'big')

def parity_variants(k, rng):
    """keys that differ from k only in parity bits (lsb of each byte)"""
    yield bytes(b ^ 1 for b in k)
    yield bytes(b & 0xfe for b in k)
    yield bytes(b | 1 for b in k)
    for _ in range(2): yield bytes(b ^ rng.getrandbits(1) for b in k)

def tdea_forms(k1, k2, k3):
    """every accepted way of passing the keys (+ the forms that must be rejected)"""
    yield (k1, None, None), 'tdea.form.1key'
    yield (k1, k2, None), 'tdea.form.2args'
    yield (k1, k2, k3), 'tdea.form.3args'
    yield (k1 + k2, None, None), 'tdea.form.str16'
    yield (k1 + k2 + k3, None, None), 'tdea.form.str24'
    yield (k1, k1, k1), 'tdea.form.kkk'
    yield (k1, k2, k1), 'tdea.form.k1k2k1'
    yield (k1 + k1 + k1, None, None), 'tdea.form.str24.kkk'

def tdea_bad_forms(k1, k2, k3):
    yield (k1, None, k3), 'tdea.bad.K2None'
    yield (k1 + k2, k3, None), 'tdea.bad.str16+K2'
    yield (k1 + k2 + k3, None, k3), 'tdea.bad.str24+K3'
    for n in (0, 7, 9, 12, 15, 17, 20, 23, 25, 32):
        yield ((k1 + k2 + k3 + k1)[:n], None, None), 'tdea.bad.strlen'
    yield (k1, k2[:7], None), 'tdea.bad.K2len'
    yield (k1, k2 + b'\0', k3), 'tdea.bad.K2len'
    yield (k1, k2, k3[:5]), 'tdea.bad.K3len'
    yield (k1, k2 + k3, None), 'tdea.bad.K2len'
    yield (k1[:7], k2, k3), 'tdea.bad.K1len'

def tline(op, ks, m): return '%s %s %s %s %s' % (op, hx(ks[0]), tob(ks[1]), tob(ks[2]), hx(m))

WITNESS_24 = 'tdea.enc x0123456789abcdef23456789abcdef01456789abcdef0123 None None x5468652071756663'   # SP 800-67 B.1 bundle

def des_core_cases(tier, rng, ops=('des.enc', 'des.dec')):
    q = tier == 'quick'
    for k, p, c in R.KAT:
        if 'des.enc' in ops:
            yield 'des.enc x%s x%s' % (k.lower(), p.lower()), 'des.kat'
            yield 'des.dec x%s x%s' % (k.lower(), c.lower()), 'des.kat'
        else:
            for op in ops: yield '%s x%s x%s' % (op, k.lower(), p.lower()), 'des.kat'
    blocks = [bytes(8), b'\xff' * 8, bytes.fromhex('0123456789ABCDEF')]
    for k in special_keys(rng):
        for m in blocks + [rb(rng, 8) for _ in range(2 if q else 8)]:
            for op in ops: yield '%s %s %s' % (op, hx(k), hx(m)), 'des.specialkey'
    for k in single_bit():
        for m in [bytes(8), rb(rng, 8)]:
            for op in ops: yield '%s %s %s' % (op, hx(k), hx(m)), 'des.singlebitkey'
    for m in single_bit():
        for k in [bytes(8), R.WEAK[0], rb(rng, 8)]:
            for op in ops: yield '%s %s %s' % (op, hx(k), hx(m)), 'des.singlebitblock'
    for _ in range(6 if q else 40):
        k = rb(rng, 8); m = rb(rng, 8)
        for k2 in parity_variants(k, rng):
            for op in ops: yield '%s %s %s' % (op, hx(k2), hx(m)), 'des.parity'
        for op in ops: yield '%s %s %s' % (op, hx(k), hx(m)), 'des.parity'
    for _ in range(1500 if q else 12000):
        k = rb(rng, 8); m = rb(rng, 8)
        for op in ops: yield '%s %s %s' % (op, hx(k), hx(m)), 'des.random'

def size_cases(rng, ops):
    for kl in (0, 1, 7, 9, 16, 24):
        for op in ops: yield '%s %s %s' % (op, hx(rb(rng, kl)), hx(rb(rng, 8))), 'des.badkeysize'
    for ml in (0, 1, 7, 9, 16, 24):
        for op in ops: yield '%s %s %s' % (op, hx(rb(rng, 8)), hx(rb(rng, ml))), 'des.badblocksize'

def tdea_cases(tier, rng, ops=('tdea.enc', 'tdea.dec')):
    q = tier == 'quick'
    for op in ops: yield WITNESS_24.replace('tdea.enc', op), 'tdea.witness24'
    keysets = [(rb(rng, 8), rb(rng, 8), rb(rng, 8)) for _ in range(6 if q else 60)]
    keysets += [(R.WEAK[0], R.WEAK[1], R.WEAK[2]), (R.SEMIWEAK[0], R.SEMIWEAK[1], R.SEMIWEAK[0]), (bytes(8), b'\xff' * 8, bytes(8)),
                (bytes.fromhex('0123456789ABCDEF'), bytes.fromhex('23456789ABCDEF01'), bytes.fromhex('456789ABCDEF0123'))]
    for ks in keysets:
        for m in [bytes(8), b'\xff' * 8, rb(rng, 8)] + ([] if q else [rb(rng, 8) for _ in range(3)]):
            for form, tag in tdea_forms(*ks):
                for op in ops: yield tline(op, form, m), tag
    for ks in keysets[:2] + keysets[-1:]:
        m = rb(rng, 8)
        for form, tag in tdea_bad_forms(*ks):
            for op in ops: yield tline(op, form, m), tag
        for ml in (0, 7, 9, 16):
            for form, tag in list(tdea_forms(*ks))[:5]:
                for op in ops: yield tline(op, form, rb(rng, ml)), 'tdea.badblocksize'
    for i in range(0, 192, 1 if not q else 5):       # single-bit 24-byte key strings
        k = (1 << i).to_bytes(24, 'big')
        for op in ops: yield tline(op, (k, None, None), rb(rng, 8)), 'tdea.singlebit.str24'

def component_cases(tier, rng):
    q = tier == 'quick'
    for n in range(8):
        for x in range(64): yield 'des.S %d %d' % (n, x), 'des.S'
    for n, x in ((8, 0), (0, 64), (9, 70)): yield 'des.S %d %d' % (n, x), 'des.S.range'
    for op, n in (('des.IP', 64), ('des.IPinv', 64), ('des.PC1', 64), ('des.PC2', 56), ('des.E', 32), ('des.P', 32)):
        for i in range(n): yield '%s %s' % (op, bt(n, 1 << i)), op
        for v in (0, (1 << n) - 1): yield '%s %s' % (op, bt(n, v)), op
        for _ in range(10 if q else 100): yield '%s %s' % (op, bt(n, rng.getrandbits(n))), op
        for bad in (n - 1, n + 1, 0):
            if op != 'des.PC1': yield '%s %s' % (op, bt(bad, rng.getrandbits(bad) if bad else 0)), op + '.size'
    for r in range(16):
        for i in range(0, 56, 1 if not q else 3): yield 'des.subkey %s %d' % (bt(56, 1 << i), r), 'des.subkey'
        for _ in range(3 if q else 30):
            yield 'des.subkey %s %d' % (bt(56, rng.getrandbits(56)), r), 'des.subkey'
            yield 'des.F %s %s %d' % (bt(32, rng.getrandbits(32)), bt(56, rng.getrandbits(56)), r), 'des.F'
        for i in range(0, 32, 1 if not q else 4):
            yield 'des.F %s %s %d' % (bt(32, 1 << i), bt(56, 0), r), 'des.F.singlebit'
    for r in (16, 17, 40): yield 'des.subkey %s %d' % (bt(56, rng.getrandbits(56)), r), 'des.subkey.r>15'
    for n in (55, 28, 0, 57, 64): yield 'des.subkey %s 3' % bt(n, rng.getrandbits(n) if n else 0), 'des.subkey.size'
    yield 'des.F %s %s 0' % (bt(31, 5), bt(56, 1)), 'des.F.size'
    yield 'des.F %s %s 0' % (bt(32, 5), bt(55, 1)), 'des.F.size'


def cases(tier, rng):
    if tier == 'search':
        while True:
            k = rb(rng, 8); m = rb(rng, 8)
            yield 'des.enc %s %s' % (hx(k), hx(m)), 'search'
            yield 'des.dec %s %s' % (hx(k), hx(m)), 'search'
            ks = (rb(rng, 8), rb(rng, 8), rb(rng, 8))
            for form, tag in tdea_forms(*ks):
                yield tline('tdea.enc', form, m), 'search'
                yield tline('tdea.dec', form, m), 'search'
            yield 'des.F %s %s %d' % (bt(32, rng.getrandbits(32)), bt(56, rng.getrandbits(56)), rng.randrange(16)), 'search'
            yield 'des.subkey %s %d' % (bt(56, rng.getrandbits(56)), rng.randrange(16)), 'search'
        return
    yield from des_core_cases(tier, rng)
    yield from size_cases(rng, ('des.enc', 'des.dec'))
    yield from tdea_cases(tier, rng)
    yield from component_cases(tier, rng)


def shrink(line):
    t = line.split()
    for i, tok in enumerate(t[1:], 1):
        if tok[0] == 'x' and len(tok) > 1:
            b = unhx(tok)
            for j in range(len(b)):
                if b[j]:
                    yield ' '.join(t[:i] + [hx(b[:j] + b'\0' + b[j + 1:])] + t[i + 1:])
