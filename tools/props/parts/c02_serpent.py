"""C02 (Serpent part) — Serpent encrypts/decrypts exactly as the AES submission defines, for every key length up to
256 bits; keys longer than 256 bits and blocks that are not 128 bits are rejected.

run_impl executes the op line on the real crysp.serpent; the property oracle is the executable Lean Spec (second driver
column) and, independently of both, the small reference below (plain-int bitslice Serpent written from the submission,
sharing no code with crysp or with the Lean files).

Two Lean Specs: Spec.Serpent (bitslice formulation, the form of the code; Proofs.C02_Serpent ties the model to it) and
Spec.SerpentStd (the standard, non-bitslice formulation: IP, key mixing with K^_i, 32 S-boxes on consecutive nibbles, bit-level
linear transformation table, FP); Proofs.C02_SerpentStd proves the submission's equivalence claim between the two for every
key and block and composes it with the model refinement (enc_refines_std / dec_refines_std)."""
from props.common import *

PREFIX = ('serpent.',)
ID = 'C02'
LEAN_PROOFS = ['Proofs.C02_Serpent', 'Proofs.C02_SerpentStd']
GEN_ITEMS = ['Serpent']
RULE = ('op lines = (operation, key, block); keys of every byte length 0..32 (zero / all-one / single-bit / random), bit-length '
        'keys around every word boundary, blocks zero / all-one / single-bit / random, over-long keys and wrong block sizes; '
        'component functions on unit vectors, uniform columns and random states; distinct lines; non-trivial = implementation returned a value')
TRUSTED = ['Spec.SerpentStd is a hand rendering of the STANDARD (non-bitslice) description of the Serpent AES submission: block as bits 0..127, '
           'IP/FP as the literal appendix tables, rounds = key mixing with K^_i, 32 parallel copies of S_{i mod 8} on consecutive nibbles, linear '
           'transformation as a bit-level parity table, last round with K^_32, FP; validated in the kernel on NESSIE vectors. The model of the code is '
           'proved equal to it end to end (Proofs.C02_SerpentStd.enc_refines_std / dec_refines_std, every key <= 256 bits, every block), via the proved '
           'equivalence standard = bitslice (enc_std_eq_bitslice / dec_std_eq_bitslice: round by round, each standard round = IP-conjugate of the bitslice '
           'round). So the bitslice rendering Spec.Serpent (column S-box layer, word rotations/shifts, round chaining, IP/FP rule) is NO LONGER trusted '
           'as far as enc/dec are concerned: it is an intermediate, and the correspondence oracle (driver spec column) is proved equal to the standard form',
           'still trusted in Spec.SerpentStd / shared by both Specs: (a) the eight S-box tables typed from appendix A.5 (Spec.Serpent.sboxTable; the same '
           'tables serve both formulations; inverse boxes are derived by rule); (b) the key schedule up to K_i (padding 1-then-zeros, prekey recurrence '
           'with phi and <<<11, S-boxes S3,S2,S1,S0,S7,... in bitslice mode, K^_i = IP(K_i)) — the submission defines it in bitslice terms only, so '
           'there is one rendering (Spec.Serpent.roundKeys) used by both; (c) the linear-transformation parity tables ltTable/ltInvTable: they have the '
           'format of appendix A.3/A.4 but were generated mechanically from the word operations conjugated by IP/FP (the appendix is not available '
           'offline), only their first rows were compared with the author\'s memory of the appendix; L_table_is_conjugate proves table = IP o (word '
           'operations) o FP on all 2^128 inputs, so L is one rendering in two proved-equal forms, not two independent ones; (d) the byte/bit-order '
           'convention (little-endian numbers, see ASSUMPTIONS)',
           'both Specs are additionally checked against an independent plain-int Python reference on every generated case and against five NESSIE '
           'vectors (no other Serpent oracle exists offline)']
LEVEL_NOTE = ('Serpent: proved — model = bitslice Spec (C02_Serpent) and bitslice Spec = standard Spec of the submission (C02_SerpentStd: IP/FP tables = '
              'rule = probed tables and mutually inverse; nibble k of IP(x) = column k; S-box layer, key mixing, linear transformation, round and inverse '
              'round are IP-conjugates for every key/block; table-defined L and L^-1 are mutually inverse; enc/dec equal on all inputs), hence model = standard '
              'description. Trusted — S-box tables, the (bitslice-defined) key schedule rendering, the mechanically generated L tables as a copy of appendix '
              'A.3/A.4 (proved equal to the word-level definition), byte order, Lean kernel.')
ASSUMPTIONS = ['python -O (asserts stripped) is out of scope',
               'byte order: a key/block byte string is the little-endian number of its bytes (NESSIE convention, the one crysp and its tests use)',
               'a zero-length key is padded like any other short key (1 then zeros); the submission only says "up to 256 bits"']

M32 = 0xffffffff
M128 = (1 << 128) - 1


# ---------------------------------------------------------------------------------------------
# independent reference (plain ints)
SB = ['38f1a65bed42709c', 'fc27905a1be86d34', '86793cafd1e40b52', '0fb8c963d124a75e',
      '1f83c0b6254a9e7d', 'f52b4a9c03e8d671', '72c5846be91fd3a0', '1df0e82b74ca9356']
SBOX = [[int(c, 16) for c in s] for s in SB]
SINV = [[row.index(v) for v in range(16)] for row in SBOX]
PHI = 0x9e3779b9

def r_rotl(x, n): return ((x << n) | (x >> (32 - n))) & M32
def r_rotr(x, n): return ((x >> n) | (x << (32 - n))) & M32
def r_words(x): return [(x >> (32 * m)) & M32 for m in range(4)]
def r_join(w): return sum(v << (32 * m) for m, v in enumerate(w))

def r_box(box, w):
    out = [0, 0, 0, 0]
    for k in range(32):
        n = sum(((w[m] >> k) & 1) << m for m in range(4))
        v = box[n]
        for m in range(4): out[m] |= ((v >> m) & 1) << k
    return out

def r_lt(w):
    x0, x1, x2, x3 = w
    x0 = r_rotl(x0, 13); x2 = r_rotl(x2, 3)
    x1 ^= x0 ^ x2; x3 ^= x2 ^ ((x0 << 3) & M32)
    x1 = r_rotl(x1, 1); x3 = r_rotl(x3, 7)
    x0 ^= x1 ^ x3; x2 ^= x3 ^ ((x1 << 7) & M32)
    return [r_rotl(x0, 5), x1, r_rotl(x2, 22), x3]

def r_ltinv(w):
    x0, x1, x2, x3 = w
    x2 = r_rotr(x2, 22); x0 = r_rotr(x0, 5)
    x2 ^= x3 ^ ((x1 << 7) & M32); x0 ^= x1 ^ x3
    x3 = r_rotr(x3, 7); x1 = r_rotr(x1, 1)
    x3 ^= x2 ^ ((x0 << 3) & M32); x1 ^= x0 ^ x2
    return [r_rotr(x0, 13), x1, r_rotr(x2, 3), x3]

def r_keys(klen, k):
    if klen < 256: k = (k & ((1 << klen) - 1)) | (1 << klen)
    w = r_words(k) + r_words(k >> 128)
    for i in range(132):
        w.append(r_rotl(w[-8] ^ w[-5] ^ w[-3] ^ w[-1] ^ PHI ^ i, 11))
    w = w[8:]
    return [r_box(SBOX[(3 - i) % 8], w[4 * i:4 * i + 4]) for i in range(33)]

def r_xor(a, b): return [x ^ y for x, y in zip(a, b)]

def r_enc(klen, k, p):
    ks = r_keys(klen, k); b = r_words(p)
    for i in range(31): b = r_lt(r_box(SBOX[i % 8], r_xor(b, ks[i])))
    return r_join(r_xor(r_box(SBOX[7], r_xor(b, ks[31])), ks[32]))

def r_dec(klen, k, c):
    ks = r_keys(klen, k); b = r_words(c)
    b = r_xor(r_box(SINV[7], r_xor(b, ks[32])), ks[31])
    for i in range(30, -1, -1): b = r_xor(r_box(SINV[i % 8], r_ltinv(b)), ks[i])
    return r_join(b)

def r_ip(x): return sum(((x >> (32 * (j % 4) + j // 4)) & 1) << j for j in range(128))
def r_fp(x): return sum(((x >> (4 * (j % 32) + j // 32)) & 1) << j for j in range(128))


# ---------------------------------------------------------------------------------------------
def operand_sv(t):
    """(size, value) a `Bits(·,bitorder=1)` of the operand token denotes"""
    if t[0] == 'x':
        b = unhx(t); return 8 * len(b), int.from_bytes(b, 'little')
    return unbt(t)

def impl_operand(t):
    return unhx(t) if t[0] == 'x' else mkbits(t)

def run_impl(line):
    from crysp import serpent as sp
    t = line.split(); op, a = t[0], t[1:]
    def go():
        if op in ('serpent.enc', 'serpent.dec'):
            from props.parts import one_object as OO   # the object has already been used for the opposite operation
            return hx(OO.used(sp.Serpent(impl_operand(a[0])), lambda: impl_operand(a[1]), op[8:]))
        if op == 'serpent.subkeys': return ';'.join(fb(k) for k in sp.Serpent(impl_operand(a[0])).keys)
        if op == 'serpent.S': return fb(sp._S(int(a[0]), mkbits(a[1])))
        if op == 'serpent.Sinv': return fb(sp._Sinv(int(a[0]), mkbits(a[1])))
        if op == 'serpent.IP': return fb(sp._IP(mkbits(a[0])))
        if op == 'serpent.FP': return fb(sp._FP(mkbits(a[0])))
        if op == 'serpent.L': return fb(sp._L(mkbits(a[0])))
        if op == 'serpent.Linv': return fb(sp._Linv(mkbits(a[0])))
        raise RuntimeError('unknown op ' + op)
    return guarded(go)


def check_impl(line, res):
    t = line.split(); op, a = t[0], t[1:]
    bad = lambda why: '%s: %s' % (op, why)
    if line in KAT_EXPECT and res != KAT_EXPECT[line]: return bad('known answer is %s' % KAT_EXPECT[line])
    if op in ('serpent.enc', 'serpent.dec', 'serpent.subkeys'):
        klen, k = operand_sv(a[0])
        ok = klen <= 256
        if op != 'serpent.subkeys':
            bl, b = operand_sv(a[1]); ok = ok and bl == 128
        if not ok: return None if res == 'ERR' else bad('undefined key/block size must be rejected, got %s' % res[:60])
        if res == 'ERR': return bad('admissible key/block refused')
        if op == 'serpent.subkeys':
            exp = ';'.join('128:%d' % r_join(w) for w in r_keys(klen, k))
        else:
            exp = hx((r_enc if op == 'serpent.enc' else r_dec)(klen, k, b).to_bytes(16, 'little'))
        return None if res == exp else bad('differs from the reference: expected %s' % exp[:80])
    if op in ('serpent.S', 'serpent.Sinv'):
        i = int(a[0]); n, x = unbt(a[1])
        if not (0 <= i < 8 and n == 128): return None if res == 'ERR' else bad('undefined box/size must be rejected')
        exp = '128:%d' % r_join(r_box((SBOX if op == 'serpent.S' else SINV)[i], r_words(x)))
        return None if res == exp else bad('expected %s' % exp)
    n, x = unbt(a[0])
    if n != 128: return None if res == 'ERR' else bad('wrong size must be rejected')
    f = {'serpent.IP': r_ip, 'serpent.FP': r_fp, 'serpent.L': lambda v: r_join(r_lt(r_words(v))),
         'serpent.Linv': lambda v: r_join(r_ltinv(r_words(v)))}[op]
    exp = '128:%d' % f(x)
    return None if res == exp else bad('expected %s' % exp)


# ---------------------------------------------------------------------------------------------
# known answers: the three NESSIE Serpent-256 vectors of tests/test_serpent.py, and NESSIE Serpent-128 / Serpent-192 set 1
# vector 0 (short keys: exercises the 1-then-zeros padding)
KATS = [('8000000000000000000000000000000000000000000000000000000000000000', '00000000000000000000000000000000', 'a223aa1288463c0e2be38ebd825616c0'),
        ('4000000000000000000000000000000000000000000000000000000000000000', '00000000000000000000000000000000', 'eae1d405570174df7df2f9966d509159'),
        ('1111111111111111111111111111111111111111111111111111111111111111', '11111111111111111111111111111111', 'a482eaa5d5771f2fdb2ea1a5f141b9e2'),
        ('80000000000000000000000000000000', '00000000000000000000000000000000', '264e5481eff42a4606abda06c0bfda3d'),
        ('800000000000000000000000000000000000000000000000', '00000000000000000000000000000000', '9e274ead9b737bb21efcfca548602689')]
KAT_EXPECT = {}
for _k, _p, _c in KATS:
    KAT_EXPECT['serpent.enc x%s x%s' % (_k, _p)] = 'x' + _c
    KAT_EXPECT['serpent.dec x%s x%s' % (_k, _c)] = 'x' + _p

def keys_of_len(n, rng, k):
    """byte keys of length n: zero, all-one, single-bit (first, last, random position), k random"""
    out = [(bytes(n), 'zero'), (b'\xff' * n, 'ones')]
    if n:
        for pos in {0, 8 * n - 1, rng.randrange(8 * n)}:
            out.append(((1 << pos).to_bytes(n, 'little'), 'bit'))
    out += [(bytes(rng.getrandbits(8) for _ in range(n)), 'rand') for _ in range(k)]
    return out

def blocks(rng, k):
    out = [(bytes(16), 'zero'), (b'\xff' * 16, 'ones'), ((1 << rng.randrange(128)).to_bytes(16, 'little'), 'bit')]
    out += [(bytes(rng.getrandbits(8) for _ in range(16)), 'rand') for _ in range(k)]
    return out

def col_word(nibs):
    v = 0
    for k, n in enumerate(nibs):
        for m in range(4):
            if (n >> m) & 1: v |= 1 << (32 * m + k)
    return v

def component_states(rng, nrand, units=True):
    out = [(0, 'zero'), (M128, 'ones')]
    if units: out += [(1 << p, 'unit') for p in range(128)]
    out += [(rng.getrandbits(128), 'rand') for _ in range(nrand)]
    return out

BITLENS = [1, 2, 5, 7, 9, 31, 32, 33, 63, 64, 65, 127, 128, 129, 160, 191, 192, 193, 224, 254, 255, 256]

def cipher_cases(ops, tier, rng):
    q = tier == 'quick'
    for kh, bh, ch in KATS:
        for op in ops: yield '%s x%s x%s' % (op, kh, ch if op.endswith('dec') and not op.endswith('encdec') else bh), 'kat'
    # every byte length 0..32
    for n in range(0, 33):
        for key, kt in keys_of_len(n, rng, 2 if q else 12):
            for blk, btg in blocks(rng, 1 if q else 5)[(2 if q and kt != 'rand' else 0):]:
                for op in ops: yield '%s %s %s' % (op, hx(key), hx(blk)), 'len%d' % n if kt == 'rand' else 'key-' + kt
    # every single-bit block / single-bit 256-bit key
    key = bytes(rng.getrandbits(8) for _ in range(32))
    for p in range(0, 128, 4 if q else 1):
        pp = p + (rng.randrange(4) if q else 0)
        for op in ops: yield '%s %s %s' % (op, hx(key), hx((1 << pp).to_bytes(16, 'little'))), 'block-bit'
    blk = bytes(rng.getrandbits(8) for _ in range(16))
    for p in range(0, 256, 8 if q else 1):
        pp = p + (rng.randrange(8) if q else 0)
        for op in ops: yield '%s %s %s' % (op, hx((1 << pp).to_bytes(32, 'little')), hx(blk)), 'key-bit256'
    # bit-length keys (Bits operands), around every word boundary
    for n in BITLENS:
        for v in {0, (1 << n) - 1, 1 << (n - 1), rng.getrandbits(n)}:
            for op in ops: yield '%s %s %s' % (op, bt(n, v), bt(128, rng.getrandbits(128))), 'bitlen-key'
    # malformed: over-long keys, wrong block sizes
    for n in (33, 34, 40, 64):
        for op in ops: yield '%s %s %s' % (op, hx(bytes(rng.getrandbits(8) for _ in range(n))), hx(bytes(16))), 'error-key'
    for op in ops: yield '%s %s %s' % (op, hx(bytes(range(33))), hx(bytes(16))), 'error-key'
    for n in (257, 258, 300, 512):
        for op in ops: yield '%s %s %s' % (op, bt(n, rng.getrandbits(n) | (1 << (n - 1))), bt(128, 5)), 'error-key'
    for n in (0, 1, 8, 15, 17, 24, 32):
        for kl in (16, 32, 5):
            for op in ops: yield '%s %s %s' % (op, hx(bytes(rng.getrandbits(8) for _ in range(kl))), hx(bytes(rng.getrandbits(8) for _ in range(n)))), 'error-block'
    for n in (0, 1, 127, 129, 256):
        for op in ops: yield '%s %s %s' % (op, hx(bytes(16)), bt(n, rng.getrandbits(n) if n else 0)), 'error-block'


def component_cases(ops_box, ops_lin, tier, rng):
    q = tier == 'quick'
    for i in range(8):
        for v in range(16):
            for op in ops_box: yield '%s %d %s' % (op, i, bt(128, col_word([v] * 32))), 'box-value'
        for k in range(2 if q else 8):
            for op in ops_box: yield '%s %d %s' % (op, i, bt(128, col_word([(v * (2 * k + 1) + i + k) % 16 for v in range(32)]))), 'box-mixed'
        for x, tg in component_states(rng, 6 if q else 200, units=not q or i in (0, 7)):
            for op in ops_box: yield '%s %d %s' % (op, i, bt(128, x)), 'box-' + tg
    for i in (8, 9, 16):
        for op in ops_box: yield '%s %d %s' % (op, i, bt(128, rng.getrandbits(128))), 'error-box'
    for n in (0, 4, 127, 129, 256):
        for op in ops_box: yield '%s %d %s' % (op, 3, bt(n, rng.getrandbits(n) if n else 0)), 'error-size'
        for op in ops_lin: yield '%s %s' % (op, bt(n, rng.getrandbits(n) if n else 0)), 'error-size'
    for x, tg in component_states(rng, 60 if q else 4000):
        for op in ops_lin: yield '%s %s' % (op, bt(128, x)), op.split('.')[-1] + '-' + tg
    # two-bit states for the linear maps (pairs of unit vectors)
    for _ in range(40 if q else 3000):
        x = (1 << rng.randrange(128)) | (1 << rng.randrange(128))
        for op in ops_lin: yield '%s %s' % (op, bt(128, x)), 'two-bit'


def cases(tier, rng):
    if tier == 'search':
        while True:
            n = rng.choice([rng.randrange(0, 33), 16, 24, 32, rng.randrange(0, 36)])
            key = bytes(rng.getrandbits(8) for _ in range(n))
            blk = bytes(rng.getrandbits(8) for _ in range(16))
            for op in ('serpent.enc', 'serpent.dec'): yield '%s %s %s' % (op, hx(key), hx(blk)), 'search'
            yield 'serpent.subkeys %s' % hx(key), 'search'
            x = rng.getrandbits(128); i = rng.randrange(8)
            for op in ('serpent.S', 'serpent.Sinv'): yield '%s %d %s' % (op, i, bt(128, x)), 'search'
            for op in ('serpent.IP', 'serpent.FP', 'serpent.L', 'serpent.Linv'): yield '%s %s' % (op, bt(128, x)), 'search'
        return
    yield from cipher_cases(('serpent.enc', 'serpent.dec'), tier, rng)
    for n in range(0, 33):
        for key, kt in keys_of_len(n, rng, 1):
            yield 'serpent.subkeys %s' % hx(key), 'subkeys'
    for n in BITLENS + [257, 300]:
        yield 'serpent.subkeys %s' % bt(n, rng.getrandbits(n)), 'subkeys-bitlen'
    yield 'serpent.subkeys %s' % hx(bytes(33)), 'error-key'
    yield from component_cases(('serpent.S', 'serpent.Sinv'), ('serpent.IP', 'serpent.FP', 'serpent.L', 'serpent.Linv'), tier, rng)


def shrink(line):
    t = line.split()
    for i, tok in enumerate(t[1:], 1):
        if tok[0] == 'x' and len(tok) > 3 and i == 1:
            yield ' '.join(t[:i] + ['x' + tok[3:]] + t[i + 1:])
            yield ' '.join(t[:i] + [tok[:-2]] + t[i + 1:])
        if tok[0] == 'x' and len(tok) > 1 and set(tok[1:]) != {'0'}:
            yield ' '.join(t[:i] + ['x' + '0' * (len(tok) - 1)] + t[i + 1:])
