"""Independent reference of BLAKE-224/256/384/512 (SHA-3 submission v1.3) on byte strings, written from the
submission's text on plain Python integers; used by the HMAC-over-BLAKE part (C13) as the hash of the RFC 2104 formula.
Nothing of crysp is imported.  The constants are the leading hexadecimal digits of pi (BBP digit extraction is overkill:
they are typed, and the self test below pins the eight known answers of the submission)."""
import struct, hashlib

PI = [0x243F6A8885A308D3, 0x13198A2E03707344, 0xA4093822299F31D0, 0x082EFA98EC4E6C89,
      0x452821E638D01377, 0xBE5466CF34E90C6C, 0xC0AC29B7C97C50DD, 0x3F84D5B5B5470917,
      0x9216D5D98979FB1B, 0xD1310BA698DFB5AC, 0x2FFD72DBD01ADFB7, 0xB8E1AFED6A267E96,
      0xBA7C9045F12C7F99, 0x24A19947B3916CF7, 0x0801F2E2858EFC16, 0x636920D871574E69]
SIGMA = [[0, 1, 2, 3, 4, 5, 6, 7, 8, 9, 10, 11, 12, 13, 14, 15],
         [14, 10, 4, 8, 9, 15, 13, 6, 1, 12, 0, 2, 11, 7, 5, 3],
         [11, 8, 12, 0, 5, 2, 15, 13, 10, 14, 3, 6, 7, 1, 9, 4],
         [7, 9, 3, 1, 13, 12, 11, 14, 2, 6, 5, 10, 4, 0, 15, 8],
         [9, 0, 5, 7, 2, 4, 10, 15, 14, 1, 11, 12, 6, 8, 3, 13],
         [2, 12, 6, 10, 0, 11, 8, 3, 4, 13, 7, 5, 15, 14, 1, 9],
         [12, 5, 1, 15, 14, 13, 4, 10, 0, 7, 6, 3, 9, 2, 8, 11],
         [13, 11, 7, 14, 12, 1, 3, 9, 5, 0, 15, 4, 8, 6, 2, 10],
         [6, 15, 14, 9, 11, 3, 0, 8, 12, 2, 13, 7, 1, 4, 10, 5],
         [10, 2, 8, 4, 7, 6, 1, 5, 15, 11, 9, 14, 3, 12, 13, 0]]
# initial values = those of SHA-224/256/384/512 (FIPS 180-4 section 5.3)
IV = {224: [0xC1059ED8, 0x367CD507, 0x3070DD17, 0xF70E5939, 0xFFC00B31, 0x68581511, 0x64F98FA7, 0xBEFA4FA4],
      256: [0x6A09E667, 0xBB67AE85, 0x3C6EF372, 0xA54FF53A, 0x510E527F, 0x9B05688C, 0x1F83D9AB, 0x5BE0CD19],
      384: [0xCBBB9D5DC1059ED8, 0x629A292A367CD507, 0x9159015A3070DD17, 0x152FECD8F70E5939,
            0x67332667FFC00B31, 0x8EB44A8768581511, 0xDB0C2E0D64F98FA7, 0x47B5481DBEFA4FA4],
      512: [0x6A09E667F3BCC908, 0xBB67AE8584CAA73B, 0x3C6EF372FE94F82B, 0xA54FF53A5F1D36F1,
            0x510E527FADE682D1, 0x9B05688C2B3E6C1F, 0x1F83D9ABFB41BD6B, 0x5BE0CD19137E2179]}


def blake(n, data, salt=0):
    """BLAKE-n(data) with the 4-word salt given as one integer (most significant word first)"""
    big = n > 256
    w = 64 if big else 32
    mask = (1 << w) - 1
    rounds = 16 if big else 14
    rot = (32, 25, 16, 11) if big else (16, 12, 8, 7)
    if big: c = PI
    else: c = [x for p in PI[:8] for x in (p >> 32, p & 0xffffffff)]
    bb = 16 * w // 8
    s = [(salt >> (w * (3 - i))) & mask for i in range(4)]
    ror = lambda x, k: ((x >> k) | (x << (w - k))) & mask
    L = 8 * len(data)
    # padding: 1, zeros, marker bit (1 for 256/512), 2w-bit length -- on bytes since L is a multiple of 8
    lenbytes = 2 * w // 8
    zeros = (bb - (len(data) + 1 + lenbytes) % bb) % bb
    pad = bytearray(b'\x80' + b'\0' * zeros)
    if n in (256, 512): pad[-1] |= 1
    msg = bytes(data) + bytes(pad) + L.to_bytes(lenbytes, 'big')
    assert len(msg) % bb == 0
    h = list(IV[n])
    for i in range(len(msg) // bb):
        m = struct.unpack('>16' + ('Q' if big else 'L'), msg[i * bb:(i + 1) * bb])
        t = min(L, 8 * (i + 1) * bb) if 8 * i * bb < L else 0
        t0, t1 = t & mask, (t >> w) & mask
        v = h + [s[j] ^ c[j] for j in range(4)] + [t0 ^ c[4], t0 ^ c[5], t1 ^ c[6], t1 ^ c[7]]
        for r in range(rounds):
            sg = SIGMA[r % 10]
            for g, (ja, jb, jc, jd) in enumerate(((0, 4, 8, 12), (1, 5, 9, 13), (2, 6, 10, 14), (3, 7, 11, 15),
                                                  (0, 5, 10, 15), (1, 6, 11, 12), (2, 7, 8, 13), (3, 4, 9, 14))):
                p, q = sg[2 * g], sg[2 * g + 1]
                a, b, cc, d = v[ja], v[jb], v[jc], v[jd]
                a = (a + b + (m[p] ^ c[q])) & mask
                d = ror(d ^ a, rot[0])
                cc = (cc + d) & mask
                b = ror(b ^ cc, rot[1])
                a = (a + b + (m[q] ^ c[p])) & mask
                d = ror(d ^ a, rot[2])
                cc = (cc + d) & mask
                b = ror(b ^ cc, rot[3])
                v[ja], v[jb], v[jc], v[jd] = a, b, cc, d
        h = [h[j] ^ s[j % 4] ^ v[j] ^ v[j + 8] for j in range(8)]
    return b''.join(x.to_bytes(w // 8, 'big') for x in h)[:n // 8]


_KAT = [(256, b'\0', '0CE8D4EF4DD7CD8D62DFDED9D4EDB0A774AE6A41929A74DA23109E8F11139C87'),
        (256, b'\0' * 72, 'D419BAD32D504FB7D44D460C42C5593FE544FA4C135DEC31E21BD9ABDCC22D41'),
        (224, b'\0', '4504CB0314FB2A4F7A692E696E487912FE3F2468FE312C73A5278EC5'),
        (224, b'\0' * 72, 'F5AA00DD1CB847E3140372AF7B5C46B4888D82C8C0A917913CFB5D04'),
        (512, b'\0', '97961587F6D970FABA6D2478045DE6D1FABD09B61AE50932054D52BC29D31BE4FF9102B9F69E2BBDB83BE13D4B9C06091E5FA0B48BD081B634058BE0EC49BEB3'),
        (512, b'\0' * 144, '313717D608E9CF758DCB1EB0F0C3CF9FC150B2D500FB33F51C52AFC99D358A2F1374B8A38BBA7974E7F6EF79CAB16F22CE1E649D6E01AD9589C213045D545DDE'),
        (384, b'\0', '10281F67E135E90AE8E882251A355510A719367AD70227B137343E1BC122015C29391E8545B5272D13A7C2879DA3D807'),
        (384, b'\0' * 144, '0B9845DD429566CDAB772BA195D271EFFE2D0211F16991D766BA749447C5CDE569780B2DAA66C4B224A2EC2E5D09174C')]


def selftest():
    for n, m, d in _KAT:
        assert blake(n, m).hex().upper() == d, 'blake_ref: known answer of BLAKE-%d fails' % n
    # the IVs are those of SHA-2: recompute the SHA-256 ones from their definition (fractional parts of square roots of primes)
    import math
    pr = [2, 3, 5, 7, 11, 13, 17, 19]
    assert IV[256] == [math.isqrt(p << 64) & 0xffffffff for p in pr]
    assert IV[512] == [math.isqrt(p << 128) & 0xffffffffffffffff for p in pr]

selftest()
