"""C02, Threefish part — Threefish-256/512/1024 encrypt/decrypt exactly as Skein 1.3 section 3.3 defines; keys, tweaks and
blocks of sizes the algorithm does not define are rejected.

run_impl executes the op line on the real crysp.threefish.  check_impl is the property's own predicate evaluated on the
implementation: an independent plain-integer reference of Threefish written from the specification text (no crysp code,
no Lean code), the published vectors of tests/test_threefish.py, the block length and the size-rejection rule."""
from props.common import *

PREFIX = ('threefish.',)
ID = 'C02'
LEAN_PROOFS = ['Proofs.C02_Threefish', 'Proofs.C02_ThreefishKat']
GEN_ITEMS = ['Threefish']
RULE = ('threefish: op lines = (enc|dec|ks|mix|mixinv, key, tweak, block) over the three sizes: zero / all-one / single-bit / random keys, '
        'tweaks and blocks, one-bit differences, every rotation constant (d mod 8, j) and every key-schedule round s, wrong sizes; '
        'distinct lines; non-trivial = the implementation returned a value')
TRUSTED = ['Spec.Threefish is a rendering of Skein 1.3 section 3.3 (tables typed from the text); no executable Threefish oracle exists offline: '
           'the Spec rests on the text and on the six published vectors of tests/test_threefish.py (replayed in the stream against Spec and reference) and on the published all-zero known answers of Threefish-256/512/1024, which hold for Spec.Threefish.enc/dec in the kernel and for the model through enc_refines/dec_refines (Proofs.C02_ThreefishKat)',
           'list indices of the Threefish model use getD with a zero word (all are in range by construction; an IndexError of the code would be ERR in the stream)']
ASSUMPTIONS = ['Threefish keys/tweaks/blocks are byte strings (the int/list/Bits constructor forms are not exercised)',
               'python -O (asserts stripped) is out of scope']

M64 = (1 << 64) - 1
# --- independent reference (Skein 1.3, section 3.3), plain ints -------------------------------------------------
_PI = {4: (0, 3, 2, 1), 8: (2, 1, 4, 7, 6, 5, 0, 3), 16: (0, 9, 2, 13, 6, 11, 4, 15, 10, 7, 12, 3, 14, 5, 8, 1)}
_R = {4: ((14, 16), (52, 57), (23, 40), (5, 37), (25, 33), (46, 12), (58, 22), (32, 32)),
      8: ((46, 36, 19, 37), (33, 27, 14, 42), (17, 49, 36, 39), (44, 9, 54, 56), (39, 30, 34, 24), (13, 50, 10, 17), (25, 29, 39, 43), (8, 35, 56, 22)),
      16: ((24, 13, 8, 47, 8, 17, 22, 37), (38, 19, 10, 55, 49, 18, 23, 52), (33, 4, 51, 13, 34, 41, 59, 17), (5, 20, 48, 41, 47, 28, 16, 25),
           (41, 9, 37, 31, 12, 47, 44, 30), (16, 34, 56, 51, 4, 53, 42, 41), (31, 44, 47, 46, 19, 42, 44, 25), (9, 48, 35, 52, 23, 31, 37, 20))}


def _words(b): return [int.from_bytes(b[i:i + 8], 'little') for i in range(0, len(b), 8)]
def _rotl(x, r): r %= 64; return ((x << r) | (x >> (64 - r))) & M64 if r else x


def ref_sizes_ok(k, t, b): return len(k) in (32, 64, 128) and len(t) == 16 and len(b) == len(k)


def ref_subkey(k, t, nw, s):
    kk = list(k); x = 0x1BD11BDAA9FC1A22
    for w in k: x ^= w
    kk.append(x)
    tt = [t[0], t[1], t[0] ^ t[1]]
    ks = [kk[(s + i) % (nw + 1)] for i in range(nw)]
    ks[nw - 3] = (ks[nw - 3] + tt[s % 3]) & M64
    ks[nw - 2] = (ks[nw - 2] + tt[(s + 1) % 3]) & M64
    ks[nw - 1] = (ks[nw - 1] + s) & M64
    return ks


def ref_enc(key, tweak, block):
    k, t, v = _words(key), _words(tweak), _words(block)
    nw = len(k); nr = 80 if nw == 16 else 72
    for d in range(nr):
        if d % 4 == 0:
            sk = ref_subkey(k, t, nw, d // 4)
            v = [(a + b) & M64 for a, b in zip(v, sk)]
        f = [0] * nw
        for j in range(nw // 2):
            y0 = (v[2 * j] + v[2 * j + 1]) & M64
            f[2 * j] = y0
            f[2 * j + 1] = _rotl(v[2 * j + 1], _R[nw][d % 8][j]) ^ y0
        v = [f[_PI[nw][i]] for i in range(nw)]
    sk = ref_subkey(k, t, nw, nr // 4)
    return b''.join(((a + b) & M64).to_bytes(8, 'little') for a, b in zip(v, sk))


KATS = [('0' * 64, '0' * 32, '0' * 64, "84da2a1f8beaee947066ae3e3103f1ad536db1f4a1192495116b9f3ce6133fd8"),
        ("101112131415161718191a1b1c1d1e1f202122232425262728292a2b2c2d2e2f", "000102030405060708090a0b0c0d0e0f",
         "fffefdfcfbfaf9f8f7f6f5f4f3f2f1f0efeeedecebeae9e8e7e6e5e4e3e2e1e0",
         "e0d091ff0eea8fdfc98192e62ed80ad59d865d08588df476657056b5955e97df"),
        ('0' * 128, '0' * 32, '0' * 128,
         "b1a2bbc6ef6025bc40eb3822161f36e375d1bb0aee3186fbd19e47c5d479947b"
         "7bc2f8586e35f0cff7e7f03084b0b7b1f1ab3961a580a3e97eb41ea14a6d7bbe"),
        ("101112131415161718191a1b1c1d1e1f202122232425262728292a2b2c2d2e2f"
         "303132333435363738393a3b3c3d3e3f404142434445464748494a4b4c4d4e4f", "000102030405060708090a0b0c0d0e0f",
         "fffefdfcfbfaf9f8f7f6f5f4f3f2f1f0efeeedecebeae9e8e7e6e5e4e3e2e1e0"
         "dfdedddcdbdad9d8d7d6d5d4d3d2d1d0cfcecdcccbcac9c8c7c6c5c4c3c2c1c0",
         "e304439626d45a2cb401cad8d636249a6338330eb06d45dd8b36b90e97254779"
         "272a0a8d99463504784420ea18c9a725af11dffea10162348927673d5c1caf3d"),
        ('0' * 256, '0' * 32, '0' * 256,
         "f05c3d0a3d05b304f785ddc7d1e036015c8aa76e2f217b06c6e1544c0bc1a90d"
         "f0accb9473c24e0fd54fea68057f43329cb454761d6df5cf7b2e9b3614fbd5a2"
         "0b2e4760b40603540d82eabc5482c171c832afbe68406bc39500367a592943fa"
         "9a5b4a43286ca3c4cf46104b443143d560a4b230488311df4feef7e1dfe8391e"),
        ("101112131415161718191a1b1c1d1e1f202122232425262728292a2b2c2d2e2f"
         "303132333435363738393a3b3c3d3e3f404142434445464748494a4b4c4d4e4f"
         "505152535455565758595a5b5c5d5e5f606162636465666768696a6b6c6d6e6f"
         "707172737475767778797a7b7c7d7e7f808182838485868788898a8b8c8d8e8f", "000102030405060708090a0b0c0d0e0f",
         "fffefdfcfbfaf9f8f7f6f5f4f3f2f1f0efeeedecebeae9e8e7e6e5e4e3e2e1e0"
         "dfdedddcdbdad9d8d7d6d5d4d3d2d1d0cfcecdcccbcac9c8c7c6c5c4c3c2c1c0"
         "bfbebdbcbbbab9b8b7b6b5b4b3b2b1b0afaeadacabaaa9a8a7a6a5a4a3a2a1a0"
         "9f9e9d9c9b9a999897969594939291908f8e8d8c8b8a89888786858483828180",
         "a6654ddbd73cc3b05dd777105aa849bce49372eaaffc5568d254771bab85531c"
         "94f780e7ffaae430d5d8af8c70eebbe1760f3b42b737a89cb363490d670314bd"
         "8aa41ee63c2e1f45fbd477922f8360b388d6125ea6c7af0ad7056d01796e90c8"
         "3313f4150a5716b30ed5f569288ae974ce2b4347926fce57de44512177dd7cde")]
KAT_ENC = {('x' + k, 'x' + t, 'x' + m): 'x' + c for k, t, m, c in KATS}
KAT_DEC = {('x' + k, 'x' + t, 'x' + c): 'x' + m for k, t, m, c in KATS}


# ---------------------------------------------------------------------------------------------------------------
def run_impl(line):
    from crysp.threefish import Threefish
    from crysp.bits import Bits
    t = line.split()
    op, a = t[0], t[1:]
    def sib():
        # other Threefish objects come and go between the calls of the line's object: one of each smaller size with its own
        # key and tweak (built and used), and a construction that is refused (tweak of the wrong size)
        for n in (32, 64):
            o = Threefish(bytes(range(1, n + 1)), bytes(range(16, 32)))
            o.dec(o.enc(bytes(n)))
        try: Threefish(bytes(32), b'\1' * 15)
        except Exception as e:
            if type(e).__name__ == '_Timeout': raise
    def go():
        if op in ('threefish.enc', 'threefish.dec'):
            from props.parts import one_object as OO   # the object has already been used for the opposite operation
            return hx(OO.used(Threefish(unhx(a[0]), unhx(a[1])), lambda: unhx(a[2]), op[10:], sibling=sib))
        if op == 'threefish.rt':
            k, tw, b = unhx(a[0]), unhx(a[1]), unhx(a[2])
            # ONE Threefish object per chain performs the whole sequence (both orders, repeated calls): props/parts/one_object.py
            from props.parts import one_object as OO
            r1 = guarded(lambda: OO.chain(Threefish(k, tw), lambda: b, 'enc', sibling=sib))
            r2 = guarded(lambda: OO.chain(Threefish(k, tw), lambda: b, 'dec', sibling=sib))
            return r1 + ';' + r2
        if op == 'threefish.ks':
            o = Threefish(unhx(a[0]), unhx(a[1]))
            ws = o._Threefish__ks(int(a[2]))
            assert all(w.size == 64 for w in ws)
            return il(w.ival for w in ws)
        if op in ('threefish.mix', 'threefish.mixinv'):
            nw = int(a[0])
            o = Threefish(b'\0' * (8 * nw), b'\0' * 16)
            f = o._Threefish__MIX if op == 'threefish.mix' else o._Threefish__MIXinv
            r = f(Bits(int(a[1]), 64), Bits(int(a[2]), 64), int(a[3]), int(a[4]))
            assert all(w.size == 64 for w in r)
            return il(w.ival for w in r)
        raise RuntimeError('unknown op ' + op)
    return guarded(go)


def check_impl(line, res):
    t = line.split()
    op, a = t[0], t[1:]
    if op in ('threefish.enc', 'threefish.dec'):
        k, tw, b = unhx(a[0]), unhx(a[1]), unhx(a[2])
        if not ref_sizes_ok(k, tw, b):
            return None if res == 'ERR' else 'key/tweak/block of undefined size processed, returned ' + res[:40]
        if res == 'ERR': return 'admissible key/tweak/block rejected'
        out = unhx(res)
        if len(out) != len(b): return 'result has %d bytes for a %d-byte block' % (len(out), len(b))
        kat = (KAT_ENC if op == 'threefish.enc' else KAT_DEC).get((a[0], a[1], a[2]))
        if kat is not None and kat != res: return 'published vector: expected ' + kat
        if op == 'threefish.enc':
            exp = ref_enc(k, tw, b)
            if out != exp: return 'reference Threefish gives ' + hx(exp)
        else:
            # the standard's plaintext for this ciphertext is the block that encrypts to it
            back = ref_enc(k, tw, out)
            if back != b: return 'reference Threefish encrypts the returned plaintext to ' + hx(back)
        return None
    if op == 'threefish.ks':
        k, tw, s = unhx(a[0]), unhx(a[1]), int(a[2])
        if not ref_sizes_ok(k, tw, k): return None if res == 'ERR' else 'undefined size processed'
        exp = il(ref_subkey(_words(k), _words(tw), len(k) // 8, s))
        return None if res == exp else 'reference subkey ' + exp
    if op == 'threefish.mix':
        nw, x0, x1, d, j = (int(x) for x in a)
        if nw not in _R: return None if res == 'ERR' else 'undefined size processed'
        y0 = (x0 + x1) & M64
        exp = il([y0, _rotl(x1, _R[nw][d % 8][j]) ^ y0])
        return None if res == exp else 'reference MIX ' + exp
    if op == 'threefish.mixinv':
        nw, y0, y1, d, j = (int(x) for x in a)
        if nw not in _R: return None if res == 'ERR' else 'undefined size processed'
        r = _R[nw][d % 8][j]
        x1 = _rotl(y0 ^ y1, 64 - r)
        exp = il([(y0 - x1) & M64, x1])
        return None if res == exp else 'reference MIX^-1 ' + exp
    return None


# ---------------------------------------------------------------------------------------------------------------
def _special_words(rng):
    return [0, M64, 1, 1 << 63, 0x1BD11BDAA9FC1A22, M64 - 1, rng.getrandbits(64)]


def _bs(ws): return b''.join(w.to_bytes(8, 'little') for w in ws)


def block_cases(tier, rng, ops=('threefish.enc', 'threefish.dec')):
    """(key, tweak, block) triples, boundary-directed first"""
    out = []
    nrand = 6 if tier == 'quick' else 1500
    for n in (32, 64, 128):
        nw = n // 8
        z, o = b'\0' * n, b'\xff' * n
        tz, to = b'\0' * 16, b'\xff' * 16
        for k in (z, o):
            for tw in (tz, to):
                for b in (z, o): out.append((k, tw, b, 'const'))
        # key whose words xor to C240 (parity word 0), keys with one zero / all-one word
        c = [0] * nw; c[0] = 0x1BD11BDAA9FC1A22
        out.append((_bs(c), tz, z, 'parity0'))
        for i in sorted({0, 1, nw - 3, nw - 2, nw - 1}):
            w = [rng.getrandbits(64) for _ in range(nw)]; w[i] = 0
            out.append((_bs(w), os_(rng, 16), os_(rng, n), 'zero-word'))
            w = [rng.getrandbits(64) for _ in range(nw)]; w[i] = M64
            out.append((_bs(w), os_(rng, 16), os_(rng, n), 'ones-word'))
        # single-bit keys / tweaks / blocks, and one-bit differences from a random base
        bits_k = sorted({0, 7, 8, 63, 64, 8 * n - 1} | {rng.randrange(8 * n) for _ in range(2 if tier == 'quick' else 8 * n)})
        bk, bt_, bb = os_(rng, n), os_(rng, 16), os_(rng, n)
        for i in bits_k:
            out.append((onebit(n, i), tz, z, 'single-bit'))
            out.append((z, tz, onebit(n, i), 'single-bit'))
            out.append((flip(bk, i), bt_, bb, 'bit-diff'))
            out.append((bk, bt_, flip(bb, i), 'bit-diff'))
        for i in sorted({0, 63, 64, 127} | {rng.randrange(128) for _ in range(2 if tier == 'quick' else 8)}):
            out.append((z, onebit(16, i), z, 'single-bit'))
            out.append((bk, flip(bt_, i), bb, 'bit-diff'))
        out.append((bk, bt_, bb, 'random'))
        for _ in range(nrand): out.append((os_(rng, n), os_(rng, 16), os_(rng, n), 'random'))
    for k, tw, b, tag in out:
        for op in ops: yield '%s %s %s %s' % (op, hx(k), hx(tw), hx(b)), op + ':' + tag


def os_(rng, n): return bytes(rng.getrandbits(8) for _ in range(n))
def onebit(n, i): return (1 << i).to_bytes(n, 'little')
def flip(b, i): return (int.from_bytes(b, 'little') ^ (1 << i)).to_bytes(len(b), 'little')


def wrong_sizes(rng, ops=('threefish.enc', 'threefish.dec')):
    for kl, tl, bl in [(0, 16, 0), (31, 16, 31), (33, 16, 33), (16, 16, 16), (24, 16, 24), (48, 16, 48), (96, 16, 96), (127, 16, 127), (129, 16, 129),
                       (256, 16, 256), (32, 0, 32), (32, 15, 32), (32, 17, 32), (32, 8, 32), (32, 32, 32), (64, 24, 64), (128, 15, 128),
                       (32, 16, 0), (32, 16, 31), (32, 16, 33), (32, 16, 64), (64, 16, 32), (64, 16, 63), (64, 16, 65), (64, 16, 128),
                       (128, 16, 64), (128, 16, 127), (128, 16, 129), (128, 16, 256), (32, 16, 16)]:
        for op in ops:
            yield '%s %s %s %s' % (op, hx(os_(rng, kl)), hx(os_(rng, tl)), hx(os_(rng, bl))), op + ':wrong-size'


def cases(tier, rng):
    if tier == 'search':
        while True:
            n = rng.choice((32, 64, 128))
            k, tw, b = os_(rng, n), os_(rng, 16), os_(rng, n)
            for op in ('threefish.enc', 'threefish.dec'):
                yield '%s %s %s %s' % (op, hx(k), hx(tw), hx(b)), op + ':search'
            yield 'threefish.ks %s %s %d' % (hx(k), hx(tw), rng.randrange(0, 21)), 'threefish.ks'
            nw = n // 8
            yield 'threefish.mix %d %d %d %d %d' % (nw, rng.getrandbits(64), rng.getrandbits(64), rng.randrange(80), rng.randrange(nw // 2)), 'threefish.mix'
            yield 'threefish.mixinv %d %d %d %d %d' % (nw, rng.getrandbits(64), rng.getrandbits(64), rng.randrange(80), rng.randrange(nw // 2)), 'threefish.mixinv'
        return
    # published vectors first
    for k, tw, m, c in KATS:
        yield 'threefish.enc x%s x%s x%s' % (k, tw, m), 'threefish.enc:kat'
        yield 'threefish.dec x%s x%s x%s' % (k, tw, c), 'threefish.dec:kat'
    yield from block_cases(tier, rng)
    yield from wrong_sizes(rng)
    # every key-schedule round of every size (s = 0..Nr/4 and two beyond), boundary keys
    for n in (32, 64, 128):
        nr = 80 if n == 128 else 72
        keys = [b'\0' * n, b'\xff' * n, os_(rng, n)]
        for k in keys:
            tw = os_(rng, 16) if k[0] not in (0, 255) or k == keys[2] else (b'\0' * 16 if k[0] == 0 else b'\xff' * 16)
            for s in range(nr // 4 + 3):
                yield 'threefish.ks %s %s %d' % (hx(k), hx(tw), s), 'threefish.ks'
    yield 'threefish.ks %s %s 3' % (hx(os_(rng, 40)), hx(os_(rng, 16))), 'threefish.ks:wrong-size'
    # every rotation constant: (d mod 8, j) for the three sizes, boundary and random words; d beyond 8 to see the `% 8`
    for nw in (4, 8, 16):
        for d in list(range(8)) + [8, 13, 71, 79]:
            for j in range(nw // 2):
                ws = [(0, 0), (M64, M64), (1, 1 << 63), (M64, 1), (rng.getrandbits(64), rng.getrandbits(64))]
                if tier != 'quick': ws += [(rng.getrandbits(64), rng.getrandbits(64)) for _ in range(20)]
                for x0, x1 in ws:
                    yield 'threefish.mix %d %d %d %d %d' % (nw, x0, x1, d, j), 'threefish.mix'
                    yield 'threefish.mixinv %d %d %d %d %d' % (nw, x0, x1, d, j), 'threefish.mixinv'
    yield 'threefish.mix 5 1 2 0 0', 'threefish.mix:wrong-size'


def shrink(line):
    t = line.split()
    for i, tok in enumerate(t[1:], 1):
        if tok[0] == 'x' and len(tok) > 1:
            z = 'x' + '00' * ((len(tok) - 1) // 2)
            if z != tok: yield ' '.join(t[:i] + [z] + t[i + 1:])
