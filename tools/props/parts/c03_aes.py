"""C03, AES part — AES is a permutation for every key: dec(enc(B)) == B == enc(dec(B)), |enc(B)| == |B|, and the exposed
component pairs Sbox/Sbox_inv, SubBytes/InvSubBytes, ShiftRows/InvShiftRows, MixColumns/InvMixColumns are mutual
inverses on their entire domain.

run_impl executes the chains on the real crysp.aes, ONE AES object per line for the whole chain (a cipher object is a
function of (key, block): nothing a call leaves in the object may show in a later call); check_impl is the round-trip
predicate itself and the repetition law, evaluated on the implementation's outputs."""
from props.common import *
from props.parts import aes_common as C
from props.parts.aes_common import run_impl, shrink

PREFIX = ('aes.',)
LEAN_PROOFS = ['Proofs.C03_Aes']
GEN_ITEMS = ['Aes']
RULE = ('AES: op lines = round-trip chains performed by ONE cipher object per line — aes.rt: enc;dec(enc);dec;enc(dec);enc again, aes.rtd: the '
        'same started with dec (dec;enc(dec);enc;dec(enc);dec again), so that enc and dec are each the first call of a new object, each '
        'follow the other, and are repeated — on (key, block) — FIPS vectors, all-zero/all-one/identity, single-bit '
        'keys and blocks, keys with zero/all-one words, seeded random per key size, wrong sizes — and f;finv(f);finv;f(finv) for the '
        'exposed component pairs on structured, byte-sweep (all 256 values) and random states; distinct lines; non-trivial = a value was returned')
TRUSTED = ['Model.Aes represents byte-ring Poly objects by their coefficient lists (validated by the correspondence stream)']
ASSUMPTIONS = ['AES keys, blocks and states are passed as bytes objects', 'python -O (asserts stripped) is out of scope']


def check_impl(line, res):
    t = line.split(); op, a = t[0], t[1:]
    bad = lambda why: '%s: %s' % (op, why)
    if op in ('aes.rt', 'aes.rtd'):
        k, b = unhx(a[0]), unhx(a[1])
        parts = res.split(';')
        if len(parts) != 5: return bad('malformed result')
        e, de, d, ed, again = parts
        if len(k) not in C.KEYLENS or len(b) != 16:
            return None if (e == 'ERR' and d == 'ERR') else bad('a %d-byte key with a %d-byte block must be rejected' % (len(k), len(b)))
        if 'ERR' in parts: return bad('unexpected exception')
        if len(unhx(e)) != len(b) or len(unhx(d)) != len(b): return bad('result does not have the block length')
        if de != hx(b): return bad('dec(enc(B)) = %s on one object' % de)
        if ed != hx(b): return bad('enc(dec(B)) = %s on one object' % ed)
        # a function of (key, block): the same call later on the same object gives the same value
        if op == 'aes.rt' and again != e: return bad('enc(B) = %s at first, %s after dec() calls on the same object' % (e, again))
        if op == 'aes.rtd' and again != d: return bad('dec(B) = %s at first, %s after enc() calls on the same object' % (d, again))
        return None
    if op == 'aes.rtc':
        s = unhx(a[1])
        parts = res.split(';')
        if len(parts) != 4: return bad('malformed result')
        fs, gfs, gs, fgs = parts
        if len(s) == 16 or a[0] in ('sbox', 'subbytes'):
            if 'ERR' in parts: return bad('unexpected exception')
            if len(unhx(fs)) != len(s) or len(unhx(gs)) != len(s): return bad('length changed')
            if gfs != hx(s): return bad('finv(f(x)) = %s' % gfs)
            if fgs != hx(s): return bad('f(finv(x)) = %s' % fgs)
        return None
    return None


def cases(tier, rng):
    if tier == 'search':
        while True:
            n = rng.choice(C.KEYLENS)
            yield '%s %s %s' % (rng.choice(('aes.rt', 'aes.rtd')), hx(C.rb(rng, n)), hx(C.rb(rng, 16))), 'search'
            yield 'aes.rtc %s %s' % (rng.choice(sorted(C.PAIRS)), hx(C.rb(rng, 16))), 'search'
        return
    for k, b, tag in C.cipher_cases(('rt',), tier, rng):
        yield 'aes.rt %s %s' % (hx(k), hx(b)), 'aes.rt/' + tag
        # the same chain started with dec() on a new object; quick tier: not on the single-bit sweeps
        if tier != 'quick' or not tag.startswith('single-bit'):
            yield 'aes.rtd %s %s' % (hx(k), hx(b)), 'aes.rtd/' + tag
    for k, b, tag in C.size_cases(rng):
        yield 'aes.rt %s %s' % (hx(k), hx(b)), 'aes.rt/' + tag
        yield 'aes.rtd %s %s' % (hx(k), hx(b)), 'aes.rtd/' + tag
    for s, tag in C.states(tier, rng):
        for p in sorted(C.PAIRS): yield 'aes.rtc %s %s' % (p, hx(s)), 'aes.rtc/' + tag
    allb = bytes(range(256))
    for p in ('sbox', 'subbytes'): yield 'aes.rtc %s %s' % (p, hx(allb)), 'aes.rtc/all-256-bytes'
    for n in (0, 1, 15, 17, 32):
        s = C.rb(rng, n)
        for p in sorted(C.PAIRS): yield 'aes.rtc %s %s' % (p, hx(s)), 'aes.rtc/malformed-length'
