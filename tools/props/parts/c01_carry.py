"""C01 generator part: messages that put the CARRY-OUT of the word additions of the compression rounds on its boundary.

A digest goes wrong for a reduction that is off at one value only (`s-m if s>m`, a dropped mask, a `%` with the wrong
modulus …) only when some addition `x+y` inside a round has the raw sum exactly 2^w (or 2^w±1): 2^-w per addition for
seeded messages.  Here the messages are CONSTRUCTED: the first r words are seeded, the state after r rounds is computed
with the plain-integer round functions below (written from RFC 1320 / RFC 1321 / FIPS 180-4; IVs and round constants by
their generating rule, nothing read from the library), and word r (or r-1) is solved so that one named partial sum of
round r - the library evaluates `a+f+W+K`, `rol(a,5)+f+e+K+W`, `h+S1(e)+Ch+K+W`, `d+T1`, `T1+T2`, the SHA-2 schedule
`s1(W[t-2])+W[t-7]+s0(W[t-15])+W[t-16]` left to right, so every prefix of these is a sum of its own - is exactly
S = 2^w, 2^w-1, 2^w+1.  Every candidate is re-traced (`trace`) and kept only when the named raw sum IS S.
The lines are ordinary `hash <alg> <msg> None` lines: reference = hashlib / the small MD4 and SHA-0 references."""
import math, struct

# --------------------------------------------------------------------------------------------------------------------
def _ror(x, n, w): n %= w; return ((x >> n) | (x << (w - n))) & ((1 << w) - 1)
def _rol(x, n, w): return _ror(x, (w - n) % w, w)
def _ch(x, y, z, m): return ((x & y) | (~x & z)) & m
def _maj(x, y, z): return (x & y) | (x & z) | (y & z)

def _primes(n):
    ps, k = [], 2
    while len(ps) < n:
        if all(k % p for p in ps): ps.append(k)
        k += 1
    return ps

def _iroot(n, k):
    if k == 2: return math.isqrt(n)
    lo, hi = 0, 1 << (n.bit_length() // k + 1)
    while lo < hi:
        mid = (lo + hi + 1) // 2
        if mid ** k <= n: lo = mid
        else: hi = mid - 1
    return lo

def _frac(p, k, w): return _iroot(p << (k * w), k) & ((1 << w) - 1)     # first w bits of the fractional part of p^(1/k)

_P = _primes(80)
K256 = [_frac(p, 3, 32) for p in _P[:64]]
K512 = [_frac(p, 3, 64) for p in _P]
IV = {
    'md': [0x67452301, 0xefcdab89, 0x98badcfe, 0x10325476],
    'sha1': [0x67452301, 0xefcdab89, 0x98badcfe, 0x10325476, 0xc3d2e1f0],
    'sha256': [_frac(p, 2, 32) for p in _P[:8]],
    'sha512': [_frac(p, 2, 64) for p in _P[:8]],
    'sha384': [_frac(p, 2, 64) for p in _P[8:16]],
}
IV['sha224'] = [x & 0xffffffff for x in IV['sha384']]
K_MD5 = [int(abs(math.sin(i + 1)) * 2 ** 32) & 0xffffffff for i in range(64)]
K_SHA1 = math.isqrt(2 << 60)                                                # floor(2^30*sqrt 2)
S_MD4, S_MD5 = (3, 7, 11, 19), (7, 12, 17, 22)
SIG = {32: ((2, 13, 22), (6, 11, 25), (7, 18, 3), (17, 19, 10)), 64: ((28, 34, 39), (14, 18, 41), (1, 8, 7), (19, 61, 6))}

def _S0(x, w): a, b, c = SIG[w][0]; return _ror(x, a, w) ^ _ror(x, b, w) ^ _ror(x, c, w)
def _S1(x, w): a, b, c = SIG[w][1]; return _ror(x, a, w) ^ _ror(x, b, w) ^ _ror(x, c, w)
def _s0(x, w): a, b, c = SIG[w][2]; return _ror(x, a, w) ^ _ror(x, b, w) ^ (x >> c)
def _s1(x, w): a, b, c = SIG[w][3]; return _ror(x, a, w) ^ _ror(x, b, w) ^ (x >> c)

def _S1inv(y, w):
    """Sigma_1 is multiplication by a 3-term polynomial u in GF(2)[x]/(x^w+1), w a power of two: u^w = 1, u^-1 = u^(w-1)"""
    for _ in range(w - 1): y = _S1(y, w)
    return y


def _sha2_full(iv, data, w):
    """plain FIPS 180-4 SHA-2 (only used for the SHA-512/t IV generation function and the self-test)"""
    B = w * 2; m = (1 << w) - 1; K = K256 if w == 32 else K512
    msg = data + b'\x80' + b'\0' * ((B - w // 4 - 1 - len(data)) % B) + (8 * len(data)).to_bytes(w // 4, 'big')
    H = list(iv)
    for off in range(0, len(msg), B):
        W = [int.from_bytes(msg[off + i * w // 8: off + (i + 1) * w // 8], 'big') for i in range(16)]
        for t in range(16, len(K)): W.append((_s1(W[t - 2], w) + W[t - 7] + _s0(W[t - 15], w) + W[t - 16]) & m)
        a, b, c, d, e, f, g, h = H
        for t in range(len(K)):
            T1 = (h + _S1(e, w) + _ch(e, f, g, m) + K[t] + W[t]) & m
            T2 = (_S0(a, w) + _maj(a, b, c)) & m
            a, b, c, d, e, f, g, h = (T1 + T2) & m, a, b, c, (d + T1) & m, e, f, g
        H = [(x + y) & m for x, y in zip(H, (a, b, c, d, e, f, g, h))]
    return b''.join(x.to_bytes(w // 8, 'big') for x in H)

def _iv512t(t):
    d = _sha2_full([x ^ 0xa5a5a5a5a5a5a5a5 for x in IV['sha512']], b'SHA-512/%d' % t, 64)
    return [int.from_bytes(d[8 * i:8 * i + 8], 'big') for i in range(8)]

IV['sha512_224'], IV['sha512_256'] = _iv512t(224), _iv512t(256)


def family(alg):
    """(kind, word bits, big-endian words, IV)"""
    if alg in ('md4', 'md5'): return alg, 32, False, IV['md']
    if alg in ('sha0', 'sha1'): return 'sha1', 32, True, IV['sha1']
    return 'sha2', (32 if alg in ('sha224', 'sha256') else 64), True, IV[alg]


# --------------------------------------------------------------------------------------------------------------------
def trace(alg, words, nrounds=16, sched=0):
    """raw (unreduced) value of every word addition of rounds 0..nrounds-1 on the block `words` (>= nrounds words; all 16 when
    sched > 0), in the order the library's expressions evaluate them: {(round, label): raw sum}; for SHA-2 also the
    schedule sums of W[16..16+sched-1] as (t, 'wA'|'wB'|'wC')"""
    kind, w, _, iv = family(alg); m = (1 << w) - 1
    out = {}
    if kind in ('md4', 'md5'):
        a, b, c, d = iv
        for i in range(nrounds):
            K = 0 if kind == 'md4' else K_MD5[i]
            s = (S_MD4 if kind == 'md4' else S_MD5)[i % 4]
            r1 = a + _ch(b, c, d, m); out[i, 'a+f'] = r1
            r2 = (r1 & m) + words[i]; out[i, '+W'] = r2
            r3 = (r2 & m) + K; out[i, '+K'] = r3
            T = _rol(r3 & m, s, w)
            if kind == 'md5':
                r4 = b + T; out[i, 'b+rol'] = r4; T = r4 & m
            a, b, c, d = d, T, b, c
    elif kind == 'sha1':
        a, b, c, d, e = iv
        for i in range(nrounds):
            r1 = _rol(a, 5, w) + _ch(b, c, d, m); out[i, 'rol+f'] = r1
            r2 = (r1 & m) + e; out[i, '+e'] = r2
            r3 = (r2 & m) + K_SHA1; out[i, '+K'] = r3
            r4 = (r3 & m) + words[i]; out[i, '+W'] = r4
            a, b, c, d, e = r4 & m, a, _rol(b, 30, w), c, d
    else:
        K = K256 if w == 32 else K512
        W = list(words)
        for t in range(16, 16 + sched):
            rA = _s1(W[t - 2], w) + W[t - 7]; out[t, 'wA'] = rA
            rB = (rA & m) + _s0(W[t - 15], w); out[t, 'wB'] = rB
            rC = (rB & m) + W[t - 16]; out[t, 'wC'] = rC
            W.append(rC & m)
        a, b, c, d, e, f, g, h = iv
        for i in range(nrounds):
            r1 = h + _S1(e, w); out[i, 'h+S1'] = r1
            r2 = (r1 & m) + _ch(e, f, g, m); out[i, '+Ch'] = r2
            r3 = (r2 & m) + K[i]; out[i, '+K'] = r3
            r4 = (r3 & m) + W[i]; out[i, '+W'] = r4
            T1 = r4 & m
            r5 = _S0(a, w) + _maj(a, b, c); out[i, 'T2'] = r5
            r6 = d + T1; out[i, 'd+T1'] = r6
            r7 = T1 + (r5 & m); out[i, 'T1+T2'] = r7
            a, b, c, d, e, f, g, h = r7 & m, a, b, c, r6 & m, e, f, g
    return out


def _state(alg, words):
    """chaining registers after len(words) rounds (plain integers)"""
    kind, w, _, iv = family(alg); m = (1 << w) - 1
    st = tuple(iv)
    for i, W in enumerate(words):
        if kind in ('md4', 'md5'):
            a, b, c, d = st
            x = (a + _ch(b, c, d, m) + W + (0 if kind == 'md4' else K_MD5[i])) & m
            T = _rol(x, (S_MD4 if kind == 'md4' else S_MD5)[i % 4], w)
            if kind == 'md5': T = (b + T) & m
            st = (d, T, b, c)
        elif kind == 'sha1':
            a, b, c, d, e = st
            st = ((_rol(a, 5, w) + _ch(b, c, d, m) + e + K_SHA1 + W) & m, a, _rol(b, 30, w), c, d)
        else:
            a, b, c, d, e, f, g, h = st
            T1 = (h + _S1(e, w) + _ch(e, f, g, m) + (K256 if w == 32 else K512)[i] + W) & m
            T2 = (_S0(a, w) + _maj(a, b, c)) & m
            st = ((T1 + T2) & m, a, b, c, (d + T1) & m, e, f, g)
    return st


def solvers(alg, words, r):
    """[(label of a sum of round r, index of the word that steers it, solve)] with solve(S) -> value of that word making the
    raw sum S, or None; `words` = the r words before (the steering word is words[r] or words[r-1], replaced)"""
    kind, w, _, iv = family(alg); m = (1 << w) - 1
    inr = lambda x: x if 0 <= x <= m else None
    sub = lambda S, y: None if inr(S - y) is None else S - y        # the other operand of a raw sum S
    out = []
    st = _state(alg, words[:r])
    if kind in ('md4', 'md5'):
        a, b, c, d = st
        K = 0 if kind == 'md4' else K_MD5[r]
        s = (S_MD4 if kind == 'md4' else S_MD5)[r % 4]
        x1 = (a + _ch(b, c, d, m)) & m
        out.append(('+W', r, lambda S: sub(S, x1)))
        out.append(('+K', r, lambda S: None if sub(S, K) is None else (sub(S, K) - x1) & m))
        if kind == 'md5':
            out.append(('b+rol', r, lambda S: None if sub(S, b) is None else (_ror(sub(S, b), s, w) - K - x1) & m))
    elif kind == 'sha1':
        a, b, c, d, e = st
        x = (_rol(a, 5, w) + _ch(b, c, d, m) + e + K_SHA1) & m
        out.append(('+W', r, lambda S: sub(S, x)))
        if r >= 1:
            # the three sums before +W depend on a = T of round r-1 = x' + W[r-1]
            a0, b0, c0, d0, e0 = _state(alg, words[:r - 1])
            x0 = (_rol(a0, 5, w) + _ch(b0, c0, d0, m) + e0 + K_SHA1) & m
            f1, e1 = _ch(a0, _rol(b0, 30, w), c0, m), d0          # f(b,c,d) and e of round r
            back = lambda rolled: (_ror(rolled & m, 5, w) - x0) & m
            out.append(('rol+f', r - 1, lambda S: None if sub(S, f1) is None else back(sub(S, f1))))
            out.append(('+e', r - 1, lambda S: None if sub(S, e1) is None else back(sub(S, e1) - f1)))
            out.append(('+K', r - 1, lambda S: None if sub(S, K_SHA1) is None else back(sub(S, K_SHA1) - e1 - f1)))
    else:
        K = (K256 if w == 32 else K512)
        a, b, c, d, e, f, g, h = st
        x = (h + _S1(e, w) + _ch(e, f, g, m) + K[r]) & m
        T2 = (_S0(a, w) + _maj(a, b, c)) & m
        out.append(('+W', r, lambda S: sub(S, x)))
        out.append(('d+T1', r, lambda S: None if sub(S, d) is None else (sub(S, d) - x) & m))
        out.append(('T1+T2', r, lambda S: None if sub(S, T2) is None else (sub(S, T2) - x) & m))
        if r >= 1:
            # h + Sigma_1(e) of round r: e = d' + T1 of round r-1, h = g'
            a0, b0, c0, d0, e0, f0, g0, h0 = _state(alg, words[:r - 1])
            x0 = (h0 + _S1(e0, w) + _ch(e0, f0, g0, m) + K[r - 1]) & m
            out.append(('h+S1', r - 1, lambda S: None if sub(S, g0) is None else (_S1inv(sub(S, g0), w) - d0 - x0) & m))
    return out


def sched_solvers(alg, W, t):
    """SHA-2 message schedule, word t >= 16 of a full first block W (16 words): (label, index, solve)"""
    kind, w, _, iv = family(alg); m = (1 << w) - 1
    if kind != 'sha2': return []
    ext = list(W)
    for u in range(16, t): ext.append((_s1(ext[u - 2], w) + ext[u - 7] + _s0(ext[u - 15], w) + ext[u - 16]) & m)
    inr = lambda x: 0 <= x <= m
    out = []
    if t - 7 < 16:
        y = _s1(ext[t - 2], w); z = _s0(ext[t - 15], w)
        out.append(('wA', t - 7, lambda S: S - y if inr(S - y) else None))
        out.append(('wB', t - 7, lambda S: (S - z - y) & m if inr(S - z) else None))
    xB = (_s1(ext[t - 2], w) + ext[t - 7] + _s0(ext[t - 15], w)) & m
    out.append(('wC', t - 16, lambda S: S - xB if inr(S - xB) else None))
    return out


def pack_words(alg, words):
    kind, w, big, _ = family(alg)
    return b''.join(x.to_bytes(w // 8, 'big' if big else 'little') for x in words)


def carry_messages(alg, rng, rounds, sched, tails=True):
    """(message, tag) … : see the module docstring.  rounds: how many rounds are targeted (<= 16); sched: how many schedule
    words of SHA-2 (t = 16 …)"""
    kind, w, _, iv = family(alg); m = (1 << w) - 1
    rw = lambda: rng.getrandbits(w)
    for r in range(rounds):
        words = [rw() for _ in range(r + 1)]
        for label, idx, solve in solvers(alg, words, r):
            for delta in (0, -1, 1):
                S = (1 << w) + delta
                v = solve(S)
                if v is None: continue
                ws = list(words); ws[idx] = v
                if trace(alg, ws, r + 1).get((r, label)) != S: continue
                tag = 'carry:round %s, sum = 2^w%s' % ('0' if r == 0 else '1-3' if r < 4 else '4-15', '' if not delta else '%+d' % delta)
                yield pack_words(alg, ws), tag
                if tails and delta == 0:
                    yield pack_words(alg, ws) + bytes(rng.getrandbits(8) for _ in range(rng.randrange(1, 4 * w))), tag
    for t in range(16, 16 + sched):
        W = [rw() for _ in range(16)]
        for label, idx, solve in sched_solvers(alg, W, t):
            for delta in (0, -1, 1):
                S = (1 << w) + delta
                v = solve(S)
                if v is None: continue
                ws = list(W); ws[idx] = v
                if trace(alg, ws, 0, t - 15).get((t, label)) != S: continue
                tag = 'carry:SHA-2 schedule, sum = 2^w%s' % ('' if not delta else '%+d' % delta)
                yield pack_words(alg, ws), tag
                if tails and delta == 0:
                    yield pack_words(alg, ws) + bytes(rng.getrandbits(8) for _ in range(rng.randrange(1, 4 * w))), tag


def selftest():
    """the plain round functions above are the standards': full SHA-2 against hashlib for all six variants (the IVs of
    SHA-512/t come out of the generation function), MD5's and SHA-1's constants against their first-round use in the
    one-block digest is covered by the stream itself (a crafted message that misses its target is dropped by `trace`)"""
    import hashlib
    for alg, w in (('sha224', 32), ('sha256', 32), ('sha384', 64), ('sha512', 64), ('sha512_224', 64), ('sha512_256', 64)):
        for data in (b'', b'abc' * 50):
            n = len(hashlib.new(alg, b'').digest())
            assert _sha2_full(IV[alg], data, w)[:n] == hashlib.new(alg, data).digest(), alg
    for y in (1, 0x80000001, 0x12345678): assert _S1(_S1inv(y, 32), 32) == y and _S1(_S1inv(y << 31, 64), 64) == y << 31
    return True
