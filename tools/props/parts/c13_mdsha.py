"""C13 part — HMAC over the MD4/MD5/SHA-0/SHA-1/SHA-2 objects (and over a toy hash object, to exercise crysp/hmac.py
for block/digest sizes no real hash of the library has).  check_impl recomputes RFC 2104 independently (Python's hmac
module where hashlib has the hash, the formula over a reference digest otherwise)."""
import hmac as pyhmac
from props.common import *
from props import hashcommon as HC

PREFIX = ('hmac',)
LEAN_PROOFS = ['Proofs.C13']
GEN_ITEMS = ['Hashes']
TRUSTED = ['lean/Spec/Hmac.lean as a rendering of RFC 2104 / FIPS 198-1 (validated in this stream against Python\'s hmac module: supporting evidence only)']
ASSUMPTIONS = ['HMAC over a hash whose digest is longer than its block (toy lines only; no hash of the library) is compared code<->model only']

run_impl = HC.run_impl


def rfc2104(H, B, k, m):
    if len(k) > B: k = H(k)
    k = k + b'\0' * (B - len(k))
    return H(bytes(x ^ 0x5c for x in k) + H(bytes(x ^ 0x36 for x in k) + m))


def ref_hmac(alg, k, m):
    n = HC.ALGS[alg][3]
    if n is not None: return pyhmac.new(k, m, n).digest()
    return rfc2104(lambda x: HC.reference_digest(alg, x), HC.blocklen(alg), k, m)


def check_impl(line, res):
    t = line.split(); op, a = t[0], t[1:]
    bad = lambda why: '%s %s: %s' % (op, a[0], why)
    if op == 'hmac':
        exp = hx(ref_hmac(a[0], unhx(a[1]), unhx(a[2])))
        return None if res == exp else bad('|K|=%d: differs from RFC 2104 (%s)' % (len(unhx(a[1])), exp))
    if op == 'hmacseq':
        m = unhx(a[1])
        exp = ';'.join(hx(ref_hmac(a[0], unhx(k), m)) for k in a[2:])
        return None if res == exp else bad('after setkey the result is not HMAC(h,last key)')
    if op == 'hmacgen':
        B, D = int(a[0]), int(a[1])
        if B % 8 or B == 0 or D > B // 8: return None
        exp = hx(rfc2104(HC.Toy(B, D), B // 8, unhx(a[2]), unhx(a[3])))
        return None if res == exp else bad('toy hash: differs from RFC 2104')
    return None


def rnd(rng, n): return bytes(rng.getrandbits(8) for _ in range(n))


def key_lengths(B, D):
    s = {0, 1, 2, D - 1, D, D + 1, B - 2, B - 1, B, B + 1, B + 2, 2 * B - 1, 2 * B, 2 * B + 1, 3 * B - 1, 3 * B}
    return sorted(x for x in s if x >= 0)


def cases(tier, rng):
    if tier == 'search':
        while True:
            alg = rng.choice(HC.NAMES); B = HC.blocklen(alg)
            yield 'hmac %s %s %s' % (alg, hx(rnd(rng, rng.choice([rng.randrange(0, 3 * B + 1), B + rng.randrange(-2, 3)]))), hx(rnd(rng, rng.randrange(0, 3 * B)))), 'search'
        return
    thorough = tier == 'thorough'
    for alg in HC.NAMES:
        B, D = HC.blocklen(alg), HC.outlen(alg)
        for kl in key_lengths(B, D):
            for ml in ((0, 1, B - 1, B, 2 * B + 3) if thorough or kl in (0, B - 1, B, B + 1) else (0, 3)):
                yield 'hmac %s %s %s' % (alg, hx(rnd(rng, kl)), hx(rnd(rng, ml))), 'hmac:|K| boundary'
        for kl in (range(0, 3 * B + 1) if thorough else [rng.randrange(0, 3 * B + 1) for _ in range(8)]):
            yield 'hmac %s %s %s' % (alg, hx(rnd(rng, kl)), hx(rnd(rng, rng.randrange(0, 2 * B)))), 'hmac:|K| seeded'
        # key that is all zero / shorter key equal to the padded one (K and K||0 give the same MAC by definition)
        yield 'hmac %s %s %s' % (alg, hx(bytes(B)), hx(b'abc')), 'hmac:zero key'
        yield 'hmac %s %s %s' % (alg, hx(b''), hx(b'abc')), 'hmac:zero key'
        # setkey sequences on one object
        seqs = [(B + 1, 1), (1, B + 1), (B, B + 1, B - 1), (3 * B, 0), (0, 3 * B), (D, B + D), (B + 5, B + 6)]
        for sq in seqs:
            yield 'hmacseq %s %s %s' % (alg, hx(rnd(rng, 5)), ' '.join(hx(rnd(rng, n)) for n in sq)), 'hmacseq:setkey replaces'
    # the HMAC class itself over a toy hash: block sizes 8..1024 bits, digest sizes up to (and beyond) the block
    for Bb in (8, 16, 64, 512, 1024):
        Bl = Bb // 8
        for D in sorted({1, max(Bl - 1, 1), Bl, Bl + 1, 2 * Bl}):
            for kl in sorted({0, 1, Bl - 1, Bl, Bl + 1, 2 * Bl, 3 * Bl}):
                if kl < 0: continue
                yield 'hmacgen %d %d %s %s' % (Bb, D, hx(rnd(rng, kl)), hx(rnd(rng, rng.randrange(0, 20)))), 'hmacgen:toy hash'


def shrink(line):
    t = line.split()
    if t[0] == 'hmac':
        k, m = unhx(t[2]), unhx(t[3])
        if m: yield 'hmac %s %s %s' % (t[1], t[2], hx(m[:len(m) // 2]))
        if any(k): yield 'hmac %s %s %s' % (t[1], hx(bytes(len(k))), t[3])
        if any(m): yield 'hmac %s %s %s' % (t[1], t[2], hx(bytes(len(m))))
