"""C13 part — HMAC over the MD4/MD5/SHA-0/SHA-1/SHA-2 objects (and over a toy hash object, to exercise crysp/hmac.py
for block/digest sizes no real hash of the library has).  check_impl recomputes RFC 2104 independently (Python's hmac
module where hashlib has the hash, the formula over a reference digest otherwise).

  hmach <alg> | <step> | …     ONE hash object with a HISTORY handed to HMAC: the steps of C01's `hashcalls` lines (preset <n> |
                               init | upd <hex> [L] | fin <hex> [L] | call <hex> <bitlen|None>) and `mac <key> <msg>`
                               (o = HMAC(h,key); o(msg)), `again <msg>` (o(msg) once more, after whatever was done to h since);
                               the line prints the outcome of every call / mac / again step"""
import hmac as pyhmac
from props.common import *
from props import hashcommon as HC

PREFIX = ('hmac',)
LEAN_PROOFS = ['Proofs.C13']
GEN_ITEMS = ['Hashes']
TRUSTED = ['lean/Spec/Hmac.lean as a rendering of RFC 2104 / FIPS 198-1 (validated in this stream against Python\'s hmac module: supporting evidence only)']
ASSUMPTIONS = ['HMAC over a hash whose digest is longer than its block (toy lines only; no hash of the library) is compared code<->model only']

def run_impl(line):
    t = line.split()
    if t[0] != 'hmach': return HC.run_impl(line)
    from crysp.hmac import HMAC
    steps = HC.split_bar(t[1:])
    h = HC.mk(steps[0][0])
    box = {'o': None}
    out = []
    for st in steps[1:]:
        if st[0] == 'mac':
            def go():
                o = HMAC(h, unhx(st[1])); box['o'] = o
                return hx(o(unhx(st[2])))
            out.append(guarded(go))
        elif st[0] == 'again': out.append(guarded(lambda: hx(box['o'](unhx(st[1])))))
        elif st[0] == 'call': out.append(HC.do_step(h, st)[0])
        else: HC.do_step(h, st)
    return ';'.join(out)


def rfc2104(H, B, k, m):
    if len(k) > B: k = H(k)
    k = k + b'\0' * (B - len(k))
    return H(bytes(x ^ 0x5c for x in k) + H(bytes(x ^ 0x36 for x in k) + m))


def ref_hmac(alg, k, m):
    n = HC.ALGS[alg][3]
    if n is not None: return pyhmac.new(k, m, n).digest()
    return rfc2104(lambda x: HC.reference_digest(alg, x), HC.blocklen(alg), k, m)


def check_hist(a, res):
    """every MAC is RFC 2104 over the standard hash for the key of its HMAC object (Python's hmac module / the formula over
    the reference digest), every one-shot call the reference digest of its own message — whatever the hash object was used
    for before"""
    steps = HC.split_bar(a)
    alg = steps[0][0]
    shown = [st for st in steps[1:] if st[0] in ('call', 'mac', 'again')]
    outs = res.split(';') if res else []
    if len(outs) != len(shown): return 'hmach %s: %d results for %d call/mac/again steps' % (alg, len(outs), len(shown))
    key, seen, j = None, [], 0
    for st in steps[1:]:
        if st[0] not in ('call', 'mac', 'again'):
            seen.append(st[0] + ('' if len(st) < 3 else ' L=' + st[2])); continue
        o = outs[j]; j += 1
        bad = lambda why: 'hmach %s step %s after [%s]: %s' % (alg, st[0], ' | '.join(seen[:-1]), why)
        seen.append(st[0] + (' L=' + st[2] if st[0] == 'call' else ''))
        if st[0] == 'call':
            M, L = unhx(st[1]), unoi(st[2])
            if L is not None and L > 8 * len(M):
                if o != 'ERR': return bad('a bit length beyond the data must be refused')
            elif L is None or (L % 8 == 0 and (L or not M)):
                exp = HC.reference_digest(alg, M if L is None else M[:L // 8])
                if exp is not None and o != hx(exp): return bad('differs from the reference digest of its own message')
            continue
        if st[0] == 'mac': key = unhx(st[1])
        if key is None:
            if o != 'ERR': return bad('there is no HMAC object yet')
            continue
        m = unhx(st[2] if st[0] == 'mac' else st[1])
        exp = hx(ref_hmac(alg, key, m))
        if o != exp: return bad('|K|=%d |M|=%d: the MAC %s differs from RFC 2104 over the standard hash, %s' % (len(key), len(m), o[:25], exp[:25]))
    return None


def check_impl(line, res):
    t = line.split(); op, a = t[0], t[1:]
    if op == 'hmach': return check_hist(a, res)
    bad = lambda why: '%s %s: %s' % (op, a[0], why)
    if op == 'hmac':
        exp = hx(ref_hmac(a[0], unhx(a[1]), unhx(a[2])))
        return None if res == exp else bad('|K|=%d: differs from RFC 2104 (%s)' % (len(unhx(a[1])), exp))
    if op == 'hmacseq':
        m = unhx(a[1])
        exp = ';'.join(hx(ref_hmac(a[0], unhx(k), m)) for k in a[2:])
        return None if res == exp else bad('after setkey the result is not HMAC(h,last key)')
    if op == 'hmacgen':
        B, D = int(a[0]), int(a[1])
        if B % 8 or B == 0 or D > B // 8: return None
        exp = hx(rfc2104(HC.Toy(B, D), B // 8, unhx(a[2]), unhx(a[3])))
        return None if res == exp else bad('toy hash: differs from RFC 2104')
    return None


def rnd(rng, n): return bytes(rng.getrandbits(8) for _ in range(n))


def key_lengths(B, D):
    s = {0, 1, 2, D - 1, D, D + 1, B - 2, B - 1, B, B + 1, B + 2, 2 * B - 1, 2 * B, 2 * B + 1, 3 * B - 1, 3 * B}
    return sorted(x for x in s if x >= 0)


def histories(alg, rng):
    """what a hash object may have been used for before it is handed to HMAC / between two MACs -> [(tag, steps)]"""
    B, c = HC.blocklen(alg), HC.cntlen(alg)
    m, t, b1 = rnd(rng, B + 9), rnd(rng, 3), rnd(rng, B)
    return [('one-shot call with a ragged bit length', ['call %s %d' % (hx(m), 8 * B + 13)]),
            ('one-shot call ending on the spill boundary', ['call %s None' % hx(rnd(rng, B - c - 1))]),
            ('abandoned stream', ['upd ' + hx(b1)]),
            ('abandoned stream with a buffered rest', ['upd ' + hx(b1 + b1), 'upd ' + hx(t)]),
            ('finished stream', ['upd ' + hx(b1), 'fin ' + hx(t)]),
            ('refused call', ['call %s %d' % (hx(m), 8 * len(m) + 1)]),
            ('refused final piece', ['upd ' + hx(b1), 'fin %s 32' % hx(t)]),
            ('preset counter', ['preset %d' % (8 * B * rng.randrange(1, 1 << 20))]),
            ('update on a padded object', ['fin ' + hx(t), 'upd ' + hx(b1)])]


def hline(alg, steps): return 'hmach %s | %s' % (alg, ' | '.join(steps))


def hist_cases(tier, rng):
    """the hash object has a HISTORY before HMAC(h,key), between two MACs of one HMAC object and between two HMAC objects
    over it; keys shorter than / equal to / longer than the block (setkey hashes a long key on the used object too)"""
    thorough = tier == 'thorough'
    for alg in HC.NAMES:
        B, D = HC.blocklen(alg), HC.outlen(alg)
        hs = histories(alg, rng)
        for hi, (tag, life) in enumerate(hs):
            for kl in ((1, D, B, B + 1, 2 * B + 3) if thorough else (D, B + 1) if hi < 3 else (rng.choice([1, B, B + 5]),)):
                k, m = rnd(rng, kl), rnd(rng, rng.choice([0, 3, B - 9, B + 1]))
                yield hline(alg, life + ['mac %s %s' % (hx(k), hx(m))]), 'hmach:%s, then HMAC' % tag
            if not thorough and hi % 2 and alg not in ('md5', 'sha1', 'sha256', 'sha512'): continue
            k, k2, m = rnd(rng, rng.choice([D, B + 2])), rnd(rng, rng.choice([5, B + 7])), rnd(rng, rng.randrange(0, B))
            other = hs[(hi + 4) % len(hs)][1]
            yield hline(alg, ['mac %s %s' % (hx(k), hx(m))] + life + ['again ' + hx(m)] + other + ['mac %s %s' % (hx(k2), hx(m)), 'again ' + hx(rnd(rng, 4)), 'call %s None' % hx(m)]), 'hmach:HMAC, %s, the same HMAC again, another history, a new HMAC' % tag
        ls = list(hs); rng.shuffle(ls)
        yield hline(alg, [x for _, life in ls[:4] for x in life] + ['mac %s %s' % (hx(rnd(rng, B + 1)), hx(rnd(rng, 9))), 'call %s None' % hx(rnd(rng, 5))]), 'hmach:several lives, then HMAC'
    yield hline('sha256', ['again x00', 'mac x01 x02']), 'hmach:malformed'


def cases(tier, rng):
    if tier == 'search':
        while True:
            alg = rng.choice(HC.NAMES); B = HC.blocklen(alg)
            if rng.randrange(3) == 0:
                life = [x for _ in range(rng.randrange(1, 3)) for x in rng.choice(histories(alg, rng))[1]]
                kl = rng.choice([rng.randrange(0, B + 1), B + rng.randrange(1, 9)])
                yield hline(alg, life + ['mac %s %s' % (hx(rnd(rng, kl)), hx(rnd(rng, rng.randrange(0, 2 * B))))]), 'search'
                continue
            yield 'hmac %s %s %s' % (alg, hx(rnd(rng, rng.choice([rng.randrange(0, 3 * B + 1), B + rng.randrange(-2, 3)]))), hx(rnd(rng, rng.randrange(0, 3 * B)))), 'search'
        return
    thorough = tier == 'thorough'
    for alg in HC.NAMES:
        B, D = HC.blocklen(alg), HC.outlen(alg)
        for kl in key_lengths(B, D):
            for ml in ((0, 1, B - 1, B, 2 * B + 3) if thorough or kl in (0, B - 1, B, B + 1) else (0, 3)):
                yield 'hmac %s %s %s' % (alg, hx(rnd(rng, kl)), hx(rnd(rng, ml))), 'hmac:|K| boundary'
        for kl in (range(0, 3 * B + 1) if thorough else [rng.randrange(0, 3 * B + 1) for _ in range(8)]):
            yield 'hmac %s %s %s' % (alg, hx(rnd(rng, kl)), hx(rnd(rng, rng.randrange(0, 2 * B)))), 'hmac:|K| seeded'
        # key that is all zero / shorter key equal to the padded one (K and K||0 give the same MAC by definition)
        yield 'hmac %s %s %s' % (alg, hx(bytes(B)), hx(b'abc')), 'hmac:zero key'
        yield 'hmac %s %s %s' % (alg, hx(b''), hx(b'abc')), 'hmac:zero key'
        # setkey sequences on one object
        seqs = [(B + 1, 1), (1, B + 1), (B, B + 1, B - 1), (3 * B, 0), (0, 3 * B), (D, B + D), (B + 5, B + 6)]
        for sq in seqs:
            yield 'hmacseq %s %s %s' % (alg, hx(rnd(rng, 5)), ' '.join(hx(rnd(rng, n)) for n in sq)), 'hmacseq:setkey replaces'
    yield from hist_cases(tier, rng)
    # the HMAC class itself over a toy hash: block sizes 8..1024 bits, digest sizes up to (and beyond) the block
    for Bb in (8, 16, 64, 512, 1024):
        Bl = Bb // 8
        for D in sorted({1, max(Bl - 1, 1), Bl, Bl + 1, 2 * Bl}):
            for kl in sorted({0, 1, Bl - 1, Bl, Bl + 1, 2 * Bl, 3 * Bl}):
                if kl < 0: continue
                yield 'hmacgen %d %d %s %s' % (Bb, D, hx(rnd(rng, kl)), hx(rnd(rng, rng.randrange(0, 20)))), 'hmacgen:toy hash'


def shrink(line):
    t = line.split()
    if t[0] == 'hmach':
        steps = HC.split_bar(t[1:])
        for i in range(1, len(steps) - 1):                   # drop a step of the history (the last step stays)
            yield hline(steps[0][0], [' '.join(x) for j, x in enumerate(steps[1:], 1) if j != i])
        return
    if t[0] == 'hmac':
        k, m = unhx(t[2]), unhx(t[3])
        if m: yield 'hmac %s %s %s' % (t[1], t[2], hx(m[:len(m) // 2]))
        if any(k): yield 'hmac %s %s %s' % (t[1], hx(bytes(len(k))), t[3])
        if any(m): yield 'hmac %s %s %s' % (t[1], t[2], hx(bytes(len(m))))
