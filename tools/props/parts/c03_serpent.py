"""C03 (Serpent part + rol/ror) — Serpent.dec inverts Serpent.enc (both ways) and keeps the block length; the exposed
component pairs _S/_Sinv (8 boxes), _IP/_FP, _L/_Linv are mutual inverses on their whole domain; so are
crysp.utils.operators.rol/ror for every width and amount.

The predicate is the round trip itself evaluated on the real code (`*.rt.*` ops return f_inv(f(x)); it must be x; the
cipher-level ones are executed by ONE Serpent object per line that performs both orders and repeats its calls), the
length law (`serpent.len.*`), and for rol/ror an independent bit-list rotation.  Only round trips are compared here, not
the values of enc or of the components (that is C02): a change that keeps everything invertible is not a C03 failure."""
from props.common import *
from props.parts import c02_serpent as c2
from props.parts import one_object as OO

PREFIX = ('serpent.', 'ops.')
ID = 'C03'
LEAN_PROOFS = ['Proofs.C03_Serpent']
GEN_ITEMS = ['Serpent']
RULE = ('round-trip op lines over the C02 Serpent key/block families (every key byte length 0..32, bit-length keys, zero/all-one/'
        'single-bit/random keys and blocks; ONE Serpent object per line performs f;finv(f);finv;f(finv);f again), every box on all 16 values / unit vectors / random states, IP/FP/L/Linv on all 128 unit '
        'vectors and random states, rol/ror for widths 0..70 x every amount 0..width (+ out-of-range amounts); distinct lines; '
        'non-trivial = implementation returned a value')
TRUSTED = list(c2.TRUSTED)
ASSUMPTIONS = list(c2.ASSUMPTIONS) + ['component functions are called on well-formed Bits (ival < 2^size), the only values the library hands out']


def run_impl(line):
    from crysp import serpent as sp
    from crysp.utils.operators import rol, ror
    from crysp.bits import Bits
    t = line.split(); op, a = t[0], t[1:]
    if not op.startswith(('serpent.rt.', 'serpent.len.', 'ops.')): return c2.run_impl(line)
    def go():
        if op in ('serpent.rt.encdec', 'serpent.rt.decenc'):
            # ONE Serpent object per line performs the whole chain (both orders, repeated calls): props/parts/one_object.py
            S = sp.Serpent(c2.impl_operand(a[0]))
            return OO.chain(S, lambda: c2.impl_operand(a[1]), 'enc' if op == 'serpent.rt.encdec' else 'dec')
        if op == 'serpent.len.enc': return str(len(sp.Serpent(c2.impl_operand(a[0])).enc(c2.impl_operand(a[1]))))
        if op == 'serpent.len.dec': return str(len(sp.Serpent(c2.impl_operand(a[0])).dec(c2.impl_operand(a[1]))))
        if op == 'serpent.rt.S': return fb(sp._Sinv(int(a[0]), sp._S(int(a[0]), mkbits(a[1]))))
        if op == 'serpent.rt.Sinv': return fb(sp._S(int(a[0]), sp._Sinv(int(a[0]), mkbits(a[1]))))
        if op == 'serpent.rt.IP': return fb(sp._FP(sp._IP(mkbits(a[0]))))
        if op == 'serpent.rt.FP': return fb(sp._IP(sp._FP(mkbits(a[0]))))
        if op == 'serpent.rt.L': return fb(sp._Linv(sp._L(mkbits(a[0]))))
        if op == 'serpent.rt.Linv': return fb(sp._L(sp._Linv(mkbits(a[0]))))
        if op == 'ops.rol': return fb(rol(mkbits(a[0]), int(a[1])))
        if op == 'ops.ror': return fb(ror(mkbits(a[0]), int(a[1])))
        if op == 'ops.rt.rol': return fb(ror(rol(mkbits(a[0]), int(a[1])), int(a[1])))
        if op == 'ops.rt.ror': return fb(rol(ror(mkbits(a[0]), int(a[1])), int(a[1])))
        raise RuntimeError('unknown op ' + op)
    return guarded(go)


def check_impl(line, res):
    t = line.split(); op, a = t[0], t[1:]
    bad = lambda why: '%s: %s' % (op, why)
    if op in ('serpent.rt.encdec', 'serpent.rt.decenc', 'serpent.len.enc', 'serpent.len.dec'):
        klen, k = c2.operand_sv(a[0]); bl, b = c2.operand_sv(a[1])
        if klen > 256 or bl != 128: return None if res == 'ERR' else bad('undefined key/block size must be rejected')
        if res == 'ERR': return bad('admissible key/block refused')
        if OO.notes_of(res): return bad(OO.notes_of(res))
        if op.startswith('serpent.len.'):
            return None if res == '16' else bad('result is %s bytes, the block has 16' % res)
        exp = hx(b.to_bytes(16, 'little'))
        return None if res == exp else bad('round trip returned %s' % res)
    if op.startswith('serpent.rt.'):
        box = op.split('.')[-1] in ('S', 'Sinv')
        i = int(a[0]) if box else 0
        n, x = unbt(a[1] if box else a[0])
        if not (0 <= i < 8 and n == 128): return None if res == 'ERR' else bad('undefined box/size must be rejected')
        if res == 'ERR': return bad('refused a 128-bit state')
        if not res.startswith('128:') or int(res[4:]) >> 128: return bad('result is not a 128-bit state: %s' % res)
        if op.startswith('serpent.rt.'):
            return None if res == '128:%d' % x else bad('round trip returned %s' % res)
        return None
    if op.startswith('ops.'):
        n, x = unbt(a[0]); k = int(a[1])
        if k > n: return None if res == 'ERR' else bad('amount beyond the width must be refused (negative shift)')
        if res == 'ERR': return bad('refused amount %d at width %d' % (k, n))
        bits = [(x >> j) & 1 for j in range(n)]
        if op == 'ops.rol': exp = [bits[(j - k) % n] for j in range(n)]
        elif op == 'ops.ror': exp = [bits[(j + k) % n] for j in range(n)]
        else: exp = bits
        e = '%d:%d' % (n, sum(b << j for j, b in enumerate(exp)))
        return None if res == e else bad('expected %s' % e)
    return None


def rot_values(w, rng, k):
    vals = {0, (1 << w) - 1, 1 if w else 0, (1 << (w - 1)) if w else 0, int('01' * 40, 2) & ((1 << w) - 1)}
    return sorted(vals), [rng.getrandbits(w) if w else 0 for _ in range(k)]


def rot_cases(tier, rng):
    q = tier == 'quick'
    for w in range(0, 71):
        edge, rnd = rot_values(w, rng, 1 if q else 8)
        for k in range(0, w + 1):
            vals = [edge[(k + w) % len(edge)]] + rnd if q else edge + rnd
            if k in (0, 1, w - 1, w) or not q: vals = edge + rnd
            for x in vals:
                for op in ('ops.rol', 'ops.ror', 'ops.rt.rol', 'ops.rt.ror'):
                    yield '%s %s %d' % (op, bt(w, x), k), 'rot-w%d' % (w // 8 * 8)
        for k in (w + 1, w + 2, 2 * w + 1, w + 64):
            for op in ('ops.rol', 'ops.ror', 'ops.rt.rol'):
                yield '%s %s %d' % (op, bt(w, rnd[0]), k), 'rot-error'
    for w in (96, 127, 128, 129, 255, 256, 512, 1000):
        for k in {0, 1, 7, 8, 31, 32, 33, w // 2, w - 1, w, w + 1}:
            for x in (rng.getrandbits(w), (1 << w) - 1, 1 << (w - 1)):
                for op in ('ops.rol', 'ops.ror', 'ops.rt.rol', 'ops.rt.ror'):
                    yield '%s %s %d' % (op, bt(w, x), k), 'rot-wide'


RT = ('serpent.rt.encdec', 'serpent.rt.decenc')

def cases(tier, rng):
    if tier == 'search':
        while True:
            n = rng.choice([rng.randrange(0, 33), 16, 24, 32, rng.randrange(0, 36)])
            key = bytes(rng.getrandbits(8) for _ in range(n)); blk = bytes(rng.getrandbits(8) for _ in range(16))
            for op in RT: yield '%s %s %s' % (op, hx(key), hx(blk)), 'search'
            x = rng.getrandbits(128); i = rng.randrange(8)
            for op in ('serpent.rt.S', 'serpent.rt.Sinv'): yield '%s %d %s' % (op, i, bt(128, x)), 'search'
            for op in ('serpent.rt.IP', 'serpent.rt.FP', 'serpent.rt.L', 'serpent.rt.Linv'): yield '%s %s' % (op, bt(128, x)), 'search'
            w = rng.randrange(0, 130); k = rng.randrange(0, w + 2); v = rng.getrandbits(w) if w else 0
            for op in ('ops.rol', 'ops.ror', 'ops.rt.rol', 'ops.rt.ror'): yield '%s %s %d' % (op, bt(w, v), k), 'search'
        return
    yield from c2.cipher_cases(RT + ('serpent.len.enc', 'serpent.len.dec'), tier, rng)
    yield from c2.component_cases(('serpent.rt.S', 'serpent.rt.Sinv'),
                                  ('serpent.rt.IP', 'serpent.rt.FP', 'serpent.rt.L', 'serpent.rt.Linv'), tier, rng)
    yield from rot_cases(tier, rng)


shrink = c2.shrink
