"""Independent Python references used by the predicates of C19 and of the Nilsimsa part of C14.
Written from the TLSH paper / Trend Micro reference and from nilsimsa 0.2.4 (nilsimsa.c), positional style,
sharing no code with crysp or with the Lean model.  (Not a plugin part: no PREFIX.)"""
import math

# Pearson's permutation (CACM 33(6), 1990), as used by TLSH; validated only through the known answers of /repo/tests
V = [1, 87, 49, 12, 176, 178, 102, 166, 121, 193, 6, 84, 249, 230, 44, 163, 14, 197, 213, 181, 161, 85, 218, 80, 64, 239, 24, 226, 236, 142, 38, 200,
     110, 177, 104, 103, 141, 253, 255, 50, 77, 101, 81, 18, 45, 96, 31, 222, 25, 107, 190, 70, 86, 237, 240, 34, 72, 242, 20, 214, 244, 227, 149, 235,
     97, 234, 57, 22, 60, 250, 82, 175, 208, 5, 127, 199, 111, 62, 135, 248, 174, 169, 211, 58, 66, 154, 106, 195, 245, 171, 17, 187, 182, 179, 0, 243,
     132, 56, 148, 75, 128, 133, 158, 100, 130, 126, 91, 13, 153, 246, 216, 219, 119, 68, 223, 78, 83, 88, 201, 99, 122, 11, 92, 32, 136, 114, 52, 10,
     138, 30, 48, 183, 156, 35, 61, 26, 143, 74, 251, 94, 129, 162, 63, 152, 170, 7, 115, 167, 241, 206, 3, 150, 55, 59, 151, 220, 90, 53, 23, 131,
     125, 173, 15, 238, 79, 95, 89, 16, 105, 137, 225, 224, 217, 160, 37, 123, 118, 73, 2, 157, 46, 116, 9, 145, 134, 228, 207, 212, 202, 215, 69, 229,
     27, 188, 67, 124, 168, 252, 42, 4, 29, 108, 21, 247, 19, 205, 39, 203, 233, 40, 186, 147, 198, 192, 155, 33, 164, 191, 98, 204, 165, 180, 117, 76,
     140, 36, 210, 172, 41, 54, 159, 8, 185, 232, 113, 196, 231, 47, 146, 120, 51, 65, 28, 144, 254, 221, 93, 189, 194, 139, 112, 43, 71, 109, 184, 209]

TRIPLETS = [(2, 1, 2), (3, 1, 3), (5, 2, 3), (7, 2, 4), (11, 1, 4), (13, 3, 4), (17, 1, 5), (19, 2, 5), (23, 3, 5), (29, 4, 5),
            (31, 1, 6), (37, 2, 6), (41, 3, 6), (43, 4, 6), (47, 5, 6), (53, 1, 7), (59, 2, 7), (61, 3, 7), (67, 4, 7), (71, 5, 7), (73, 6, 7)]


def bmap(s, i, j, k): return V[V[V[V[s] ^ i] ^ j] ^ k]


def tlsh_buckets(w, data):
    bk = [0] * 256
    tr = [t for t in TRIPLETS if t[2] < w]
    for e in range(w - 1, len(data)):
        c0 = data[e]
        for s, a, b in tr: bk[bmap(s, c0, data[e - a], data[e - b])] += 1
    return bk


def tlsh_populated(eff, w, data): return sum(1 for x in tlsh_buckets(w, data)[:eff] if x)


def too_few(eff, populated): return populated < 18 if eff == 48 else populated <= eff // 2


def swap(b): return ((b & 15) << 4) | (b >> 4)


def lcap(n):
    if n <= 656: i = math.floor(math.log(n) / math.log(1.5))
    elif n <= 3199: i = math.floor(math.log(n) / math.log(1.3) - 8.72777)
    else: i = math.floor(math.log(n) / math.log(1.1) - 62.5472)
    return i & 255


def qratio(q, q3):
    """floor(100*q/q3) mod 16 over the rationals (exact: no floating point)"""
    from fractions import Fraction
    return math.floor(Fraction(100 * q, q3)) % 16


def tlsh_encode(eff, chklen, bucket, n, ck, force):
    """digest bytes or None from the histogram alone: bucket = the 256 counts, ck = checksum bytes, n = input length"""
    if n < 50 or (not force and n < 256): return None
    bk = list(bucket[:eff])
    if too_few(eff, sum(1 for x in bk if x)): return None
    srt = sorted(bk)
    q1, q2, q3 = srt[eff // 4 - 1], srt[eff // 2 - 1], srt[3 * eff // 4 - 1]
    code = lambda x: 3 if x > q3 else 2 if x > q2 else 1 if x > q1 else 0
    body = [sum(code(bk[4 * i + j]) << (2 * j) for j in range(4)) for i in range(eff // 4)]
    return bytes([swap(c) for c in ck] + [swap(lcap(n)), qratio(q1, q3) << 4 | qratio(q2, q3)] + body[::-1])


def tlsh(eff, w, chklen, data, force):
    """digest bytes or None"""
    n = len(data)
    if n < 50 or (not force and n < 256): return None
    ck = [0] * chklen
    for e in range(w - 1, n):
        for t in range(chklen): ck[t] = bmap(ck[t - 1] if t else 0, data[e], data[e - 1], ck[t])
    return tlsh_encode(eff, chklen, tlsh_buckets(w, data), n, ck, force)


def moddiff(x, y, r):
    d = abs(x - y)
    return min(d, r - d)


def tlsh_distance(chklen, x, y, lendiff=True):
    """x, y digests of the same configuration"""
    d = 0
    if lendiff:
        ld = moddiff(swap(x[chklen]), swap(y[chklen]), 256)
        d += ld if ld <= 1 else ld * 12
    for sh in (4, 0):
        qd = moddiff((x[chklen + 1] >> sh) & 15, (y[chklen + 1] >> sh) & 15, 16)
        d += qd if qd <= 1 else (qd - 1) * 12
    if x[:chklen] != y[:chklen]: d += 1
    for a, b in zip(x[chklen + 2:], y[chklen + 2:]):
        for t in range(4):
            p = abs(((a >> 2 * t) & 3) - ((b >> 2 * t) & 3))
            d += 6 if p == 3 else p
    return d


# ---------------------------------------------------------------------------------------------
_TRAN = {}


def filltran(mult):
    if mult in _TRAN: return _TRAN[mult]
    tran = [0] * 256
    j = 0
    for i in range(256):
        j = (j * mult + 1) & 255
        j += j
        if j > 255: j -= 255
        k = 0
        while k < i:
            if j == tran[k]:
                j = (j + 1) & 255
                k = 0
            k += 1
        tran[i] = j
    _TRAN[mult] = tran
    return tran


def nilsimsa(mult, d):
    tran = filltran(mult)
    t3 = lambda a, b, c, n: ((tran[(a + n) & 255] ^ tran[b] * (n + n + 1)) + tran[c ^ tran[n]]) & 255
    acc = [0] * 256
    n = len(d)
    for i in range(n):
        ch = d[i]
        if i >= 2: acc[t3(ch, d[i - 1], d[i - 2], 0)] += 1
        if i >= 3:
            acc[t3(ch, d[i - 1], d[i - 3], 1)] += 1; acc[t3(ch, d[i - 2], d[i - 3], 2)] += 1
        if i >= 4:
            acc[t3(ch, d[i - 1], d[i - 4], 3)] += 1; acc[t3(ch, d[i - 2], d[i - 4], 4)] += 1; acc[t3(ch, d[i - 3], d[i - 4], 5)] += 1
            acc[t3(d[i - 4], d[i - 1], ch, 6)] += 1; acc[t3(d[i - 4], d[i - 3], ch, 7)] += 1
    total = 0 if n < 3 else 1 if n == 3 else 4 if n == 4 else 8 * n - 28
    thr = total // 256
    code = [sum(1 << b for b in range(8) if acc[8 * k + b] > thr) for k in range(32)]
    return bytes(code[::-1])


def hamming(a, b):
    return sum(bin(x ^ y).count('1') for x, y in zip(a, b))
