"""C03, Threefish part — Threefish(K,T).dec inverts Threefish(K,T).enc and vice versa, the result has the block length,
and the exposed component pair MIX / MIX^-1 are mutual inverses.

check_impl is the property's own predicate on the implementation: the round trips give back the block, |enc B| = |B|;
for the component ops the composition is recomputed on the real code."""
from props.common import *
from props.parts import c02_threefish as _c2

PREFIX = ('threefish.',)
ID = 'C03'
LEAN_PROOFS = ['Proofs.C03_Threefish']
GEN_ITEMS = ['Threefish']
RULE = ('threefish: op lines = round trips dec(enc(B)), enc(dec(B)) and enc/dec lengths over the three sizes (zero / all-one / single-bit / random '
        'keys, tweaks, blocks, one-bit differences), MIX^-1(MIX(x)) and MIX(MIX^-1(y)) for every rotation constant; distinct lines; '
        'non-trivial = the implementation returned a value')
TRUSTED = list(_c2.TRUSTED)
ASSUMPTIONS = list(_c2.ASSUMPTIONS)

run_impl = _c2.run_impl
M64 = _c2.M64


def _impl_mix(op, nw, a, b, d, j):
    return unil(run_impl('%s %d %d %d %d %d' % (op, nw, a, b, d, j)))


def check_impl(line, res):
    t = line.split()
    op, a = t[0], t[1:]
    if op == 'threefish.rt':
        k, tw, b = unhx(a[0]), unhx(a[1]), unhx(a[2])
        if not _c2.ref_sizes_ok(k, tw, b):
            return None if res == 'ERR;ERR' else 'undefined sizes processed: ' + res[:60]
        exp = hx(b) + ';' + hx(b)
        from props.parts import one_object as OO
        for part in res.split(';'):
            if OO.notes_of(part): return OO.notes_of(part)
        return None if res == exp else 'round trip does not give back the block'
    if op in ('threefish.enc', 'threefish.dec'):
        k, tw, b = unhx(a[0]), unhx(a[1]), unhx(a[2])
        if not _c2.ref_sizes_ok(k, tw, b): return None if res == 'ERR' else 'undefined sizes processed'
        if res == 'ERR': return 'admissible input rejected'
        if len(unhx(res)) != len(b): return 'result has %d bytes for a %d-byte block' % (len(unhx(res)), len(b))
        return None
    if op in ('threefish.mix', 'threefish.mixinv'):
        nw, x0, x1, d, j = (int(x) for x in a)
        if res == 'ERR': return None if nw not in (4, 8, 16) else 'component rejected admissible words'
        y = unil(res)
        inv = 'threefish.mixinv' if op == 'threefish.mix' else 'threefish.mix'
        back = _impl_mix(inv, nw, y[0], y[1], d, j)
        return None if back == [x0, x1] else 'inverse component gives %r' % (back,)
    return None


def cases(tier, rng):
    if tier == 'search':
        while True:
            n = rng.choice((32, 64, 128))
            yield 'threefish.rt %s %s %s' % (hx(_c2.os_(rng, n)), hx(_c2.os_(rng, 16)), hx(_c2.os_(rng, n))), 'threefish.rt:search'
            nw = n // 8
            for op in ('threefish.mix', 'threefish.mixinv'):
                yield '%s %d %d %d %d %d' % (op, nw, rng.getrandbits(64), rng.getrandbits(64), rng.randrange(80), rng.randrange(nw // 2)), op
        return
    for k, tw, m, c in _c2.KATS:
        yield 'threefish.rt x%s x%s x%s' % (k, tw, m), 'threefish.rt:kat'
        yield 'threefish.rt x%s x%s x%s' % (k, tw, c), 'threefish.rt:kat'
    yield from _c2.block_cases(tier, rng, ops=('threefish.rt',))
    yield from _c2.block_cases('quick', rng, ops=('threefish.enc', 'threefish.dec'))
    yield from _c2.wrong_sizes(rng, ops=('threefish.rt',))
    for nw in (4, 8, 16):
        for d in list(range(8)) + [8, 71, 79]:
            for j in range(nw // 2):
                ws = [(0, 0), (M64, M64), (1, 1 << 63), (0, M64), (rng.getrandbits(64), rng.getrandbits(64))]
                if tier != 'quick': ws += [(rng.getrandbits(64), rng.getrandbits(64)) for _ in range(20)]
                for x0, x1 in ws:
                    yield 'threefish.mix %d %d %d %d %d' % (nw, x0, x1, d, j), 'threefish.mix'
                    yield 'threefish.mixinv %d %d %d %d %d' % (nw, x0, x1, d, j), 'threefish.mixinv'


shrink = _c2.shrink
