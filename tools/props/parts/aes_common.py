"""Shared by the AES parts of C02 and C03: execution of the op lines on the real crysp.aes, an independent FIPS-197
reference (written from the standard: GF(2^8) by shift-and-reduce, S-box = affine(inverse); shares no code or table
with crysp or with the Lean files), and the case generators."""
from props.common import *

# ---------------------------------------------------------------------------------------------
# real code
_OBJ = None
def _obj():
    global _OBJ
    if _OBJ is None:
        from crysp import aes as A
        _OBJ = A.AES(bytes(16))
    return _OBJ

COMP = ('sbox', 'sboxinv', 'subbytes', 'invsubbytes', 'shiftrows', 'invshiftrows', 'mixcolumns', 'invmixcolumns')
PAIRS = {'sbox': ('sbox', 'sboxinv'), 'subbytes': ('subbytes', 'invsubbytes'),
         'shiftrows': ('shiftrows', 'invshiftrows'), 'mixcolumns': ('mixcolumns', 'invmixcolumns')}

def _comp(name, s):
    """apply the exposed component `name` of the real code to the byte string s -> bytes"""
    from crysp import aes as A
    from crysp.poly import Poly
    st = Poly(bytes(s))
    if name == 'sbox': return bytes(A.Sbox(st).ival)
    if name == 'sboxinv': return bytes(A.Sbox_inv(st).ival)
    m = {'subbytes': 'SubBytes', 'invsubbytes': 'InvSubBytes', 'shiftrows': 'ShiftRows', 'invshiftrows': 'InvShiftRows',
         'mixcolumns': 'MixColumns', 'invmixcolumns': 'InvMixColumns'}[name]
    getattr(_obj(), m)(st)
    return bytes(st.ival)

def run_impl(line):
    from crysp import aes as A
    from crysp.poly import Poly
    t = line.split(); op, a = t[0], t[1:]
    if op in ('aes.rt', 'aes.rtd'):
        # ONE cipher object performs the whole line, so that whatever a call caches in (or does to) the object meets
        # the following calls:   aes.rt : enc(B), dec(enc(B)), dec(B), enc(dec(B)), enc(B) again
        #                        aes.rtd: dec(B), enc(dec(B)), enc(B), dec(enc(B)), dec(B) again
        # (between them: enc / dec as the first call of a new object, enc after dec, dec after enc, and the repetition)
        k, b = unhx(a[0]), unhx(a[1])
        try: E = A.AES(k)
        except Exception: E = None
        def step(f, x):
            if E is None or x is None: return None
            try: return getattr(E, f)(x)
            except Exception: return None
        if op == 'aes.rt':
            e = step('enc', b); de = step('dec', e); d = step('dec', b); ed = step('enc', d); again = step('enc', b)
        else:
            d = step('dec', b); ed = step('enc', d); e = step('enc', b); de = step('dec', e); again = step('dec', b)
        return ';'.join('ERR' if x is None else hx(x) for x in (e, de, d, ed, again))
    if op == 'aes.rtc':
        f, gi = PAIRS[a[0]]; s = unhx(a[1])
        def chain(first, second):
            try: x = _comp(first, s)
            except Exception: return 'ERR', 'ERR'
            try: y = _comp(second, x)
            except Exception: return hx(x), 'ERR'
            return hx(x), hx(y)
        fs, gfs = chain(f, gi); gs, fgs = chain(gi, f)
        return ';'.join((fs, gfs, gs, fgs))
    def go():
        if op in ('aes.enc', 'aes.dec'):
            from props.parts import one_object as OO   # the object has already been used for the opposite operation
            return hx(OO.used(A.AES(unhx(a[0])), lambda: unhx(a[1]), op[4:]))
        if op == 'aes.gmul': return str(int(A.gmul(int(a[0]), int(a[1]))))
        if op == 'aes.gmulc':
            x, y = int(a[0]), int(a[1])
            return guarded(lambda: str(int(A.gmul(x, y)))) + ';' + guarded(lambda: str(int(A.gmul(y, x))))
        if op == 'aes.keyschedule':
            w = A.AES(unhx(a[0])).keyschedule()
            return hx(b''.join(bytes(x.ival) for x in w))
        if op == 'aes.addroundkey':
            st = Poly(unhx(a[0])); _obj().AddRoundKey(st, [Poly(unhx(a[1]))]); return hx(bytes(st.ival))
        if op.startswith('aes.') and op[4:] in COMP: return hx(_comp(op[4:], unhx(a[0])))
        raise RuntimeError('unknown op ' + op)
    return guarded(go)


# ---------------------------------------------------------------------------------------------
# independent reference, FIPS 197
def ref_mul(a, b):
    """product of two polynomials over GF(2) modulo x^8+x^4+x^3+x+1"""
    p = 0
    for i in range(8):
        if (b >> i) & 1: p ^= a << i
    for i in range(14, 7, -1):
        if (p >> i) & 1: p ^= 0x11b << (i - 8)
    return p

def _inv(a):
    if a == 0: return 0
    for c in range(1, 256):
        if ref_mul(a, c) == 1: return c

def _affine(b):
    r = 0
    for i in range(8):
        bit = ((b >> i) ^ (b >> ((i + 4) % 8)) ^ (b >> ((i + 5) % 8)) ^ (b >> ((i + 6) % 8)) ^ (b >> ((i + 7) % 8)) ^ (0x63 >> i)) & 1
        r |= bit << i
    return r

REF_SBOX = [_affine(_inv(b)) for b in range(256)]
REF_INV = [REF_SBOX.index(b) for b in range(256)]

def ref_subbytes(s): return bytes(REF_SBOX[b] for b in s)
def ref_invsubbytes(s): return bytes(REF_INV[b] for b in s)
def ref_shiftrows(s):       # s[r+4c] = s_{r,c};  s'_{r,c} = s_{r,(c+r)%4}
    return bytes(s[(i % 4) + 4 * ((i // 4 + i % 4) % 4)] for i in range(16))
def ref_invshiftrows(s):
    return bytes(s[(i % 4) + 4 * ((i // 4 - i % 4) % 4)] for i in range(16))
MIX = [[2, 3, 1, 1], [1, 2, 3, 1], [1, 1, 2, 3], [3, 1, 1, 2]]
IMIX = [[14, 11, 13, 9], [9, 14, 11, 13], [13, 9, 14, 11], [11, 13, 9, 14]]
def _mix(s, M):
    out = []
    for c in range(4):
        col = s[4 * c:4 * c + 4]
        for r in range(4):
            v = 0
            for k in range(4): v ^= ref_mul(M[r][k], col[k])
            out.append(v)
    return bytes(out)
def ref_mixcolumns(s): return _mix(s, MIX)
def ref_invmixcolumns(s): return _mix(s, IMIX)
def xorb(a, b): return bytes(x ^ y for x, y in zip(a, b))

def ref_expand(key):
    nk = len(key) // 4; nr = nk + 6
    w = [key[4 * i:4 * i + 4] for i in range(nk)]
    rc = 1
    for i in range(nk, 4 * (nr + 1)):
        t = w[i - 1]
        if i % nk == 0:
            t = xorb(ref_subbytes(t[1:] + t[:1]), bytes([rc, 0, 0, 0])); rc = ref_mul(rc, 2)
        elif nk > 6 and i % nk == 4:
            t = ref_subbytes(t)
        w.append(xorb(w[i - nk], t))
    return w

def ref_enc(key, blk):
    nr = len(key) // 4 + 6; w = ref_expand(key)
    rk = lambda r: b''.join(w[4 * r:4 * r + 4])
    s = xorb(blk, rk(0))
    for r in range(1, nr):
        s = xorb(ref_mixcolumns(ref_shiftrows(ref_subbytes(s))), rk(r))
    return xorb(ref_shiftrows(ref_subbytes(s)), rk(nr))

def ref_dec(key, blk):
    nr = len(key) // 4 + 6; w = ref_expand(key)
    rk = lambda r: b''.join(w[4 * r:4 * r + 4])
    s = xorb(blk, rk(nr))
    for r in range(nr - 1, 0, -1):
        s = ref_invmixcolumns(xorb(ref_invsubbytes(ref_invshiftrows(s)), rk(r)))
    return xorb(ref_invsubbytes(ref_invshiftrows(s)), rk(0))

REF_COMP = {'sbox': ref_subbytes, 'subbytes': ref_subbytes, 'sboxinv': ref_invsubbytes, 'invsubbytes': ref_invsubbytes,
            'shiftrows': ref_shiftrows, 'invshiftrows': ref_invshiftrows, 'mixcolumns': ref_mixcolumns,
            'invmixcolumns': ref_invmixcolumns}
BYTEWISE = ('sbox', 'sboxinv', 'subbytes', 'invsubbytes')

# self-test of the reference against FIPS 197 Appendix C / B (a wrong reference must not go unnoticed)
FIPS = [
    ('000102030405060708090a0b0c0d0e0f', '00112233445566778899aabbccddeeff', '69c4e0d86a7b0430d8cdb78070b4c55a'),
    ('000102030405060708090a0b0c0d0e0f1011121314151617', '00112233445566778899aabbccddeeff', 'dda97ca4864cdfe06eaf70a0ec0d7191'),
    ('000102030405060708090a0b0c0d0e0f101112131415161718191a1b1c1d1e1f', '00112233445566778899aabbccddeeff', '8ea2b7ca516745bfeafc49904b496089'),
    ('2b7e151628aed2a6abf7158809cf4f3c', '3243f6a8885a308d313198a2e0370734', '3925841d02dc09fbdc118597196a0b32'),
    # SP 800-38A F.1 ECB-AES128/192/256 first blocks
    ('2b7e151628aed2a6abf7158809cf4f3c', '6bc1bee22e409f96e93d7e117393172a', '3ad77bb40d7a3660a89ecaf32466ef97'),
    ('8e73b0f7da0e6452c810f32b809079e562f8ead2522c6b7b', '6bc1bee22e409f96e93d7e117393172a', 'bd334f1d6e45f25ff712a214571fa5cc'),
    ('603deb1015ca71be2b73aef0857d77811f352c073b6108d72d9810a30914dff4', '6bc1bee22e409f96e93d7e117393172a', 'f3eed1bdb5d2a03c064b5a7e3db181f8'),
]
for _k, _p, _c in FIPS:
    assert ref_enc(bytes.fromhex(_k), bytes.fromhex(_p)).hex() == _c and ref_dec(bytes.fromhex(_k), bytes.fromhex(_c)).hex() == _p
assert ref_mul(0x57, 0x83) == 0xc1 and ref_mul(0x57, 0x13) == 0xfe and REF_SBOX[0x53] == 0xed

KEYLENS = (16, 24, 32)
BAD_KEYLENS = (0, 15, 17, 20, 33)
BAD_BLOCKLENS = (0, 15, 17, 32)


# ---------------------------------------------------------------------------------------------
# generators
def rb(rng, n): return bytes(rng.getrandbits(8) for _ in range(n))

def structured_blocks():
    yield bytes(16), 'zero'
    yield b'\xff' * 16, 'ones'
    yield bytes(range(16)), 'ident'
    yield bytes(range(240, 256)), 'ident-hi'

def single_bit(n):
    for i in range(8 * n):
        b = bytearray(n); b[i // 8] = 1 << (i % 8); yield bytes(b)

def cipher_cases(ops, tier, rng):
    """(key, block, tag) triples for block-level ops"""
    out = []
    for k, p, c in FIPS:
        out.append((bytes.fromhex(k), bytes.fromhex(p), 'fips')); out.append((bytes.fromhex(k), bytes.fromhex(c), 'fips'))
    for n in KEYLENS:
        for key in (bytes(n), b'\xff' * n, bytes(range(n))):
            for blk, _ in structured_blocks(): out.append((key, blk, 'structured-%d' % (8 * n)))
        kr = rb(rng, n); br = rb(rng, 16)
        step = 1 if tier == 'thorough' else 3
        off = rng.randrange(step)
        for i, key in enumerate(single_bit(n)):
            if i % step == off or i in (0, 8 * n - 1): out.append((key, br, 'single-bit-key-%d' % (8 * n)))
        for i, blk in enumerate(single_bit(16)):
            if i % step == off or i in (0, 127): out.append((kr, blk, 'single-bit-block-%d' % (8 * n)))
        # keys whose expansion exercises every S-box entry / words that are zero or all-one
        for j in range(n // 4):
            key = bytearray(rb(rng, n)); key[4 * j:4 * j + 4] = b'\0\0\0\0'; out.append((bytes(key), rb(rng, 16), 'zero-word-key-%d' % (8 * n)))
            key = bytearray(rb(rng, n)); key[4 * j:4 * j + 4] = b'\xff' * 4; out.append((bytes(key), rb(rng, 16), 'ones-word-key-%d' % (8 * n)))
        for _ in range(40 if tier == 'quick' else 1500):
            out.append((rb(rng, n), rb(rng, 16), 'random-%d' % (8 * n)))
    return out

def size_cases(rng):
    """wrong sizes: the standard defines none of them, the code must refuse"""
    for n in BAD_KEYLENS:
        yield rb(rng, n), rb(rng, 16), 'bad-key-size'
    for n in KEYLENS:
        for m in BAD_BLOCKLENS:
            yield rb(rng, n), rb(rng, m), 'bad-block-size'
    yield rb(rng, 15), rb(rng, 17), 'bad-key-size'

def states(tier, rng):
    for s, t in structured_blocks(): yield s, 'state-' + t
    for s in single_bit(16): yield s, 'state-single-bit'
    for v in range(256):                       # every byte value in every row position of a column
        yield bytes([v, 0, 0, 0, 0, v, 0, 0, 0, 0, v, 0, 0, 0, 0, v]), 'state-byte-sweep'
    for _ in range(60 if tier == 'quick' else 1500): yield rb(rng, 16), 'state-random'

def shrink(line):
    return []
