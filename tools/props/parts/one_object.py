"""Round-trip lines of the C03 parts executed by ONE cipher object per line.

A cipher object is a function of (key, block): whatever a call caches in the object or does to it (round keys computed
lazily, key material transformed in place, counters) must not show in a later call.  A line `dec(enc(B))` run as two
calls on a new object — or on two objects — never meets such state, so the real-code side of a round-trip line performs
the whole chain on one object:

    first = enc :  x = enc(B), y = dec(x), u = dec(B), v = enc(u), x' = enc(B)
    first = dec :  x = dec(B), y = enc(x), u = enc(B), v = dec(u), x' = dec(B)

The value of the line stays y (what the pure model computes, and what the round-trip predicate is about).  The rest of
the chain must agree with it: v == y (the round trip in the other order, on the used object) and x' == x (the same call
later gives the same value).  When it does not, the summary returned is y followed by `!` notes, which no model
or spec column and no predicate accepts."""
from props.common import hx


def chain(obj, block, first, sibling=None):
    """obj: the ONE cipher object of the line; sibling(): builds (and may use, or be refused) OTHER objects of the same
    class between the calls — a cipher object is a function of (key, block) whatever else is alive in the process; block(): the operand (built anew for every call, the object is what is
    shared); first: 'enc' or 'dec'.  Exceptions of the line's own two calls propagate (-> ERR, as before); an exception
    in the rest of the chain is a note (the same calls were accepted on a new object)."""
    f, g = (obj.enc, obj.dec) if first == 'enc' else (obj.dec, obj.enc)
    fn, gn = ('enc', 'dec') if first == 'enc' else ('dec', 'enc')
    def others():
        if sibling is None: return
        try: sibling()
        except Exception as e:
            if type(e).__name__ == '_Timeout': raise
    x = f(block())
    others()
    y = g(x)
    notes = []
    def later(what, call, expect=None):
        try:
            r = call()
        except Exception as e:
            notes.append('%s:raised-%s' % (what, type(e).__name__)); return None
        if expect is not None and bytes(r) != bytes(expect): notes.append('%s=%s' % (what, hx(r)))
        return r
    others()
    u = later('then-%s(B)' % gn, lambda: g(block()))
    if u is not None: later('then-%s(%s(B))' % (fn, gn), lambda: f(u), y)
    later('%s(B)-again' % fn, lambda: f(block()), x)
    return hx(y) + ''.join('!' + n for n in notes)


def notes_of(res):
    """the `!` notes of a summary string, or None"""
    if '!' not in res: return None
    return 'on ONE object: ' + ', '.join(res.split('!')[1:])


def used(obj, block, op, sibling=None):
    """C02 lines `X.enc` / `X.dec`: the object first performs the OPPOSITE operation on the same operand (result and
    exceptions ignored), then the requested one — a cipher object is a function of (key, block), so whatever the first
    call caches in or does to the object must not show in the second (cached key schedules reversed in place, spent
    iterators, flags left behind by a refused call)."""
    first = obj.dec if op == 'enc' else obj.enc
    b0 = block()
    if isinstance(b0, (bytes, bytearray)) and len(b0) > 0:
        # a refused call (operand one byte short) comes first: an exception must not leave anything behind either
        try:
            first(bytes(b0[:-1]))
        except Exception as e:
            if type(e).__name__ == '_Timeout': raise
    try:
        first(block())
    except Exception as e:
        if type(e).__name__ == '_Timeout': raise
    if sibling is not None:
        try: sibling()
        except Exception as e:
            if type(e).__name__ == '_Timeout': raise
    return (obj.enc if op == 'enc' else obj.dec)(block())
