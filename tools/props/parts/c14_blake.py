"""C14 (BLAKE / BLAKE2 part) — hashing a message piecewise gives the same digest as hashing it at once.

Ops (handled by lean/Driver/BlakeD.lean):
  blakeseq <n> <salt> <p1> … <pk>        h.initstate(salt); update(p1) … update(pk-1); update(pk,padding=True)
                                         -> digest ; bitcnt after each non-final piece
  blakeseq.trace <n> <p1> … <pk>         the counters fed to the compression function over all the calls
  blake2seq <b|s> <p1> … <pk>            the same for Blake2 (default parameters)
  blake2seq.trace <b|s> <p1> … <pk>      (byte counter, final flag) of every compression over all the calls
The driver's spec column is the one-shot Spec.Blake / Spec.Blake2 digest of p1‖…‖pk, the bit counts 8·Σ|p_i|, and the
one-shot counter / flag rule.  check_impl compares with the one-shot call of the real code itself."""
import itertools
from props.common import *

PREFIX = ('blakeseq', 'blake2seq')
LEAN_PROOFS = ['Proofs.C14_Blake']
GEN_ITEMS = ['BlakeG']
TRUSTED = ['the counter / flag trace of the real code is observed by wrapping the name `Bits` in crysp.blake']
ASSUMPTIONS = ['BLAKE2 streaming with an EMPTY final piece after data cannot equal the one-shot digest without buffering (known finding C14-blake2-empty-final)']

B2 = {'b': (512, 128), 's': (256, 64)}
def blk(n): return 128 if n > 256 else 64


def _spy(h, f):
    import crysp.blake as BL
    orig = BL.Bits
    w2 = 2 * h.wsize
    rec = []
    def spy(*a, **k):
        if len(a) == 2 and not k and a[1] == w2:
            rec.append(int(a[0]))
            if isinstance(h, BL.Blake2): rec.append(1 if h.f.ival[0] else 0)
        return orig(*a, **k)
    BL.Bits = spy
    try: f()
    finally: BL.Bits = orig
    return rec


def _stream(h, pieces):
    cnts = []
    for p in pieces[:-1]:
        h.update(p)
        cnts.append(h.padmethod.bitcnt)
    return h.update(pieces[-1], padding=True), cnts


def run_impl(line):
    import crysp.blake as BL
    t = line.split(); op, a = t[0], t[1:]
    def go():
        if op == 'blakeseq':
            ps = [unhx(x) for x in a[2:]]
            h = BL.Blake(int(a[0])); h.initstate(int(a[1]))
            d, cnts = _stream(h, ps)
            return hx(d) + ';' + il(cnts)
        if op == 'blakeseq.trace':
            ps = [unhx(x) for x in a[1:]]
            h = BL.Blake(int(a[0])); h.initstate(0)
            return il(_spy(h, lambda: _stream(h, ps)))
        if op == 'blake2seq':
            ps = [unhx(x) for x in a[1:]]
            h = BL.Blake2(B2[a[0]][0]); h.initstate()
            d, cnts = _stream(h, ps)
            return hx(d) + ';' + il(cnts)
        if op == 'blake2seq.trace':
            ps = [unhx(x) for x in a[1:]]
            h = BL.Blake2(B2[a[0]][0]); h.initstate()
            return il(_spy(h, lambda: _stream(h, ps)))
        raise RuntimeError('unknown op ' + op)
    return guarded(go)


def check_impl(line, res):
    import crysp.blake as BL
    t = line.split(); op, a = t[0], t[1:]
    bad = lambda why: '%s: %s' % (op, why)
    first = 2 if op == 'blakeseq' else 1
    ps = [unhx(x) for x in a[first:]]
    bb = blk(int(a[0])) if op.startswith('blakeseq') else B2[a[0]][1]
    aligned = all(len(p) % bb == 0 for p in ps[:-1])
    if not ps or not aligned:
        return None if res == 'ERR' else bad('a non-final piece that is not block aligned must be refused')
    if res == 'ERR': return bad('unexpected exception')
    M = b''.join(ps)
    if op in ('blakeseq', 'blake2seq'):
        one = BL.Blake(int(a[0]))(M, int(a[1])) if op == 'blakeseq' else BL.Blake2(B2[a[0]][0])(M)
        tot, exp = 0, []
        for p in ps[:-1]:
            tot += 8 * len(p); exp.append(tot)
        if res != hx(one) + ';' + il(exp): return bad('piecewise %s, one-shot %s;%s' % (res[:40], hx(one)[:24], il(exp)))
        return None
    if op == 'blake2seq.trace':
        # the final flag appears exactly once, on the last compression
        r = unil(res); flags = r[1::2]
        if not flags or flags[-1] != 1 or any(flags[:-1]): return bad('final flags %s' % flags)
    return None


def rb(rng, n): return bytes(rng.getrandbits(8) for _ in range(n))

def cut_sets(nblocks):
    """all multisets of cut points (in blocks) 0 <= p1 <= … <= pk <= nblocks with k <= 3, incl. repeated cuts = empty pieces"""
    out = [()]
    for k in (1, 2, 3):
        out += list(itertools.combinations_with_replacement(range(nblocks + 1), k))
    return out


def lines_for(kind, v, M, cuts, bb, salt=0):
    ps, p = [], 0
    for c in cuts:
        ps.append(M[p:c * bb]); p = c * bb
    ps.append(M[p:])
    toks = ' '.join(hx(x) for x in ps)
    if kind == 'blake':
        yield 'blakeseq %s %d %s' % (v, salt, toks), 'blakeseq'
        yield 'blakeseq.trace %s %s' % (v, toks), 'blakeseq.trace'
    else:
        yield 'blake2seq %s %s' % (v, toks), 'blake2seq'
        yield 'blake2seq.trace %s %s' % (v, toks), 'blake2seq.trace'


def cases(tier, rng):
    variants = [('blake', str(n), blk(n)) for n in (224, 256, 384, 512)] + [('blake2', v, B2[v][1]) for v in 'bs']
    if tier == 'search':
        while True:
            kind, v, bb = rng.choice(variants)
            nb = rng.randrange(0, 6)
            tail = rng.choice([0, 1, bb - 9, bb - 1, bb, bb + 1, rng.randrange(0, 2 * bb)])
            cuts = sorted(rng.randrange(0, nb + 1) for _ in range(rng.randrange(0, 4)))
            yield from lines_for(kind, v, rb(rng, nb * bb + tail), cuts, bb, rng.getrandbits(8))
        return
    quick = tier == 'quick'
    for kind, v, bb in variants:
        # all cut-point sets for up to 4 blocks (quick: the two-size families share code, enumerate 256/512/b/s fully, 224/384 to 2 blocks)
        full = 4 if (not quick or v in ('256', '512', 'b', 's')) else 2
        tails = (0, 1, bb - 9, bb, bb + 3) if not quick else (0, 1, bb + 3)
        for nb in range(0, full + 1):
            for cuts in cut_sets(nb):
                if quick and len(cuts) == 3 and nb > 3: continue
                for tail in tails:
                    if cuts and cuts[-1] < nb and tail != tails[1]: continue     # final piece spans blocks: one tail is enough
                    yield from lines_for(kind, v, rb(rng, nb * bb + tail), cuts, bb, rng.getrandbits(6))
        # longer messages sampled
        for _ in range(4 if quick else 60):
            nb = rng.randrange(5, 9 if quick else 17)
            cuts = sorted(rng.randrange(0, nb + 1) for _ in range(rng.randrange(1, 5)))
            yield from lines_for(kind, v, rb(rng, nb * bb + rng.randrange(0, bb + 2)), cuts, bb, rng.getrandbits(16))
        # malformed: a non-final piece that is not block aligned
        if kind == 'blake': yield 'blakeseq %s 0 x0102 x03' % v, 'malformed'
        else: yield 'blake2seq %s x0102 x03' % v, 'malformed'


def shrink(line):
    t = line.split()
    first = 3 if t[0] == 'blakeseq' else 2
    if len(t) > first + 1:
        for i in range(first, len(t) - 1):
            if t[i] == 'x': yield ' '.join(t[:i] + t[i + 1:])
