"""C14 (BLAKE / BLAKE2 part) — hashing a message piecewise gives the same digest as hashing it at once.

Ops (handled by lean/Driver/BlakeD.lean):
  blakeseq <n> <salt> <p1> … <pk>        h.initstate(salt); update(p1) … update(pk-1); update(pk,padding=True)
                                         -> digest ; bitcnt after each non-final piece
  blakeseq.trace <n> <p1> … <pk>         the counters fed to the compression function over all the calls
  blake2seq <b|s> <p1> … <pk>            the same for Blake2 (default parameters)
  blake2seq.trace <b|s> <p1> … <pk>      (byte counter, final flag) of every compression over all the calls
  blakeseq.h <n> <salt> <tok> … <tok>    a history on ONE object: tok = `init` (h.initstate(salt) again: what was fed before
                                         is abandoned) | `<hex>` (a piece) | `<hex>/<L>` (a piece given with its bit length:
                                         update(buf,bitlen=L)); the last token is the final piece
                                         -> digest ; bitcnt after every non-final token (after `init` too)
  blake2seq.h <b|s> <tok> … <tok>        the same for Blake2 (no bit lengths: its update has none)
  blakeseqs <cls0>,<cls1>,… | <k> <step> | env <name> | …
                                         SEVERAL objects alive in one line, each with a whole life (cls = 224|256|384|512 = Blake(n),
                                         b|s = Blake2, @224 … @s = the module singletons): steps new | init [k=v …] | upd <hex> [L] |
                                         fin <hex> [L] | call <hex> [k=v …]; a keyword that is not written is not passed (`init` =
                                         h.initstate()); `env <name>` = library activity on no object of the line (hashcommon.env_step)
                                         -> per step `-` | c<bitcnt> | digest | ERR.  The Lean objects are values in a list
                                         (Model.Multi): there siblings cannot interfere and `init` cannot remember BY CONSTRUCTION;
                                         the lines test whether the Python objects are as independent.
The driver's spec column is the one-shot Spec.Blake / Spec.Blake2 digest of p1‖…‖pk, the bit counts 8·Σ|p_i|, and the
one-shot counter / flag rule.  check_impl compares with the one-shot call of the real code itself."""
import itertools
from props.common import *
from props import hashcommon as HC

PREFIX = ('blakeseq', 'blake2seq')
LEAN_PROOFS = ['Proofs.C14_Blake']
GEN_ITEMS = ['BlakeG']
RULE = ('`blakeseqs <classes> | <k> step | env <name>`: whole lives of ONE object before the piecewise run — complete one-shot calls with each '
        'optional parameter (BLAKE: s, bitlen; BLAKE2: outlen, salt, pers, tree parameters), refused calls, finished / abandoned / refused '
        'salted streams, several in a row — then initstate() with NO keyword (the defaults of the method) or with a keyword, and the '
        'stream compared with the one-shot call of a fresh object with just those keywords; SEVERAL objects alive in one line (same class, '
        'the other digest size of the same word size, BLAKE2 of the same block size, the module singletons blake224 … blake2s) initialised '
        'with another salt, fed, called, finished or refused between two pieces; two and three streams interleaved piece by piece; library '
        'activity (SHA-2 / HMAC / other Blake objects and singletons) between two pieces.  The Lean objects are values in a list (Model.Multi): '
        'no interference and no memory across initstate by construction there; the lines test the Python objects')
TRUSTED = ['the counter / flag trace of the real code is observed by wrapping the name `Bits` in crysp.blake']
ASSUMPTIONS = ['BLAKE2 streaming with an EMPTY final piece after data cannot equal the one-shot digest without buffering (known finding C14-blake2-empty-final)']

B2 = {'b': (512, 128), 's': (256, 64)}
def blk(n): return 128 if n > 256 else 64


def _spy(h, f):
    import crysp.blake as BL
    orig = BL.Bits
    w2 = 2 * h.wsize
    rec = []
    def spy(*a, **k):
        if len(a) == 2 and not k and a[1] == w2:
            rec.append(int(a[0]))
            if isinstance(h, BL.Blake2): rec.append(1 if h.f.ival[0] else 0)
        return orig(*a, **k)
    BL.Bits = spy
    try: f()
    finally: BL.Bits = orig
    return rec


def _stream(h, pieces):
    cnts = []
    for p in pieces[:-1]:
        h.update(p)
        cnts.append(h.padmethod.bitcnt)
    return h.update(pieces[-1], padding=True), cnts


def tok_of(t):
    """'init' or (buffer, bit length or None)"""
    if t == 'init': return 'init'
    x, _, l = t.partition('/')
    return unhx(x), (int(l) if l else None)


def _history(h, init, toks, with_bitlen):
    cnts = []
    upd = (lambda p, L, **k: h.update(p, bitlen=L, **k)) if with_bitlen else (lambda p, L, **k: h.update(p, **k))
    for t in toks[:-1]:
        if t == 'init': init()
        else: upd(t[0], t[1])
        cnts.append(h.padmethod.bitcnt)
    p, L = toks[-1]
    return upd(p, L, padding=True), cnts


def hist_expect(toks, blockbits):
    """(message bytes, its bit length, bit counts after every non-final token) the property prescribes, None if a step has to
    be refused"""
    msg, bits, cnts = b'', 0, []
    if not toks or toks[-1] == 'init': return None
    for t in toks[:-1]:
        if t == 'init': msg, bits = b'', 0
        else:
            p, L = t; L = 8 * len(p) if L is None else L
            if L > 8 * len(p) or L % blockbits: return None
            msg += p[:L // 8]; bits += L
        cnts.append(bits)
    p, L = toks[-1]; L = 8 * len(p) if L is None else L
    if L > 8 * len(p): return None
    return msg + p[:(L + 7) // 8], bits + L, cnts


def mkobj(cls):
    import crysp.blake as BL
    if cls[0] == '@': return getattr(BL, 'blake2' + cls[1:] if cls[1:] in B2 else 'blake' + cls[1:])
    return BL.Blake2(B2[cls][0]) if cls in B2 else BL.Blake(int(cls))


def kw_of(toks):
    """k=v tokens -> keyword arguments handed to the real code (hex tokens = bytes, else int)"""
    return {k: (unhx(v) if v[:1] == 'x' else int(v)) for k, v in (t.split('=') for t in toks)}


def parse_multi(line):
    steps = HC.split_bar(line.split()[1:])
    return steps[0][0].split(','), [(None, st) if st[0] == 'env' else (int(st[0]), st[1:]) for st in steps[1:]]


def run_multi(a):
    steps = HC.split_bar(a)
    clss = steps[0][0].split(',')
    objs, out = {}, []
    for st in steps[1:]:
        if st[0] == 'env':
            HC.env_step(st[1]); out.append('-'); continue
        k, st = int(st[0]), st[1:]
        if st[0] == 'new':
            objs[k] = mkobj(clss[k]); out.append('-'); continue
        h = objs[k]
        def cnt(f):
            f(); return 'c%d' % h.padmethod.bitcnt
        bl = lambda: ({'bitlen': int(st[2])} if len(st) > 2 else {})
        if st[0] == 'init': r = guarded(lambda: cnt(lambda: h.initstate(**kw_of(st[1:]))))
        elif st[0] == 'upd': r = guarded(lambda: cnt(lambda: h.update(unhx(st[1]), **bl())))
        elif st[0] == 'fin': r = guarded(lambda: hx(h.update(unhx(st[1]), padding=True, **bl())))
        elif st[0] == 'call': r = guarded(lambda: hx(h(unhx(st[1]), **kw_of(st[2:]))))
        else: raise RuntimeError('bad step %r' % st)
        out.append(r)
    return ';'.join(out)


def check_multi(line, res):
    """every object's stream alone: the pieces fed since ITS last init, finished, give the one-shot call of a FRESH object of
    its class with the keywords of that init (none given = the defaults), the bit counter after init is 0 and after every
    piece the number of bits fed since; a complete call on a used object gives what it gives on a fresh one — whatever the
    object did before that init and whatever other objects / the library did between its steps"""
    import crysp.blake as BL
    clss, steps = parse_multi(line)
    outs = res.split(';')
    if len(outs) != len(steps): return 'blakeseqs: %d results for %d steps' % (len(outs), len(steps))
    fresh = lambda c: BL.Blake2(B2[c][0]) if c in B2 else BL.Blake(int(c))
    streams, lives = {}, {}
    for (k, st), o in zip(steps, outs):
        if k is None: continue
        cls = clss[k].lstrip('@'); two = cls in B2
        bb = B2[cls][1] if two else blk(int(cls))
        lives.setdefault(k, []).append(st[0] + (' ' + ' '.join(st[1:]) if st[0] == 'init' else ' ' + ' '.join(st[2:]) if st[0] == 'call' and len(st) > 2 else ''))
        bad = lambda why: 'blakeseqs object %d (%s) of %s, its steps: %s; interleaved as %s: %s' % (
            k, clss[k], ','.join(clss), ' | '.join(lives[k]), ' '.join('e' if j is None else str(j) for j, _ in steps), why)
        if st[0] == 'new': streams[k] = None
        elif st[0] == 'init':
            kw = kw_of(st[1:])
            if two and not 1 <= kw.get('outlen', B2[cls][0] // 8) <= B2[cls][0] // 8:
                streams[k] = None
                if o != 'ERR': return bad('a digest length out of range must be refused')
                continue
            streams[k] = (b'', 0, kw)
            if o != 'c0': return bad('%s right after initstate(%s)' % (o, ' '.join(st[1:])))
        elif st[0] == 'call':
            streams[k] = None
            one = guarded(lambda: hx(fresh(cls)(unhx(st[1]), **kw_of(st[2:]))))
            if o != one: return bad('the call gives %s, on a fresh object %s' % (o[:24], one[:24]))
        elif streams.get(k) is None:
            continue                                            # a step on a stream that is not open: not this predicate
        else:
            msg, bits, kw = streams[k]
            p = unhx(st[1]); L = int(st[2]) if len(st) > 2 else 8 * len(p)
            refused = L > 8 * len(p) or (two and len(st) > 2) or (st[0] == 'upd' and L % (8 * bb))
            if refused:
                streams[k] = None
                if o != 'ERR': return bad('a piece that must be refused was accepted')
            elif st[0] == 'upd':
                streams[k] = (msg + p[:L // 8], bits + L, kw)
                if o != 'c%d' % (bits + L): return bad('%s after %d bits' % (o, bits + L))
            else:
                streams[k] = None
                if two and not p and msg: continue              # BLAKE2, empty final piece after data: known finding
                M, total = msg + p[:(L + 7) // 8], bits + L
                ckw = dict(kw)
                if not two:
                    ckw = {'s': kw['salt']} if 'salt' in kw else {}
                    if total % 8: ckw['bitlen'] = total
                one = guarded(lambda: hx(fresh(cls)(M, **ckw)))
                if o != one: return bad('the stream gives %s, the one-shot call %s(M%s) on a fresh object %s' % (o[:24], cls, ''.join(', %s=%s' % kv for kv in ckw.items()), one[:24]))
    return None


def run_impl(line):
    import crysp.blake as BL
    t = line.split(); op, a = t[0], t[1:]
    if op == 'blakeseqs': return run_multi(a)
    def go():
        if op == 'blakeseq.h':
            h = BL.Blake(int(a[0])); salt = int(a[1]); h.initstate(salt)
            d, cnts = _history(h, lambda: h.initstate(salt), [tok_of(x) for x in a[2:]], True)
            return hx(d) + ';' + il(cnts)
        if op == 'blake2seq.h':
            h = BL.Blake2(B2[a[0]][0]); h.initstate()
            d, cnts = _history(h, lambda: h.initstate(), [tok_of(x) for x in a[1:]], False)
            return hx(d) + ';' + il(cnts)
        if op == 'blakeseq':
            ps = [unhx(x) for x in a[2:]]
            h = BL.Blake(int(a[0])); h.initstate(int(a[1]))
            d, cnts = _stream(h, ps)
            return hx(d) + ';' + il(cnts)
        if op == 'blakeseq.trace':
            ps = [unhx(x) for x in a[1:]]
            h = BL.Blake(int(a[0])); h.initstate(0)
            return il(_spy(h, lambda: _stream(h, ps)))
        if op == 'blake2seq':
            ps = [unhx(x) for x in a[1:]]
            h = BL.Blake2(B2[a[0]][0]); h.initstate()
            d, cnts = _stream(h, ps)
            return hx(d) + ';' + il(cnts)
        if op == 'blake2seq.trace':
            ps = [unhx(x) for x in a[1:]]
            h = BL.Blake2(B2[a[0]][0]); h.initstate()
            return il(_spy(h, lambda: _stream(h, ps)))
        raise RuntimeError('unknown op ' + op)
    return guarded(go)


def check_hist(op, a, res):
    """the run after the last `init` equals the one-shot call of a FRESH object on the concatenation of the first L bits of
    every piece; the bit counter after every non-final step is the number of bits fed since the last init (0 right after it)"""
    import crysp.blake as BL
    toks = [tok_of(x) for x in (a[2:] if op == 'blakeseq.h' else a[1:])]
    bb = blk(int(a[0])) if op == 'blakeseq.h' else B2[a[0]][1]
    bad = lambda why: '%s %s tokens %s: %s' % (op, a[0], ['init' if t == 'init' else '%d/%s' % (8 * len(t[0]), t[1]) for t in toks], why)
    exp = hist_expect(toks, 8 * bb)
    if exp is None or (op == 'blake2seq.h' and any(t != 'init' and t[1] is not None for t in toks)):
        return None if res == 'ERR' else bad('a piece that is not whole blocks / a bit length beyond the buffer must be refused')
    if res == 'ERR': return bad('unexpected exception')
    M, total, cnts = exp
    if op == 'blakeseq.h':
        one = BL.Blake(int(a[0]))(M[:total // 8], int(a[1])) if total % 8 == 0 else BL.Blake(int(a[0]))(M, int(a[1]), bitlen=total)
    else:
        one = BL.Blake2(B2[a[0]][0])(M)
    if res != hx(one) + ';' + il(cnts): return bad('history gives %s, one-shot on a fresh object %s;%s' % (res[:60], hx(one)[:24], il(cnts)))
    return None


def check_impl(line, res):
    import crysp.blake as BL
    t = line.split(); op, a = t[0], t[1:]
    if op == 'blakeseqs': return check_multi(line, res)
    if op in ('blakeseq.h', 'blake2seq.h'): return check_hist(op, a, res)
    bad = lambda why: '%s: %s' % (op, why)
    first = 2 if op == 'blakeseq' else 1
    ps = [unhx(x) for x in a[first:]]
    bb = blk(int(a[0])) if op.startswith('blakeseq') else B2[a[0]][1]
    aligned = all(len(p) % bb == 0 for p in ps[:-1])
    if not ps or not aligned:
        return None if res == 'ERR' else bad('a non-final piece that is not block aligned must be refused')
    if res == 'ERR': return bad('unexpected exception')
    M = b''.join(ps)
    if op in ('blakeseq', 'blake2seq'):
        one = BL.Blake(int(a[0]))(M, int(a[1])) if op == 'blakeseq' else BL.Blake2(B2[a[0]][0])(M)
        tot, exp = 0, []
        for p in ps[:-1]:
            tot += 8 * len(p); exp.append(tot)
        if res != hx(one) + ';' + il(exp): return bad('piecewise %s, one-shot %s;%s' % (res[:40], hx(one)[:24], il(exp)))
        return None
    if op == 'blake2seq.trace':
        # the final flag appears exactly once, on the last compression
        r = unil(res); flags = r[1::2]
        if not flags or flags[-1] != 1 or any(flags[:-1]): return bad('final flags %s' % flags)
    return None


def rb(rng, n): return bytes(rng.getrandbits(8) for _ in range(n))

def cut_sets(nblocks):
    """all multisets of cut points (in blocks) 0 <= p1 <= … <= pk <= nblocks with k <= 3, incl. repeated cuts = empty pieces"""
    out = [()]
    for k in (1, 2, 3):
        out += list(itertools.combinations_with_replacement(range(nblocks + 1), k))
    return out


def lines_for(kind, v, M, cuts, bb, salt=0):
    ps, p = [], 0
    for c in cuts:
        ps.append(M[p:c * bb]); p = c * bb
    ps.append(M[p:])
    toks = ' '.join(hx(x) for x in ps)
    if kind == 'blake':
        yield 'blakeseq %s %d %s' % (v, salt, toks), 'blakeseq'
        yield 'blakeseq.trace %s %s' % (v, toks), 'blakeseq.trace'
    else:
        yield 'blake2seq %s %s' % (v, toks), 'blake2seq'
        yield 'blake2seq.trace %s %s' % (v, toks), 'blake2seq.trace'


def hist_lines(kind, v, bb, rng, quick):
    """pieces with explicit bit lengths (BLAKE), abandoned streams + init (BLAKE and BLAKE2)"""
    T = lambda p, L=None: hx(p) + ('' if L is None else '/%d' % L)
    head = ('blakeseq.h %s %d ' % (v, rng.getrandbits(6))) if kind == 'blake' else 'blake2seq.h %s ' % v
    tag = 'blakeseq.h' if kind == 'blake' else 'blake2seq.h'
    if kind == 'blake':
        # one reused buffer of 1-2 blocks, every piece = whole buffer + valid bits (0 bits of a non-empty buffer at the end / on an empty read)
        for n in (((0, bb - 1, bb, bb + 5, 2 * bb) if v in ('256', '512') else (0, bb, bb + 5)) if quick else (0, 1, bb - 9, bb - 1, bb, bb + 5, 2 * bb, 3 * bb - 1, 4 * bb)):
            M = rb(rng, n)
            for bufblocks in (1, 2):
                for stall in (None, 0, 1):
                    buf = bytearray(rb(rng, bufblocks * bb)); toks, pos, reads = [], 0, 0
                    while True:
                        if reads == stall: k, last = 0, False
                        else:
                            chunk = M[pos:pos + len(buf)]; k = len(chunk); buf[:k] = chunk; pos += k; last = k < len(buf)
                        reads += 1
                        toks.append(T(buf, 8 * k))
                        if last: break
                    yield head + ' '.join(toks), tag + ':readinto buffer'
        b1, b2, junk, t = rb(rng, bb), rb(rng, 2 * bb), rb(rng, 5), rb(rng, 7)
        for toks in ([T(t, 0)], [T(b1, 0), T(t)], [T(b1), T(t, 0)], [T(b1), T(b2, 0), T(b1 + junk, 0)], [T(b1), T(junk, 0), T(b2), T(t, 3)],
                     [T(b1 + junk, 8 * bb), T(t)], [T(b2 + b1, 8 * bb), T(b2, 16 * bb), T(b2 + t, 8 * bb)], [T(b1), T(b2 + junk, 16 * bb)],
                     [T(b2, 16 * bb), T(b1, 8 * (bb - 9) - 3)]):
            yield head + ' '.join(toks), tag + ':bitlen'
        # refused: not whole blocks, beyond the buffer
        yield head + ' '.join([T(b1, 8), T(t)]), tag + ':refused'
        yield head + ' '.join([T(b1, 8 * bb + 8), T(t)]), tag + ':refused'
        yield head + ' '.join([T(b1), T(t, 57)]), tag + ':refused'
    # histories: k blocks fed and abandoned (or a refused step), init, then a complete piecewise run
    for k in (1, 2, 3):
        for bi, before in enumerate(([rb(rng, k * bb)], [rb(rng, bb) for _ in range(k)])):
            if quick and (bi == 1) != (k == 2): continue
            for tail in ((0, 11) if quick else (0, 1, 11, bb - 9)):
                M = rb(rng, 2 * bb + tail)
                for cuts in (((), (1,), (1, 2), (0, 1, 1)) if quick and v in ('256', '512', 'b', 's') else ((), (1, 2)) if quick else ((), (1,), (2,), (1, 2), (0, 1, 1))):
                    if kind == 'blake2' and tail == 0 and cuts and cuts[-1] == 2: continue    # empty final piece after data: known finding
                    ps, p = [], 0
                    for c in cuts:
                        ps.append(M[p:c * bb]); p = c * bb
                    ps.append(M[p:])
                    yield head + ' '.join([T(x) for x in before] + ['init'] + [T(x) for x in ps]), tag + ':abandoned stream, init, stream'
    yield head + 'init init ' + T(rb(rng, 3)), tag + ':abandoned stream, init, stream'
    yield head + T(rb(rng, bb)) + ' init', tag + ':refused'


# ---- whole lives and several objects (blakeseqs) ----------------------------------------------------------------------------------
def bbytes(cls): c = cls.lstrip('@'); return B2[c][1] if c in B2 else blk(int(c))
def is2(cls): return cls.lstrip('@') in B2


def bstream(cls, rng, nb, tail, init='init', shape=None):
    """a complete stream as step strings: init, nb one-block pieces (shape: one empty piece / a double piece), the final piece
    (BLAKE2: never an empty final piece after data — known finding)"""
    bb = bbytes(cls)
    if is2(cls) and nb and not tail: tail = 1
    M = rb(rng, nb * bb + tail)
    cuts = list(range(1, nb + 1))
    if shape == 'empty' and cuts: cuts.append(rng.choice(cuts)); cuts.sort()
    if shape == 'double' and len(cuts) > 1: del cuts[rng.randrange(len(cuts) - 1)]
    ps, p = [], 0
    for c in cuts:
        ps.append(M[p:c * bb]); p = c * bb
    return [init] + ['upd ' + hx(x) for x in ps] + ['fin ' + hx(M[p:])]


def weave(rng, lists):
    pos = [0] * len(lists); out = []
    while True:
        live = [k for k, l in enumerate(lists) if pos[k] < len(l)]
        if not live: return out
        k = rng.choice(live); out.append((k, lists[k][pos[k]])); pos[k] += 1


def mline(clss, steps):
    return 'blakeseqs %s | %s' % (','.join(clss), ' | '.join(st if k is None else '%d %s' % (k, st) for k, st in steps))


def lives_of(cls, rng):
    """earlier lives of an object, each using an optional parameter the class offers: complete one-shot calls (salted / with a
    bit length / refused), finished, abandoned and refused streams -> [(tag, steps)]"""
    bb = bbytes(cls); m, t, B = rb(rng, bb + 9), rb(rng, 3), rb(rng, bb)
    if not is2(cls):
        X, Y = rng.getrandbits(4 * (64 if bb == 128 else 32)) | 1, rng.getrandbits(40) | 1
        return [('salted call', ['call %s s=%d' % (hx(m), X)]),
                ('salted stream, finished', ['init salt=%d' % X, 'upd ' + hx(B), 'fin ' + hx(t)]),
                ('salted stream, abandoned', ['init salt=%d' % Y, 'upd ' + hx(B)]),
                ('call with a bit length', ['call %s bitlen=%d' % (hx(m), 8 * bb + 13)]),
                ('refused salted call', ['call %s s=%d bitlen=%d' % (hx(m), X, 8 * len(m) + 8)]),
                ('salted call, salted stream, refused piece', ['call %s s=%d' % (hx(t), Y), 'init salt=%d' % X, 'upd ' + hx(B), 'upd x0102']),
                ('step refused after the final one', ['init salt=%d' % X, 'fin ' + hx(t), 'upd ' + hx(B)])]
    l = bb // 8
    return [('call with outlen', ['call %s outlen=5' % hx(m)]),
            ('call with salt and pers', ['call %s salt=%s pers=%s' % (hx(m), hx(rb(rng, l)), hx(rb(rng, l)))]),
            ('refused call (outlen 0)', ['call %s outlen=0' % hx(m)]),
            ('call with tree parameters', ['call %s fanout=2 depth=3 leafl=%d noffset=%d ndepth=1 inner=%d outlen=%d' % (hx(m), rng.getrandbits(32), rng.getrandbits(40), l, l)]),
            ('stream with outlen, finished', ['init outlen=9', 'upd ' + hx(B), 'fin ' + hx(t)]),
            ('salted stream, abandoned', ['init salt=%s outlen=3' % hx(rb(rng, l)), 'upd ' + hx(B)]),
            ('step refused after the final one', ['init pers=%s' % hx(rb(rng, l)), 'fin ' + hx(t), 'upd ' + hx(B)])]


def life_lines(cls, rng, quick):
    """ONE object: an earlier life, then initstate() — no keyword, so the defaults of the method — or initstate(k=v) and a
    complete piecewise run, compared with the one-shot call of a fresh object with just those keywords"""
    bb = bbytes(cls)
    small = quick and cls in ('224', '384')
    for li, (tag, life) in enumerate(lives_of(cls, rng)):
        inits = ['init'] + ([] if small or (quick and li > 2) else ['init outlen=7' if is2(cls) else 'init salt=%d' % (rng.getrandbits(30) | 1)])
        for init in inits:
            for nb, shape in (((1, None),) if small or (quick and li > 1) else ((0, None), (2, None)) if quick else ((0, None), (1, None), (2, None), (2, 'empty'), (3, 'double'))):
                yield mline([cls], [(0, 'new')] + [(0, x) for x in life + bstream(cls, rng, nb, rng.choice([0, 3, bb - 9]), init, shape)]), 'blakeseqs:life (%s), init, stream' % tag
    # several lives in a row
    ls = lives_of(cls, rng); rng.shuffle(ls)
    yield mline([cls], [(0, 'new')] + [(0, x) for _, life in ls[:4] for x in life] + [(0, x) for x in bstream(cls, rng, 1, 5)]), 'blakeseqs:several lives, init, stream'


PAIRS = [('256', '256'), ('256', '224'), ('512', '384'), ('512', '512'), ('224', '224'), ('384', '512'), ('b', 'b'), ('s', 's'), ('b', 's'),
         ('@b', '@s'), ('@256', '@224'), ('@512', '@384'), ('@b', 'b'), ('@256', '256'), ('256', 's'), ('512', 'b')]


def salted(cls, rng):
    return 'init' if rng.randrange(3) == 0 else 'init salt=%s' % hx(rb(rng, bbytes(cls) // 8)) if is2(cls) else 'init salt=%d' % (rng.getrandbits(64) | 1)


def sibling_lines(rng, quick):
    """a SECOND object (same class / the other digest size of the same word size / a singleton / the BLAKE2 of the same block
    size) is constructed, initialised (with another salt), fed, called, finished or refused BETWEEN two pieces of a stream;
    two and three complete streams interleaved piece by piece; library activity on no object of the line"""
    for A, Bn in PAIRS:
        cl = [A, Bn]
        a = bstream(A, rng, 2, 3, salted(A, rng)); b = bstream(Bn, rng, 2, 5, salted(Bn, rng))
        mB = hx(rb(rng, bbytes(Bn) + 7))
        kwB = ('outlen=11' if is2(Bn) else 's=%d' % (rng.getrandbits(50) | 1))
        N = [(0, 'new'), (1, 'new')]
        yield mline(cl, N + [(0, a[0]), (0, a[1]), (1, b[0]), (0, a[2]), (0, a[3])]), 'blakeseqs:sibling initialised between two pieces'
        yield mline(cl, N + [(0, a[0]), (1, b[0]), (0, a[1]), (1, b[1]), (0, a[2]), (1, b[2]), (0, a[3]), (1, b[3])]), 'blakeseqs:two streams piece by piece'
        yield mline(cl, N + [(0, a[0]), (0, a[1]), (1, 'call %s %s' % (mB, kwB)), (0, a[2]), (1, 'call ' + mB), (0, a[3])]), 'blakeseqs:sibling called between two pieces'
        yield mline(cl, N + [(1, b[0]), (0, a[0]), (0, a[1]), (1, 'fin ' + mB), (0, a[2]), (1, 'upd ' + mB), (0, a[3])]), 'blakeseqs:sibling finished / refused between two pieces'
        for _ in range(2 if quick else 12):
            la = bstream(A, rng, rng.randrange(1, 4), rng.randrange(0, 9), salted(A, rng), rng.choice([None, 'empty', 'double']))
            lb = rng.choice([[], bstream(Bn, rng, 1, 2, salted(Bn, rng))[:2]]) + bstream(Bn, rng, rng.randrange(1, 4), rng.randrange(0, 9), salted(Bn, rng))
            yield mline(cl, N + weave(rng, [la, lb])), 'blakeseqs:two streams, random interleaving'
    for cl in [('256', '224', 's'), ('512', '384', 'b'), ('@256', '256', '@s')] + ([] if quick else [tuple(rng.choice(['224', '256', '384', '512', 'b', 's']) for _ in range(3)) for _ in range(20)]):
        yield mline(cl, [(k, 'new') for k in range(3)] + weave(rng, [bstream(c, rng, rng.randrange(1, 3), rng.randrange(0, 9), salted(c, rng)) for c in cl])), 'blakeseqs:three streams, random interleaving'
    for cls in ('224', '256', '384', '512', 'b', 's'):
        a = bstream(cls, rng, 2, 3, salted(cls, rng))
        n = 512 if bbytes(cls) == 128 else 256
        envs = ['blake:%d' % n, 'blake.s:%d' % n, 'blake2:%d' % n, 'hash:sha%d' % n, 'feed:sha%d' % (384 if n == 512 else 224), 'hmac:sha%d' % n]
        for e in envs if not quick else rng.sample(envs, 3):
            yield mline([cls], [(0, 'new'), (0, a[0]), (0, a[1]), (None, 'env ' + e), (0, a[2]), (0, a[3])]), 'blakeseqs:library activity between two pieces'


def cases(tier, rng):
    variants = [('blake', str(n), blk(n)) for n in (224, 256, 384, 512)] + [('blake2', v, B2[v][1]) for v in 'bs']
    if tier == 'search':
        while True:
            kind, v, bb = rng.choice(variants)
            if rng.randrange(3) == 0:
                yield rng.choice(list(hist_lines(kind, v, bb, rng, True)))
                continue
            if rng.randrange(3) == 0:
                A = v; Bn = rng.choice([x for x in ('224', '256', '384', '512', 'b', 's') if bbytes(x) == bb])
                life = rng.choice(lives_of(A, rng))[1] if rng.randrange(2) else []
                la = ['new'] + life + bstream(A, rng, rng.randrange(0, 4), rng.randrange(0, bb), rng.choice(['init', salted(A, rng)]))
                lb = ['new'] + bstream(Bn, rng, rng.randrange(0, 3), rng.randrange(0, 9), salted(Bn, rng))
                yield mline([A, Bn], weave(rng, [la, lb])), 'search'
                continue
            nb = rng.randrange(0, 6)
            tail = rng.choice([0, 1, bb - 9, bb - 1, bb, bb + 1, rng.randrange(0, 2 * bb)])
            cuts = sorted(rng.randrange(0, nb + 1) for _ in range(rng.randrange(0, 4)))
            yield from lines_for(kind, v, rb(rng, nb * bb + tail), cuts, bb, rng.getrandbits(8))
        return
    quick = tier == 'quick'
    for kind, v, bb in variants:
        # all cut-point sets for up to 4 blocks (quick: the two-size families share code, enumerate 256/512/b/s fully, 224/384 to 2 blocks)
        full = 4 if (not quick or v in ('256', '512', 'b', 's')) else 2
        tails = (0, 1, bb - 9, bb, bb + 3) if not quick else (0, 1, bb + 3)
        for nb in range(0, full + 1):
            for cuts in cut_sets(nb):
                if quick and len(cuts) == 3 and nb > 3: continue
                for tail in tails:
                    if cuts and cuts[-1] < nb and tail != tails[1]: continue     # final piece spans blocks: one tail is enough
                    yield from lines_for(kind, v, rb(rng, nb * bb + tail), cuts, bb, rng.getrandbits(6))
        # longer messages sampled
        for _ in range(4 if quick else 60):
            nb = rng.randrange(5, 9 if quick else 17)
            cuts = sorted(rng.randrange(0, nb + 1) for _ in range(rng.randrange(1, 5)))
            yield from lines_for(kind, v, rb(rng, nb * bb + rng.randrange(0, bb + 2)), cuts, bb, rng.getrandbits(16))
        yield from hist_lines(kind, v, bb, rng, quick)
        yield from life_lines(v, rng, quick)
        # malformed: a non-final piece that is not block aligned
        if kind == 'blake': yield 'blakeseq %s 0 x0102 x03' % v, 'malformed'
        else: yield 'blake2seq %s x0102 x03' % v, 'malformed'
    yield from sibling_lines(rng, quick)


def shrink(line):
    t = line.split()
    if t[0] == 'blakeseqs':
        clss, steps = parse_multi(line)
        for i in range(len(steps)):
            if steps[i][1] != ['new']:
                yield mline(clss, [(k, ' '.join(st)) for k, st in steps[:i] + steps[i + 1:]])
        return
    if t[0] in ('blakeseq.h', 'blake2seq.h'):
        first = 3 if t[0] == 'blakeseq.h' else 2
        for i in range(first, len(t) - 1): yield ' '.join(t[:i] + t[i + 1:])
        return
    first = 3 if t[0] == 'blakeseq' else 2
    if len(t) > first + 1:
        for i in range(first, len(t) - 1):
            if t[i] == 'x': yield ' '.join(t[:i] + t[i + 1:])
