"""C14 (BLAKE / BLAKE2 part) — hashing a message piecewise gives the same digest as hashing it at once.

Ops (handled by lean/Driver/BlakeD.lean):
  blakeseq <n> <salt> <p1> … <pk>        h.initstate(salt); update(p1) … update(pk-1); update(pk,padding=True)
                                         -> digest ; bitcnt after each non-final piece
  blakeseq.trace <n> <p1> … <pk>         the counters fed to the compression function over all the calls
  blake2seq <b|s> <p1> … <pk>            the same for Blake2 (default parameters)
  blake2seq.trace <b|s> <p1> … <pk>      (byte counter, final flag) of every compression over all the calls
  blakeseq.h <n> <salt> <tok> … <tok>    a history on ONE object: tok = `init` (h.initstate(salt) again: what was fed before
                                         is abandoned) | `<hex>` (a piece) | `<hex>/<L>` (a piece given with its bit length:
                                         update(buf,bitlen=L)); the last token is the final piece
                                         -> digest ; bitcnt after every non-final token (after `init` too)
  blake2seq.h <b|s> <tok> … <tok>        the same for Blake2 (no bit lengths: its update has none)
The driver's spec column is the one-shot Spec.Blake / Spec.Blake2 digest of p1‖…‖pk, the bit counts 8·Σ|p_i|, and the
one-shot counter / flag rule.  check_impl compares with the one-shot call of the real code itself."""
import itertools
from props.common import *

PREFIX = ('blakeseq', 'blake2seq')
LEAN_PROOFS = ['Proofs.C14_Blake']
GEN_ITEMS = ['BlakeG']
TRUSTED = ['the counter / flag trace of the real code is observed by wrapping the name `Bits` in crysp.blake']
ASSUMPTIONS = ['BLAKE2 streaming with an EMPTY final piece after data cannot equal the one-shot digest without buffering (known finding C14-blake2-empty-final)']

B2 = {'b': (512, 128), 's': (256, 64)}
def blk(n): return 128 if n > 256 else 64


def _spy(h, f):
    import crysp.blake as BL
    orig = BL.Bits
    w2 = 2 * h.wsize
    rec = []
    def spy(*a, **k):
        if len(a) == 2 and not k and a[1] == w2:
            rec.append(int(a[0]))
            if isinstance(h, BL.Blake2): rec.append(1 if h.f.ival[0] else 0)
        return orig(*a, **k)
    BL.Bits = spy
    try: f()
    finally: BL.Bits = orig
    return rec


def _stream(h, pieces):
    cnts = []
    for p in pieces[:-1]:
        h.update(p)
        cnts.append(h.padmethod.bitcnt)
    return h.update(pieces[-1], padding=True), cnts


def tok_of(t):
    """'init' or (buffer, bit length or None)"""
    if t == 'init': return 'init'
    x, _, l = t.partition('/')
    return unhx(x), (int(l) if l else None)


def _history(h, init, toks, with_bitlen):
    cnts = []
    upd = (lambda p, L, **k: h.update(p, bitlen=L, **k)) if with_bitlen else (lambda p, L, **k: h.update(p, **k))
    for t in toks[:-1]:
        if t == 'init': init()
        else: upd(t[0], t[1])
        cnts.append(h.padmethod.bitcnt)
    p, L = toks[-1]
    return upd(p, L, padding=True), cnts


def hist_expect(toks, blockbits):
    """(message bytes, its bit length, bit counts after every non-final token) the property prescribes, None if a step has to
    be refused"""
    msg, bits, cnts = b'', 0, []
    if not toks or toks[-1] == 'init': return None
    for t in toks[:-1]:
        if t == 'init': msg, bits = b'', 0
        else:
            p, L = t; L = 8 * len(p) if L is None else L
            if L > 8 * len(p) or L % blockbits: return None
            msg += p[:L // 8]; bits += L
        cnts.append(bits)
    p, L = toks[-1]; L = 8 * len(p) if L is None else L
    if L > 8 * len(p): return None
    return msg + p[:(L + 7) // 8], bits + L, cnts


def run_impl(line):
    import crysp.blake as BL
    t = line.split(); op, a = t[0], t[1:]
    def go():
        if op == 'blakeseq.h':
            h = BL.Blake(int(a[0])); salt = int(a[1]); h.initstate(salt)
            d, cnts = _history(h, lambda: h.initstate(salt), [tok_of(x) for x in a[2:]], True)
            return hx(d) + ';' + il(cnts)
        if op == 'blake2seq.h':
            h = BL.Blake2(B2[a[0]][0]); h.initstate()
            d, cnts = _history(h, lambda: h.initstate(), [tok_of(x) for x in a[1:]], False)
            return hx(d) + ';' + il(cnts)
        if op == 'blakeseq':
            ps = [unhx(x) for x in a[2:]]
            h = BL.Blake(int(a[0])); h.initstate(int(a[1]))
            d, cnts = _stream(h, ps)
            return hx(d) + ';' + il(cnts)
        if op == 'blakeseq.trace':
            ps = [unhx(x) for x in a[1:]]
            h = BL.Blake(int(a[0])); h.initstate(0)
            return il(_spy(h, lambda: _stream(h, ps)))
        if op == 'blake2seq':
            ps = [unhx(x) for x in a[1:]]
            h = BL.Blake2(B2[a[0]][0]); h.initstate()
            d, cnts = _stream(h, ps)
            return hx(d) + ';' + il(cnts)
        if op == 'blake2seq.trace':
            ps = [unhx(x) for x in a[1:]]
            h = BL.Blake2(B2[a[0]][0]); h.initstate()
            return il(_spy(h, lambda: _stream(h, ps)))
        raise RuntimeError('unknown op ' + op)
    return guarded(go)


def check_hist(op, a, res):
    """the run after the last `init` equals the one-shot call of a FRESH object on the concatenation of the first L bits of
    every piece; the bit counter after every non-final step is the number of bits fed since the last init (0 right after it)"""
    import crysp.blake as BL
    toks = [tok_of(x) for x in (a[2:] if op == 'blakeseq.h' else a[1:])]
    bb = blk(int(a[0])) if op == 'blakeseq.h' else B2[a[0]][1]
    bad = lambda why: '%s %s tokens %s: %s' % (op, a[0], ['init' if t == 'init' else '%d/%s' % (8 * len(t[0]), t[1]) for t in toks], why)
    exp = hist_expect(toks, 8 * bb)
    if exp is None or (op == 'blake2seq.h' and any(t != 'init' and t[1] is not None for t in toks)):
        return None if res == 'ERR' else bad('a piece that is not whole blocks / a bit length beyond the buffer must be refused')
    if res == 'ERR': return bad('unexpected exception')
    M, total, cnts = exp
    if op == 'blakeseq.h':
        one = BL.Blake(int(a[0]))(M[:total // 8], int(a[1])) if total % 8 == 0 else BL.Blake(int(a[0]))(M, int(a[1]), bitlen=total)
    else:
        one = BL.Blake2(B2[a[0]][0])(M)
    if res != hx(one) + ';' + il(cnts): return bad('history gives %s, one-shot on a fresh object %s;%s' % (res[:60], hx(one)[:24], il(cnts)))
    return None


def check_impl(line, res):
    import crysp.blake as BL
    t = line.split(); op, a = t[0], t[1:]
    if op in ('blakeseq.h', 'blake2seq.h'): return check_hist(op, a, res)
    bad = lambda why: '%s: %s' % (op, why)
    first = 2 if op == 'blakeseq' else 1
    ps = [unhx(x) for x in a[first:]]
    bb = blk(int(a[0])) if op.startswith('blakeseq') else B2[a[0]][1]
    aligned = all(len(p) % bb == 0 for p in ps[:-1])
    if not ps or not aligned:
        return None if res == 'ERR' else bad('a non-final piece that is not block aligned must be refused')
    if res == 'ERR': return bad('unexpected exception')
    M = b''.join(ps)
    if op in ('blakeseq', 'blake2seq'):
        one = BL.Blake(int(a[0]))(M, int(a[1])) if op == 'blakeseq' else BL.Blake2(B2[a[0]][0])(M)
        tot, exp = 0, []
        for p in ps[:-1]:
            tot += 8 * len(p); exp.append(tot)
        if res != hx(one) + ';' + il(exp): return bad('piecewise %s, one-shot %s;%s' % (res[:40], hx(one)[:24], il(exp)))
        return None
    if op == 'blake2seq.trace':
        # the final flag appears exactly once, on the last compression
        r = unil(res); flags = r[1::2]
        if not flags or flags[-1] != 1 or any(flags[:-1]): return bad('final flags %s' % flags)
    return None


def rb(rng, n): return bytes(rng.getrandbits(8) for _ in range(n))

def cut_sets(nblocks):
    """all multisets of cut points (in blocks) 0 <= p1 <= … <= pk <= nblocks with k <= 3, incl. repeated cuts = empty pieces"""
    out = [()]
    for k in (1, 2, 3):
        out += list(itertools.combinations_with_replacement(range(nblocks + 1), k))
    return out


def lines_for(kind, v, M, cuts, bb, salt=0):
    ps, p = [], 0
    for c in cuts:
        ps.append(M[p:c * bb]); p = c * bb
    ps.append(M[p:])
    toks = ' '.join(hx(x) for x in ps)
    if kind == 'blake':
        yield 'blakeseq %s %d %s' % (v, salt, toks), 'blakeseq'
        yield 'blakeseq.trace %s %s' % (v, toks), 'blakeseq.trace'
    else:
        yield 'blake2seq %s %s' % (v, toks), 'blake2seq'
        yield 'blake2seq.trace %s %s' % (v, toks), 'blake2seq.trace'


def hist_lines(kind, v, bb, rng, quick):
    """pieces with explicit bit lengths (BLAKE), abandoned streams + init (BLAKE and BLAKE2)"""
    T = lambda p, L=None: hx(p) + ('' if L is None else '/%d' % L)
    head = ('blakeseq.h %s %d ' % (v, rng.getrandbits(6))) if kind == 'blake' else 'blake2seq.h %s ' % v
    tag = 'blakeseq.h' if kind == 'blake' else 'blake2seq.h'
    if kind == 'blake':
        # one reused buffer of 1-2 blocks, every piece = whole buffer + valid bits (0 bits of a non-empty buffer at the end / on an empty read)
        for n in (((0, bb - 1, bb, bb + 5, 2 * bb) if v in ('256', '512') else (0, bb, bb + 5)) if quick else (0, 1, bb - 9, bb - 1, bb, bb + 5, 2 * bb, 3 * bb - 1, 4 * bb)):
            M = rb(rng, n)
            for bufblocks in (1, 2):
                for stall in (None, 0, 1):
                    buf = bytearray(rb(rng, bufblocks * bb)); toks, pos, reads = [], 0, 0
                    while True:
                        if reads == stall: k, last = 0, False
                        else:
                            chunk = M[pos:pos + len(buf)]; k = len(chunk); buf[:k] = chunk; pos += k; last = k < len(buf)
                        reads += 1
                        toks.append(T(buf, 8 * k))
                        if last: break
                    yield head + ' '.join(toks), tag + ':readinto buffer'
        b1, b2, junk, t = rb(rng, bb), rb(rng, 2 * bb), rb(rng, 5), rb(rng, 7)
        for toks in ([T(t, 0)], [T(b1, 0), T(t)], [T(b1), T(t, 0)], [T(b1), T(b2, 0), T(b1 + junk, 0)], [T(b1), T(junk, 0), T(b2), T(t, 3)],
                     [T(b1 + junk, 8 * bb), T(t)], [T(b2 + b1, 8 * bb), T(b2, 16 * bb), T(b2 + t, 8 * bb)], [T(b1), T(b2 + junk, 16 * bb)],
                     [T(b2, 16 * bb), T(b1, 8 * (bb - 9) - 3)]):
            yield head + ' '.join(toks), tag + ':bitlen'
        # refused: not whole blocks, beyond the buffer
        yield head + ' '.join([T(b1, 8), T(t)]), tag + ':refused'
        yield head + ' '.join([T(b1, 8 * bb + 8), T(t)]), tag + ':refused'
        yield head + ' '.join([T(b1), T(t, 57)]), tag + ':refused'
    # histories: k blocks fed and abandoned (or a refused step), init, then a complete piecewise run
    for k in (1, 2, 3):
        for bi, before in enumerate(([rb(rng, k * bb)], [rb(rng, bb) for _ in range(k)])):
            if quick and (bi == 1) != (k == 2): continue
            for tail in ((0, 11) if quick else (0, 1, 11, bb - 9)):
                M = rb(rng, 2 * bb + tail)
                for cuts in (((), (1,), (1, 2), (0, 1, 1)) if quick and v in ('256', '512', 'b', 's') else ((), (1, 2)) if quick else ((), (1,), (2,), (1, 2), (0, 1, 1))):
                    if kind == 'blake2' and tail == 0 and cuts and cuts[-1] == 2: continue    # empty final piece after data: known finding
                    ps, p = [], 0
                    for c in cuts:
                        ps.append(M[p:c * bb]); p = c * bb
                    ps.append(M[p:])
                    yield head + ' '.join([T(x) for x in before] + ['init'] + [T(x) for x in ps]), tag + ':abandoned stream, init, stream'
    yield head + 'init init ' + T(rb(rng, 3)), tag + ':abandoned stream, init, stream'
    yield head + T(rb(rng, bb)) + ' init', tag + ':refused'


def cases(tier, rng):
    variants = [('blake', str(n), blk(n)) for n in (224, 256, 384, 512)] + [('blake2', v, B2[v][1]) for v in 'bs']
    if tier == 'search':
        while True:
            kind, v, bb = rng.choice(variants)
            if rng.randrange(3) == 0:
                yield rng.choice(list(hist_lines(kind, v, bb, rng, True)))
                continue
            nb = rng.randrange(0, 6)
            tail = rng.choice([0, 1, bb - 9, bb - 1, bb, bb + 1, rng.randrange(0, 2 * bb)])
            cuts = sorted(rng.randrange(0, nb + 1) for _ in range(rng.randrange(0, 4)))
            yield from lines_for(kind, v, rb(rng, nb * bb + tail), cuts, bb, rng.getrandbits(8))
        return
    quick = tier == 'quick'
    for kind, v, bb in variants:
        # all cut-point sets for up to 4 blocks (quick: the two-size families share code, enumerate 256/512/b/s fully, 224/384 to 2 blocks)
        full = 4 if (not quick or v in ('256', '512', 'b', 's')) else 2
        tails = (0, 1, bb - 9, bb, bb + 3) if not quick else (0, 1, bb + 3)
        for nb in range(0, full + 1):
            for cuts in cut_sets(nb):
                if quick and len(cuts) == 3 and nb > 3: continue
                for tail in tails:
                    if cuts and cuts[-1] < nb and tail != tails[1]: continue     # final piece spans blocks: one tail is enough
                    yield from lines_for(kind, v, rb(rng, nb * bb + tail), cuts, bb, rng.getrandbits(6))
        # longer messages sampled
        for _ in range(4 if quick else 60):
            nb = rng.randrange(5, 9 if quick else 17)
            cuts = sorted(rng.randrange(0, nb + 1) for _ in range(rng.randrange(1, 5)))
            yield from lines_for(kind, v, rb(rng, nb * bb + rng.randrange(0, bb + 2)), cuts, bb, rng.getrandbits(16))
        yield from hist_lines(kind, v, bb, rng, quick)
        # malformed: a non-final piece that is not block aligned
        if kind == 'blake': yield 'blakeseq %s 0 x0102 x03' % v, 'malformed'
        else: yield 'blake2seq %s x0102 x03' % v, 'malformed'


def shrink(line):
    t = line.split()
    if t[0] in ('blakeseq.h', 'blake2seq.h'):
        first = 3 if t[0] == 'blakeseq.h' else 2
        for i in range(first, len(t) - 1): yield ' '.join(t[:i] + t[i + 1:])
        return
    first = 3 if t[0] == 'blakeseq' else 2
    if len(t) > first + 1:
        for i in range(first, len(t) - 1):
            if t[i] == 'x': yield ' '.join(t[:i] + t[i + 1:])
