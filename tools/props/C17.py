"""C17 — MD6 digests equal the specification for every digest size, mode parameter L, key, round count and message bit length.

Op lines (formats in lean/Driver/Md6D.lean):
  md6     d L rounds|None key msg bitlen|None          MD6(d,key,L)(msg,bitlen), .rounds overwritten when given
  md6.par d L rounds|None key level msg bitlen|None    one call of MD6.PAR
  md6.seq d L rounds|None key msg bitlen|None          one call of MD6.SEQ
  md6.f   rounds  l<89 words>                          MD6.f on a ring-2^64 Poly
  md6.V   par|seq d keylen z L r p                     the control word the real PAR/SEQ hands to f (f stubbed out)
  md6.U   par|seq level|L index                        the node id the real PAR/SEQ hands to f (f stubbed out)
  md6.rounds d key                                     the constructor's default round count
run_impl executes the line on the real crysp.md.MD6.  The oracle of the property is the executable Lean Spec
(spec column of the driver).  check_impl adds what can be said without a reference: ceil(d/8) bytes, unused low
bits zero, bits beyond the stated bit length do not matter, bitlen = 8|M| equals bitlen = None."""
import random
from props.common import *

ID = 'C17'
LEAN_PROOFS = ['Proofs.C17']
GEN_ITEMS = ['Md6']
LINE_TIMEOUT = 120
RULE = ('op lines = (d, L, rounds, key, message, bit length) with message byte counts at every multiple of 512/384/128 +-1 for 0..64+ leaf '
        'blocks (1..5 tree levels), every bit-length residue mod 8, d in {1,7,8,160,224,250,256,384,511,512}+sampled, L in {0,1,2,3,64}, '
        'key lengths {0,1,8,63,64}; component lines for f, V, U, PAR, SEQ; distinct lines; non-trivial = the implementation returned a value')
TRUSTED = ['lean/Spec/Md6.lean as a rendering of the MD6 report (validated only by the three known answers of tests/test_md.py and the '
           'report\'s "abc" d=256 digest; there is no independent executable MD6 in the image)',
           'Model.Bits / Model.Padding (shared models of crysp/bits.py, crysp/padding.py), CPython struct/int semantics (Model.Py)']
ASSUMPTIONS = ['python -O (asserts stripped) is out of scope',
               'outside the report\'s parameter ranges (d > 512, key > 64 bytes, L > 255, rounds 0 or > 4095) the code is '
               'compared with the model only; the specification defines nothing there']

DS = [1, 7, 8, 160, 224, 250, 256, 384, 511, 512]
LS = [0, 1, 2, 3, 64]
KEYLENS = [0, 1, 8, 63, 64]


# ---------------------------------------------------------------------------------------------
def _obj(d, L, rounds, key):
    from crysp.md import MD6
    o = MD6(d, Key=key, L=L)
    if rounds is not None: o.rounds = rounds
    return o


def _stub(o, rec):
    from crysp.poly import Poly
    def f(N):
        rec.append(list(N.ival))
        return Poly(0, 64, dim=16)
    o.f = f


def run_impl(line):
    t = line.split()
    op, a = t[0], t[1:]
    def go():
        if op == 'md6':
            o = _obj(int(a[0]), int(a[1]), unoi(a[2]), unhx(a[3]))
            return hx(o(unhx(a[4]), unoi(a[5])))
        if op == 'md6.par':
            o = _obj(int(a[0]), int(a[1]), unoi(a[2]), unhx(a[3]))
            return hx(o.PAR(int(a[4]), unhx(a[5]), unoi(a[6])))
        if op == 'md6.seq':
            o = _obj(int(a[0]), int(a[1]), unoi(a[2]), unhx(a[3]))
            return hx(o.SEQ(unhx(a[4]), unoi(a[5])))
        if op == 'md6.f':
            from crysp.poly import Poly
            o = _obj(256, 0, int(a[0]), b'')
            r = o.f(Poly(unil(a[1]), 64))
            return il(r.ival)
        if op == 'md6.V':
            mode, d, keylen, z, L, r, p = a[0], int(a[1]), int(a[2]), int(a[3]), int(a[4]), int(a[5]), int(a[6])
            o = _obj(d, L, r, b'k' * keylen); rec = []; _stub(o, rec)
            B = 512 if mode == 'par' else 384
            if z == 1:                        # a single (= last) block with p padding bits
                o.PAR(1, b'\xff' * B, 8 * B - p) if mode == 'par' else o.SEQ(b'\xff' * B, 8 * B - p)
                assert len(rec) == 1
                return str(rec[-1][24])
            if mode == 'par':                 # two blocks: the last one carries p, z = 0
                o.PAR(1, b'\xff' * (2 * B), 16 * B - p); assert len(rec) == 2
                return str(rec[-1][24])
            o.SEQ(b'\xff' * (2 * B), None); assert len(rec) == 2 and p == 0   # SEQ: z = 0 on a non-final block, p = 0
            return str(rec[0][24])
        if op == 'md6.U':
            mode, lv, idx = a[0], int(a[1]), int(a[2])
            B = 512 if mode == 'par' else 384
            o = _obj(256, lv if mode == 'seq' else 64, 1, b''); rec = []; _stub(o, rec)
            m = b'\x01' * (B * (idx + 1))
            o.PAR(lv, m, None) if mode == 'par' else o.SEQ(m, None)
            return str(rec[idx][23])
        if op == 'md6.rounds':
            from crysp.md import MD6
            return str(MD6(int(a[0]), Key=unhx(a[1])).rounds)
        raise RuntimeError('unknown op ' + op)
    return guarded(go)


# ---------------------------------------------------------------------------------------------
def check_impl(line, res):
    t = line.split(); op, a = t[0], t[1:]
    if op not in ('md6', 'md6.seq') or res == 'ERR': return None
    d = int(a[0])
    if not (1 <= d <= 512): return None
    out = unhx(res)
    nb = (d + 7) // 8
    if len(out) != nb: return '%s: digest has %d bytes, ceil(d/8) = %d' % (op, len(out), nb)
    if d % 8 and out[-1] & ((1 << (8 - d % 8)) - 1): return '%s: unused low bits of the last digest byte are not zero' % op
    if op != 'md6': return None
    msg, bl = unhx(a[4]), unoi(a[5])
    if bl is None or bl > 8 * len(msg) or len(msg) > 1200: return None
    # message bit length handling: only the first bl bits matter
    nbytes = (bl + 7) // 8
    canon = bytearray(msg[:nbytes])
    if bl % 8 and canon: canon[-1] &= 0xff ^ ((1 << (8 - bl % 8)) - 1)
    canon = bytes(canon)
    if canon != msg:
        other = run_impl(' '.join(['md6'] + a[:4] + [hx(canon), str(bl)]))
        if other != res: return 'md6: bytes/bits beyond bitlen=%d change the digest' % bl
    if bl == 8 * len(msg):
        other = run_impl(' '.join(['md6'] + a[:4] + [a[4], 'None']))
        if other != res: return 'md6: bitlen = 8|M| differs from bitlen = None'
    return None


# ---------------------------------------------------------------------------------------------
def rb(rng, n): return bytes(rng.getrandbits(8) for _ in range(n)) if n < 4096 else rng.getrandbits(8 * n).to_bytes(n, 'big')

def L_md6(d, L, r, key, msg, bl): return 'md6 %d %d %s %s %s %s' % (d, L, oi(r), hx(key), hx(msg), oi(bl))

def lvl_tag(nbytes):
    j = max(1, -(-nbytes // 512))
    if nbytes == 0: return 'blocks=0'
    if j == 1: return 'blocks=1'
    if j <= 4: return 'blocks=2..4'
    if j <= 16: return 'blocks=5..16'
    if j <= 64: return 'blocks=17..64'
    return 'blocks=65+'


def boundary_sizes(maxblocks):
    s = {0, 1, 2, 7, 8, 9, 63, 64, 65, 127, 128, 129, 255, 256, 257}
    k = 1
    while k <= maxblocks:
        for base in (512 * k, 384 * k):
            s |= {base - 1, base, base + 1}
        k += 1 if k < 6 else (k // 2)
    for j in (4, 5, 16, 17, 64):           # leaf counts at the 4-ary boundaries (full / one more chaining value)
        if j <= maxblocks: s |= {512 * j, 512 * j - 1, 512 * (j - 1) + 1}
    return sorted(x for x in s if x <= 512 * maxblocks + 1)


def cases(tier, rng):
    if tier == 'search':
        while True:
            d = rng.choice(DS + [rng.randrange(1, 513)])
            L = rng.choice(LS + [rng.randrange(0, 6)])
            key = rb(rng, rng.choice(KEYLENS + [rng.randrange(0, 65)]))
            n = rng.choice([rng.randrange(0, 600), rng.randrange(0, 3000), 512 * rng.randrange(0, 20) + rng.choice([-1, 0, 1]) + 1,
                            384 * rng.randrange(0, 20) + rng.choice([-1, 0, 1]) + 1, 128 * rng.randrange(0, 80)])
            msg = rb(rng, max(n, 0))
            bl = rng.choice([None, None, 8 * len(msg) - rng.randrange(0, 8), rng.randrange(0, 8 * len(msg) + 1)])
            if bl is not None and bl <= 0: bl = None
            yield L_md6(d, L, rng.choice([1, 1, 2, 3]), key, msg, bl), 'search'
            yield 'md6.f %d %s' % (rng.choice([1, 2, 3, 7]), il([rng.getrandbits(64) for _ in range(89)])), 'search.f'
        return
    quick = tier == 'quick'

    # --- known answers (the report's examples; also in tests/test_md.py)
    yield L_md6(256, 64, 5, b'', b'abc', None), 'kat'
    yield L_md6(256, 64, None, b'', b'abc', None), 'kat'
    m600 = (bytes.fromhex('11223344556677') * 86)[:600]
    yield L_md6(224, 64, 5, b'abcde12345', m600, None), 'kat'
    m800 = (bytes.fromhex('11223344556677') * 115)[:800]
    yield L_md6(256, 0, None, b'', m800, None), 'kat'

    # --- default round counts, complete domain (d = 0..512, unkeyed/keyed) + beyond
    for d in list(range(0, 513)) + [513, 1000, 4095]:
        yield 'md6.rounds %d x' % d, 'rounds'
        yield 'md6.rounds %d x6b' % d, 'rounds'

    # --- the compression function
    ones = (1 << 64) - 1
    for r in ([0, 1, 2, 3, 5, 16, 17] if quick else [0, 1, 2, 3, 4, 5, 8, 16, 17, 33, 80, 104, 168]):
        yield 'md6.f %d %s' % (r, il([0] * 89)), 'f'
        yield 'md6.f %d %s' % (r, il([ones] * 89)), 'f'
        for _ in range(3 if quick else 10):
            yield 'md6.f %d %s' % (r, il([rng.getrandbits(64) for _ in range(89)])), 'f'
    for k in range(89):                       # every input word position, single bit set, 2 rounds (all taps reached)
        w = [0] * 89; w[k] = 1 << rng.randrange(64)
        yield 'md6.f 2 %s' % il(w), 'f.unit'

    # --- control word and node id as the real PAR / SEQ build them
    for mode in ('par', 'seq'):
        B = 4096 if mode == 'par' else 3072
        for d, keylen, L, r in [(1, 0, 0, 1), (512, 64, 64, 168), (256, 8, 3, 104), (511, 63, 255, 4095),
                                (4095 if mode == 'par' else 1023, 1, 2, 80), (160, 255, 1, 5)]:
            for p in sorted({0, 1, 7, 8, B // 2, B - 8, B - 1, B}):
                yield 'md6.V %s %d %d 1 %d %d %d' % (mode, d, keylen, L, r, p), 'V'
                if mode == 'par' and p < B: yield 'md6.V par %d %d 0 %d %d %d' % (d, keylen, L, r, p), 'V'
            if mode == 'seq': yield 'md6.V seq %d %d 0 %d %d 0' % (d, keylen, L, r), 'V'
        for lv in (0, 1, 2, 3, 64, 200, 255):
            for idx in (0, 1, 2, 3, 4, 15, 16, 17, 63, 70):
                yield 'md6.U %s %d %d' % (mode, lv, idx), 'U'
    for d in (4096, 5000):                    # outside the field width: code vs model only
        yield 'md6.V par %d 0 1 0 1 0' % d, 'V.out'
    yield 'md6.V par 256 0 1 256 1 0', 'V.out'
    yield 'md6.V par 256 0 1 0 4096 0', 'V.out'

    # --- whole digests: boundary-directed sizes x every mode
    sizes = boundary_sizes(33 if quick else 65)
    if quick: sizes = sorted(set(sizes) | {512 * 64 - 1, 512 * 64, 512 * 64 + 1, 384 * 86})      # 4 and 5 tree levels
    for n in sizes:
        base = rb(rng, n)
        for L in LS:
            # hybrid modes only differ from L=64 when the tree is higher than L
            if quick and L in (2, 3) and n <= 512 * 4 and n % 512 > 1: continue
            d = rng.choice(DS)
            key = rb(rng, rng.choice(KEYLENS))
            r = rng.choice([1, 1, 1, 2, 3])
            yield L_md6(d, L, r, key, base, None), 'size.' + lvl_tag(n)
        if n > 0:
            L = rng.choice(LS); d = rng.choice(DS)
            yield L_md6(d, L, 1, b'', base, 8 * n), 'bitlen.full'
            yield L_md6(d, L, 1, b'', base, 8 * n - rng.randrange(1, 8)), 'bitlen.partial'
    # every bit-length residue mod 8, around block boundaries, all modes
    for n in (1, 2, 383, 384, 385, 511, 512, 513, 768, 1024, 1025, 1536, 2049):
        base = rb(rng, n)
        for t in range(8):
            bl = 8 * n - t
            L = LS[(t + n) % 5]
            yield L_md6(rng.choice(DS), L, 1, rb(rng, rng.choice(KEYLENS)), base, bl), 'bitlen.res%d' % (bl % 8)
        for L in (0, 64):
            yield L_md6(256, L, 1, b'', base, 8 * n), 'bitlen.full'
    # trailing bytes after the stated length (whole blocks of them too)
    for n, bl in [(600, 100), (600, 4096), (600, 4097), (1100, 4095), (1100, 3072), (1100, 3073), (1100, 8191), (2000, 8192), (2000, 1), (513, 7)]:
        for L in (0, 1, 64):
            yield L_md6(250, L, 1, b'', rb(rng, n), bl), 'bitlen.trailing'
    # every d: 1..16 exhaustively, then the named ones and samples, both modes, one and two blocks
    dlist = sorted(set(range(1, 17)) | set(DS) | {rng.randrange(17, 512) for _ in range(8 if quick else 60)})
    for d in dlist:
        for L in (0, 64):
            yield L_md6(d, L, 1, b'', rb(rng, 40), None), 'd'
        yield L_md6(d, rng.choice(LS), 2, rb(rng, 8), rb(rng, 700), None), 'd'
    # keys
    for kl in KEYLENS + [2, 7, 9, 32]:
        for L in LS:
            yield L_md6(rng.choice(DS), L, 1, rb(rng, kl), rb(rng, rng.choice([3, 600, 1300])), None), 'key'
        yield L_md6(256, 0, 1, b'\0' * kl, b'abc', None), 'key.zero'       # keylen field distinguishes zero keys
    # default round counts (slow: full rounds), a few
    for d, kl, n in ([(256, 0, 3), (224, 10, 600), (1, 0, 0), (512, 64, 513)] if quick else
                     [(d, kl, n) for d in (1, 160, 256, 384, 512) for kl in (0, 5, 64) for n in (0, 3, 513, 1200)]):
        for L in (0, 64) if quick else (0, 1, 64):
            yield L_md6(d, L, None, rb(rng, kl), rb(rng, n), None), 'rounds.default'
    for r in (4, 5, 7, 16, 40):
        yield L_md6(256, rng.choice(LS), r, b'', rb(rng, 1500), None), 'rounds.reduced'
    # PAR / SEQ on their own (levels above 1, chaining-value sized inputs, partial upper blocks)
    for n in (0, 1, 128, 256, 384, 512, 640, 1024, 1152, 2048, 2176):
        base = rb(rng, n)
        for lv in (1, 2, 3, 64):
            yield 'md6.par %d %d 1 %s %d %s None' % (rng.choice(DS), rng.choice(LS), hx(rb(rng, rng.choice(KEYLENS))), lv, hx(base)), 'par'
        for L in (0, 1, 3):
            yield 'md6.seq %d %d 1 %s %s None' % (rng.choice(DS), L, hx(rb(rng, rng.choice(KEYLENS))), hx(base)), 'seq'
        if n:
            yield 'md6.par 256 64 1 x 1 %s %d' % (hx(base), 8 * n - 3), 'par'
            yield 'md6.seq 256 0 1 x %s %d' % (hx(base), 8 * n - 5), 'seq'
    # seeded random
    for _ in range(400 if quick else 3000):
        d = rng.choice(DS + [rng.randrange(1, 513)])
        L = rng.choice(LS + [rng.randrange(0, 6)])
        key = rb(rng, rng.choice(KEYLENS + [rng.randrange(0, 65)]))
        n = rng.choice([rng.randrange(0, 600), rng.randrange(0, 3000), rng.randrange(0, 9000), 128 * rng.randrange(0, 40)])
        msg = rb(rng, n)
        bl = rng.choice([None, None, 8 * n - rng.randrange(0, 8), rng.randrange(0, 8 * n + 1)])
        if bl is not None and bl <= 0: bl = None
        yield L_md6(d, L, rng.choice([1, 1, 2, 3]), key, msg, bl), 'random.' + lvl_tag(n if bl is None else (bl + 7) // 8)
    if not quick:
        for n in (512 * 64 + 1, 512 * 70, 512 * 256, 512 * 257):      # 5 and 6 tree levels
            for L in (0, 2, 4, 64):
                yield L_md6(256, L, 1, b'', rb(rng, n), None), 'size.blocks=65+'

    # --- refusals and inputs outside the specification's domain
    for n in (0, 3, 512, 600):
        base = rb(rng, n)
        for L in (0, 1, 64):
            yield L_md6(256, L, 1, b'', base, 8 * n + 1), 'err.bitlen>8|M|'
            yield L_md6(256, L, 1, b'', base, 8 * n + 4096), 'err.bitlen>8|M|'
            yield L_md6(256, L, 1, b'', base, 0), 'bitlen=0'
    for kl in (65, 66, 100):
        for L in (0, 64):
            yield L_md6(256, L, 1, rb(rng, kl), b'abc', None), 'out.key>64'
    for d in (0, 513, 1000, 1024, 1025, 2000):
        for L in (0, 64):
            yield L_md6(d, L, 1, b'', b'abc', None), 'out.d'
    for L in (255, 256, 300):
        yield L_md6(256, L, 1, b'', rb(rng, 700), None), 'out.L'
    yield L_md6(256, 64, 0, b'', b'abc', None), 'out.rounds=0'
    yield L_md6(256, 0, 0, b'', b'abc', None), 'out.rounds=0'


def shrink(line):
    t = line.split()
    if t[0] != 'md6': return
    msg = t[5]
    n = (len(msg) - 1) // 2
    for keep in (n // 2, n - 1, n - 128, n - 512):
        if 0 <= keep < n:
            yield ' '.join(t[:5] + [msg[:1 + 2 * keep]] + ['None'])
    if t[4] != 'x': yield ' '.join(t[:4] + ['x'] + t[5:])
    if t[3] != '1': yield ' '.join(t[:3] + ['1'] + t[4:])
    if t[6] != 'None': yield ' '.join(t[:6] + ['None'])


LEVEL_TEXT = ('Lean 4 theorems about Model.Md6 (the hand-written mirror of class MD6 in crysp/md.py, after three fix: commits) against '
              'Spec.Md6 (the MD6 report on BitVec 64 words and byte lists), all at full strength: constants (Q, shift tables, taps, S0/S*, default '
              'rounds for every d) Gen = Spec; f_refines for every round count r >= 1; V_layout / V_layout_seq / U_layout for every field value; '
              'par_level_refines, seq_refines; md6_refines end-to-end for every d <= 512, L <= 64, key <= 64 bytes, 1 <= r < 4096 (and the default '
              'round count), every message shorter than 2^64 bits and every bit length <= 8|M| (the level loop terminates, the call returns); '
              'digest_length = ceil(d/8) with zero unused bits; refusal of a bit length beyond the message; totality of the Spec\'s own level loop. '
              'The model is tied to the current source by the translator (Q, shift tables, taps, S constants, default round counts for every d) and '
              'by a boundary-directed correspondence stream that runs every line through the real code, the model and the executable Spec.')
LEVEL_NOTE = ('Trusted: Lean kernel; axioms ⊆ {propext, Classical.choice, Quot.sound}; extract.py/runcheck.py/props/C17.py; the shared models of '
              'Bits/Padding (Model.Bits, Model.Padding: the proofs go through their definitions, the correspondence stream ties them to the code); '
              'Spec.Md6 as a rendering of the MD6 report — ONLY the three known answers of /repo/tests/test_md.py (the report\'s '
              'examples) and the report\'s "abc" d=256 digest validate the Spec; there is no independent executable MD6 in the image. '
              'Q is additionally proved to be the first 960 bits of the fractional part of sqrt(6). Hypotheses of md6_refines beyond the property text: '
              'bytes are < 256, the message is shorter than 2^64 bits (the report\'s bound; keeps the node index in its 56-bit field), r < 4096 (12-bit field). '
              'No _partial theorem. Theorem list: evidence/C17.json coverage.theorems.')
TECHNIQUE = 'Lean 4 proof (fold simulation, testBit extensionality, kernel evaluation of constants) + correspondence check'
