"""C13 — HMAC equals RFC 2104 for every hash of the library, key length and message.
Aggregated from parts (tools/props/parts/c13_*.py): MD/SHA family + toy hash; HMAC over the BLAKE-n objects; other hash
families add their part."""
import importlib, os
from props.common import aggregate
_here = os.path.join(os.path.dirname(__file__), 'parts')
PARTS = [importlib.import_module('props.parts.' + n) for n in ('c13_mdsha', 'c13_blake')
         if os.path.exists(os.path.join(_here, n + '.py'))]
_blake = any(p.__name__.endswith('c13_blake') for p in PARTS)

ID = 'C13'
aggregate(globals(), PARTS)
RULE = ('op lines `hmac <alg> <key> <msg>` for |K| in 0..3 blocks around digest size, block-1, block, block+1 and multiples; `hmacseq` key '
        'sequences on one object; `hmacgen` the HMAC class over a toy hash for block sizes 8..1024 bits; `hmach <alg> | history | mac <key> <msg> | history | again <msg> | …`: '
        'the hash object is USED (one-shot call with a ragged bit length / on the spill boundary, abandoned stream with and without a buffered rest, finished stream, refused call, '
        'refused final piece, preset counter, update on a padded object) before HMAC(h,key), between two MACs of one HMAC object and between two HMAC objects over it, keys < = > block'
        + ('; `bhmac`/`bhmac.s`/`bhmacseq` the same grid over Blake(224/256/384/512) and the module singletons, message lengths around '
           'BLAKE\'s padding spill; `bhmach <n|@n> | history | mac | history | again | …`: the Blake object (new and module singleton) has a history - salted one-shot call, salted '
           'stream finished / abandoned / refused, refused salted call, call with a bit length, salted initstate alone, several in a row - before and between the MACs; expected = RFC 2104 over the UNSALTED BLAKE-n' if _blake else '')
        + '; distinct lines; non-trivial = a MAC was returned')
LEVEL_TEXT = ('Parts present: ' + ', '.join(p.__name__.split('.')[-1] for p in PARTS) + '. '
              'Lean 4 theorem hmac_refines, generic in the hash function: Model.Hmac (the hand-written mirror of crysp/hmac.py) equals RFC 2104 for every '
              'hash, block size, key and message, with the three key-length branches explicit, plus setkey_replaces; instantiated for the ten MD/SHA objects '
              '(hmac_refines_library, over C01\'s hash_refines)'
              + (' and for the four BLAKE objects (Proofs.C13_Blake.hmac_refines_blake, over C11\'s blake_refines)' if _blake else '')
              + '; the model is tied to the code by a correspondence stream over every MD/SHA'
              + ('/BLAKE' if _blake else '') + ' object of the library and a toy hash, which also compares the real code with Python\'s hmac module'
              + (' (MD/SHA) and with RFC 2104 over an independent BLAKE reference (BLAKE)' if _blake else '') + '.')
LEVEL_NOTE = ('Trusted: Lean kernel; axioms ⊆ {propext, Classical.choice, Quot.sound}; lean/Spec/Hmac.lean as the rendering of RFC 2104; runcheck.py/props. '
              + ('HMAC over BLAKE-n: Proofs.C13_Blake + the bhmac lines of the stream. ' if _blake else
                 'HMAC over BLAKE-n is covered by the generic theorem only; its part is absent. ')
              + 'Theorem list: evidence/C13.json.')
TECHNIQUE = 'Lean 4 proof (generic in the hash function; case split on the key length) + correspondence check'
