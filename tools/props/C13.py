"""C13 — HMAC equals RFC 2104 for every hash of the library, key length and message.
Aggregated from parts (tools/props/parts/c13_*.py): MD/SHA family + toy hash here; other hash families add their part."""
from props.common import aggregate
from props.parts import c13_mdsha

ID = 'C13'
aggregate(globals(), [c13_mdsha])
RULE = ('op lines `hmac <alg> <key> <msg>` for |K| in 0..3 blocks around digest size, block-1, block, block+1 and multiples; `hmacseq` key '
        'sequences on one object; `hmacgen` the HMAC class over a toy hash for block sizes 8..1024 bits; distinct lines; non-trivial = a MAC was returned')
LEVEL_TEXT = ('Lean 4 theorem hmac_refines, generic in the hash function: Model.Hmac (the hand-written mirror of crysp/hmac.py) equals RFC 2104 for every '
              'hash, block size, key and message, with the three key-length branches explicit, plus setkey_replaces; the model is tied to the code by a '
              'correspondence stream over every MD/SHA object of the library and a toy hash, which also compares the real code with Python\'s hmac module.')
LEVEL_NOTE = ('Trusted: Lean kernel; axioms ⊆ {propext, Classical.choice, Quot.sound}; lean/Spec/Hmac.lean as the rendering of RFC 2104; runcheck.py/props. '
              'HMAC over BLAKE-n is covered by the generic theorem; its correspondence lines belong to the BLAKE part. Theorem list: evidence/C13.json.')
TECHNIQUE = 'Lean 4 proof (generic in the hash function; case split on the key length) + correspondence check'
