"""C01 — MD4/MD5/SHA-0/SHA-1/SHA-2 digests equal the standards for every message and bit length.

run_impl executes the op line on fresh objects of the real crysp classes (`hash`: one object per message; `hashcalls`:
ONE object for all the messages and streaming steps of the line, so that whatever a call leaves behind in the object
- chaining value, padding object, bit counter, pad flag - meets the next call).  The spec column of the driver is the Lean
formalisation of RFC 1320 / RFC 1321 / FIPS 180-4 evaluated on "the first L bits of M" (and `ERR` when L > 8|M|, which
the property requires to be refused).  check_impl is the property's own predicate evaluated on the implementation:
advertised digest length, refusal of L > 8|M| (one-shot, and on the final piece of a stream whatever was fed before), a secondary oracle (hashlib; two small RFC/FIPS references for MD4 and
SHA-0) for whole-byte lengths, and for ragged lengths independence from the bits after position L."""
from props.common import *
from props import hashcommon as HC
from props.parts import c01_carry as CARRY

ID = 'C01'
LEAN_PROOFS = ['Proofs.C01', 'Proofs.C01_Consts', 'Proofs.C01_Kat']
GEN_ITEMS = ['Hashes']
RULE = ('op lines `hash <alg> <msg> <bitlen|None>` over the ten algorithms: every byte length 0..2 blocks+2, every L mod 8 around the '
        'spill boundary (block-1-2*word bytes), block and two-block boundaries, 3-5 blocks seeded, L=None, L=0, L>8|M|, trailing data '
        'beyond L; CARRY BOUNDARIES: for every algorithm messages constructed from the standard\'s IV and round constants (plain-integer round '
        'functions in parts/c01_carry.py) whose word r (or r-1) makes ONE word addition of round r = 0..3 (thorough: 0..15) - every prefix of the '
        'left-to-right sums a+f+W+K, b+rol(..), rol(a,5)+f+e+K+W, h+S1(e)+Ch+K+W, d+T1, T1+T2 that a message word can steer, and the three sums of the SHA-2 '
        'schedule words 16..19 (thorough: ..23) - sum to exactly 2^w, 2^w-1 and 2^w+1 before reduction (w = 32/64), alone and with a tail appended: the carry-out '
        'of every word addition of round 0 that involves the message is exercised at its boundary; `hashseq` lines with a preset bit counter so that the length field needs more than one 32/64-bit word; '
        '`hashseq` lines `upd <1..3 blocks> | fin <piece> <L>` with L beyond the piece (8n+1, +7, +8, bits fed+8n-1, bits fed+8n, +1): must be refused; '
        '`hashcalls` lines: ONE object of the library per line hashes several messages in a row (first messages ending without / with a '
        'spill block, on a block boundary, over two blocks; after a refused call, after a dangling update(padding=False), after a streamed '
        'digest, after a preset counter; seeded lives of 4-7 steps), every call compared with the standard\'s digest of that message '
        'alone; distinct lines; non-trivial = the implementation returned a digest')
TRUSTED = ['lean/Spec/{Md4,Md5,Sha1,Sha2,MerkleDamgard,Bytes}.lean as renderings of RFC 1320, RFC 1321, FIPS 180-4 (validated in this stream against '
           'hashlib for md5/sha1/sha2 incl. 512/t and against small references for MD4/SHA-0: supporting evidence only; for MD4 and SHA-0, which hashlib lacks, the RFC 1320 test-suite digests of "" and "abc" and the FIPS 180 (1993) digest of "abc" hold for the Spec in the kernel and for the model through hash_refines_omitted - Proofs.C01_Kat)',
           'NOT trusted any more: the literals of lean/Spec/Sha2Consts.lean (K256, K512, iv224/256/384/512) and SHA-1\'s K - Proofs.C01_Consts proves in the kernel that they are '
           'the first 32/64 bits of the fractional parts of the cube/square roots of the first 80/8/9th..16th primes (primes by trial division, none skipped), '
           'resp. floor(2^30*sqrt(2,3,5,10)); still typed from the RFCs: MD4/MD5 IVs, SHA-1 IV, MD5 sine table T, shift and index tables',
           'Model.Padding (owned by C09) and Model.Bits (C07/C08) are shared models tied by their own correspondence streams and by this one']
ASSUMPTIONS = ['python -O (asserts stripped) is out of scope',
               'bitlen=0 together with a non-empty message is outside the property (0 < L); the code hashes the empty bit string: compared code<->model only']

run_impl = HC.run_impl


def calls_of(line):
    """(alg, steps) of a hashcalls line; the `call` steps as (message, bitlen)"""
    steps = HC.split_bar(line.split()[1:])
    return steps[0][0], steps[1:]


def check_calls(line, res):
    """one object, several messages: every call must give what a one-shot call on a NEW object gives for that message
    (the reference digest for whole-byte lengths, a refusal for L > 8|M|), whatever the object did before"""
    alg, steps = calls_of(line)
    calls = [(unhx(st[1]), unoi(st[2])) for st in steps if st[0] == 'call']
    got = res.split(';') if res else []
    if len(got) != len(calls): return 'hashcalls %s: %d results for %d calls' % (alg, len(got), len(calls))
    for i, ((m, L), r) in enumerate(zip(calls, got)):
        bad = lambda why: 'hashcalls %s call #%d (|M|=%d L=%s) on a used object: %s' % (alg, i, len(m), L, why)
        if L is not None and L > 8 * len(m):
            if r != 'ERR': return bad('a bit length beyond the data must be refused')
            continue
        if L == 0 and len(m) > 0: continue
        if r == 'ERR': return bad('unexpected exception')
        d = unhx(r)
        if len(d) != HC.outlen(alg): return bad('digest has %d bytes, advertised %d' % (len(d), HC.outlen(alg)))
        if L is None or L % 8 == 0:
            exp = HC.reference_digest(alg, m if L is None else m[:L // 8])
            if exp is not None and exp != d:
                return bad('got %s, the reference digest of this message is %s' % (d.hex(), exp.hex()))
            if exp is not None: continue
        fresh = HC.run_hash([alg, hx(m), oi(L)])
        if fresh != r: return bad('got %s, a new object gives %s' % (r, fresh))
    return None


def check_seq(line, res):
    """streaming lines (`hashseq` / `hashseqc`): a final piece given with more bits than it holds must be refused whatever
    was fed before (the bit length of a call counts the bits of THAT call's data); a streamed message of whole bytes
    (whole blocks, then a final piece) has the reference digest of the concatenation"""
    alg, steps = calls_of(line)
    outs = res.split(';') if res else []
    if len(outs) != len(steps): return '%s %s: %d results for %d steps' % (line.split()[0], alg, len(outs), len(steps))
    B = HC.blocklen(alg)
    acc = b''                 # the bytes of the message fed so far since the object was (re)initialised; None: not tracked
    for i, (st, o) in enumerate(zip(steps, outs)):
        r = o.split(',')[0]
        if st[0] == 'init': acc = b''
        elif st[0] == 'upd':
            p = unhx(st[1]); L = unoi(st[2]) if len(st) > 2 else None
            L = 8 * len(p) if L is None else L
            acc = acc + p[:L // 8] if acc is not None and r != 'ERR' and L <= 8 * len(p) and L % (8 * B) == 0 else None
        elif st[0] == 'fin':
            p = unhx(st[1]); L = unoi(st[2]) if len(st) > 2 else None
            bad = lambda why: '%s %s step #%d fin |piece|=%d L=%s after %s: %s' % (
                line.split()[0], alg, i, len(p), L, 'an unknown history' if acc is None else '%d bytes fed' % len(acc), why)
            if L is not None and L > 8 * len(p):
                if r != 'ERR': return bad('a bit length larger than the data supplied in that call must be refused, got %s' % r)
            elif acc is not None:
                if r == 'ERR': return bad('unexpected exception')
                if len(unhx(r)) != HC.outlen(alg): return bad('digest has %d bytes, advertised %d' % (len(unhx(r)), HC.outlen(alg)))
                if L is None or L % 8 == 0:
                    exp = HC.reference_digest(alg, acc + (p if L is None else p[:L // 8]))
                    if exp is not None and exp != unhx(r): return bad('got %s, the reference digest of the streamed message is %s' % (r, exp.hex()))
            acc = None
        else:
            acc = None
    return None


def check_impl(line, res):
    t = line.split(); op, a = t[0], t[1:]
    if op == 'hashcalls': return check_calls(line, res)
    if op in ('hashseq', 'hashseqc'): return check_seq(line, res)
    if op != 'hash': return None
    alg, m, L = a[0], unhx(a[1]), unoi(a[2])
    L0 = L
    bad = lambda why: 'hash %s |M|=%d L=%s: %s' % (alg, len(m), L0, why)
    if L is not None and L > 8 * len(m):
        return None if res == 'ERR' else bad('a bit length beyond the data must be refused')
    if L == 0 and len(m) > 0: return None
    if res == 'ERR': return bad('unexpected exception')
    d = unhx(res)
    if len(d) != HC.outlen(alg): return bad('digest has %d bytes, advertised %d' % (len(d), HC.outlen(alg)))
    if L is None or L == 0: L = 8 * len(m)
    if L % 8 == 0:
        exp = HC.reference_digest(alg, m[:L // 8])
        if exp is not None and exp != d: return bad('differs from the reference digest %s' % exp.hex())
    else:
        # only the first L bits count: same digest for the shortest byte string holding them, rest of the last byte cleared
        n = (L + 7) // 8
        m2 = m[:n - 1] + bytes([m[n - 1] & (0xff << (8 - L % 8)) & 0xff])
        if m2 != m:
            r2 = HC.run_hash([alg, hx(m2), str(L)])
            if r2 != res: return bad('depends on bits beyond L')
    return None


# ---------------------------------------------------------------------------------------------
def rnd(rng, n): return bytes(rng.getrandbits(8) for _ in range(n))

def hline(alg, m, L): return 'hash %s %s %s' % (alg, hx(m), oi(L))

def boundary_bytes(alg):
    B, c = HC.blocklen(alg), HC.cntlen(alg)
    s = set()
    for k in (1, 2, 3):
        for d in (-2, -1, 0, 1, 2):
            s.add(k * B - c - 1 + d)      # spill boundary: block-1-2*word (in bits), i.e. the last length that fits one block
            s.add(k * B + d)
    s |= {0, 1, 2, 3}
    return sorted(x for x in s if x >= 0)


def cline(alg, *steps): return 'hashcalls %s | %s' % (alg, ' | '.join(steps))
def call(m, L=None): return 'call %s %s' % (hx(m), oi(L))

def first_lengths(alg):
    """byte lengths of a first message that leave the object in every kind of final state: bits in the last block
    without / with a spill block, exactly whole blocks, more than one block"""
    B, c = HC.blocklen(alg), HC.cntlen(alg)
    return [1, 3, B - c - 2, B - c - 1, B - c, B - 1, B, B + 1, 2 * B - c - 1, 2 * B - c, 2 * B]

def reuse_cases(alg, rng, thorough):
    """ONE object, several messages (hashcalls): whatever a call, a refused call, a dangling streaming update, a
    finished streaming digest or a preset counter left behind must not show in the next call"""
    B, c = HC.blocklen(alg), HC.cntlen(alg)
    seconds = [0, 1, 14, B - c - 1, B - c, B + 1] if thorough else [0, 3, B - c - 1, B + 1]
    for n1 in first_lengths(alg):
        for n2 in seconds:
            yield cline(alg, call(rnd(rng, n1)), call(rnd(rng, n2))), 'reuse:call,call'
        # ragged first / second lengths
        m1, m2 = rnd(rng, n1), rnd(rng, rng.randrange(1, B + 2))
        yield cline(alg, call(m1, 8 * n1 - rng.randrange(1, 8)), call(m2, rng.randrange(1, 8 * len(m2) + 1))), 'reuse:ragged'
        # the same message twice, then once more after another one
        yield cline(alg, call(m1), call(m1), call(m2), call(m1)), 'reuse:same message again'
    for n1 in (0, 1, B - 1, B, B + 5):
        m1 = rnd(rng, n1)
        for n2 in ((1, B - c - 1, B) if thorough else (1, B)):
            # a refused first call (L > 8|M|: raised before or inside the padding), then a good one, then a refused one
            yield cline(alg, call(m1, 8 * n1 + 1), call(rnd(rng, n2))), 'reuse:after a refused call'
            yield cline(alg, call(m1, (1 << 40)), call(rnd(rng, n2)), call(m1, 8 * n1 + 8), call(rnd(rng, n2))), 'reuse:after a refused call'
            # streaming left dangling: update(m, padding=False) with and without buffered rest, then a call
            yield cline(alg, 'upd ' + hx(m1), call(rnd(rng, n2))), 'reuse:after a dangling update'
            yield cline(alg, 'upd ' + hx(rnd(rng, B)), 'upd ' + hx(m1), call(rnd(rng, n2)), call(rnd(rng, n2))), 'reuse:after a dangling update'
            # a finished streaming digest, a preset counter
            yield cline(alg, 'upd ' + hx(rnd(rng, B)), 'fin ' + hx(m1), call(rnd(rng, n2))), 'reuse:after a streamed digest'
            yield cline(alg, call(m1), 'preset %d' % (8 * B * rng.randrange(1, 1 << 20)), call(rnd(rng, n2))), 'reuse:after a preset counter'
            yield cline(alg, call(m1), 'fin ' + hx(rnd(rng, n2)), 'upd ' + hx(m1), call(rnd(rng, n2))), 'reuse:after update on a padded object'
    # a longer life of one object, seeded
    for _ in range(4 if not thorough else 40):
        steps = []
        for _ in range(rng.randrange(3, 7)):
            n = rng.choice([rng.randrange(0, 2 * B + 3), rng.choice(first_lengths(alg))])
            m = rnd(rng, n)
            k = rng.randrange(8)
            steps.append(call(m) if k < 4 else call(m, rng.randrange(1, 8 * n + 1)) if k == 4 and n else
                         call(m, 8 * n + rng.randrange(1, 9)) if k == 5 else 'upd ' + hx(m) if k == 6 else 'fin ' + hx(m))
        steps.append(call(rnd(rng, rng.randrange(0, B + 2))))
        yield cline(alg, *steps), 'reuse:seeded life'
    # the same sequences, state of the padding object after every step (code<->model only)
    for n1 in (1, B - c - 1, B):
        m1 = rnd(rng, n1)
        yield 'hashseqc %s | %s | %s | upd %s | %s' % (alg, call(m1), call(rnd(rng, 3)), hx(m1), call(m1, 8 * n1 + 1)), 'reuse:object state'


def sline(alg, *steps): return 'hashseq %s | %s' % (alg, ' | '.join(steps))

def stream_bitlen_cases(alg, rng, thorough):
    """streaming with a bit length on the FINAL piece after 1..3 fed blocks: just beyond the piece (8n+1, +7, +8), up to
    and around `bits fed + 8n` (a length that would be right if it counted from the first bit ever fed), far beyond; the
    valid lengths 8n, 8n-3 for contrast"""
    B = HC.blocklen(alg)
    for k in (1, 2, 3):
        fed = 8 * B * k
        for n in ((0, 3, B - 1, B, B + 2) if thorough else (0, 3, B - 1, B)):
            tail = rnd(rng, n)
            feeds = ['upd ' + hx(rnd(rng, B * k))] if (k + n) % 2 else ['upd ' + hx(rnd(rng, B)) for _ in range(k)]
            Ls = [8 * n + 1, 8 * n + 7, 8 * n + 8, fed + 8 * n - 1, fed + 8 * n, fed + 8 * n + 1]
            if thorough: Ls += [8 * n + 9, fed, fed + 1, fed + 8 * n - 8, 8 * B * (k + 1), 1 << 40]
            for L in Ls:
                if L > 8 * n: yield sline(alg, *feeds, 'fin %s %d' % (hx(tail), L)), 'stream:L>8|piece| after fed blocks'
            for L in (8 * n, 8 * n - 3):
                if L >= 0 and (L > 0 or n == 0): yield sline(alg, *feeds, 'fin %s %d' % (hx(tail), L)), 'stream:valid L on final piece'
    # the refusal leaves the object as it was: the same piece with its true length afterwards; after an abandoned stream + init
    p1, t3 = rnd(rng, B), rnd(rng, 3)
    yield 'hashseqc %s | upd %s | fin %s 32 | fin %s 24' % (alg, hx(p1), hx(t3), hx(t3)), 'stream:L>8|piece| after fed blocks'
    yield sline(alg, 'upd ' + hx(p1), 'init', 'upd ' + hx(p1), 'fin %s %d' % (hx(t3), 8 * B + 24)), 'stream:L>8|piece| after fed blocks'
    yield cline(alg, 'upd ' + hx(p1), 'fin %s 32' % hx(t3), call(t3), call(t3, 32)), 'reuse:after a refused final piece'


def cases(tier, rng):
    if tier == 'search':
        while True:
            alg = rng.choice(HC.NAMES); B = HC.blocklen(alg)
            if rng.randrange(8) == 0:
                cm = list(CARRY.carry_messages(alg, rng, 16, 8, tails=False))
                yield hline(alg, rng.choice(cm)[0], None), 'search'
                continue
            if rng.randrange(4) == 0:
                k = rng.randrange(1, 4); n = rng.choice([0, 3, rng.randrange(0, B + 2)])
                L = 8 * n + rng.choice([1, 7, 8, rng.randrange(1, 8 * B * k + 1), 8 * B * k, 8 * B * k - 1])
                yield sline(alg, *(['upd ' + hx(rnd(rng, B))] * k), 'fin %s %d' % (hx(rnd(rng, n)), L)), 'search'
                continue
            if rng.randrange(3) == 0:
                ms = [rnd(rng, rng.choice([rng.randrange(0, 2 * B + 3), rng.choice(first_lengths(alg))])) for _ in range(rng.randrange(2, 5))]
                first = rng.choice([call(ms[0]), call(ms[0], 8 * len(ms[0]) + 1), 'upd ' + hx(ms[0]), 'fin ' + hx(ms[0])])
                yield cline(alg, first, *[call(m) for m in ms[1:]]), 'search'
                continue
            n = rng.choice([rng.randrange(0, 2 * B + 3), rng.randrange(0, 6 * B), rng.choice(boundary_bytes(alg))])
            m = rnd(rng, n)
            L = rng.choice([None, None, rng.randrange(0, 8 * n + 2), max(8 * n - rng.randrange(8), 0)])
            yield hline(alg, m, L), 'search'
        return
    thorough = tier == 'thorough'
    CARRY.selftest()
    for alg in HC.NAMES:
        B, c = HC.blocklen(alg), HC.cntlen(alg)
        # the carry-out of the word additions of the first rounds (and of the SHA-2 schedule) on its boundary
        for m, tag in CARRY.carry_messages(alg, rng, 16 if thorough else 4, 8 if thorough else 4):
            yield hline(alg, m, None), tag
        # every byte length 0 .. 2 blocks + 2
        for n in range(0, 2 * B + 3):
            yield hline(alg, rnd(rng, n), None), 'bytes:0..2B+2'
        # every L mod 8 around the boundaries
        for n in boundary_bytes(alg):
            for j in range(8):
                L = 8 * n - j
                if L <= 0: continue
                m = rnd(rng, n)
                yield hline(alg, m, L), 'bits:L mod 8 @boundary'
                if j == 0 or thorough:
                    yield hline(alg, m + rnd(rng, rng.randrange(1, 2 * B)), L), 'bits:trailing data'
        # 3..5 blocks (thorough: to 16), seeded
        for _ in range(6 if not thorough else 60):
            n = rng.randrange(2 * B + 3, (5 if not thorough else 16) * B + 3)
            m = rnd(rng, n)
            yield hline(alg, m, None), 'bytes:3-5 blocks'
            yield hline(alg, m, rng.randrange(1, 8 * n + 1)), 'bits:3-5 blocks'
        # ragged lengths anywhere in 0..2 blocks
        for _ in range(40 if not thorough else 600):
            n = rng.randrange(1, 2 * B + 3)
            yield hline(alg, rnd(rng, n), rng.randrange(1, 8 * n + 1)), 'bits:seeded'
        # carry chains / extreme contents
        for n in (0, 1, B - c - 1, B - c, B, 2 * B):
            for fill in (0, 0xff, 0x80):
                yield hline(alg, bytes([fill]) * n, None), 'bytes:constant fill'
        # refused / degenerate lengths
        for n in (0, 1, 3, B - 1, B, B + 1, 2 * B):
            m = rnd(rng, n)
            for L in (8 * n + 1, 8 * n + 8, 8 * n + 8 * B, 1 << 40):
                yield hline(alg, m, L), 'error:L>8|M|'
            yield hline(alg, m, 0), 'L=0'
            yield hline(alg, m, 8 * n), 'L=8|M| explicit'
        # multi-word bit counters: preset padmethod.bitcnt (a multiple of the block size) through the streaming API
        w = HC.ALGS[alg][2]
        pres = [(1 << w) - 8 * B, 1 << w, (1 << w) + 8 * B, (1 << (w + 3)), (1 << (2 * w)) - 16 * B, (1 << (2 * w)) - 8 * B]
        if alg in ('md4', 'md5'): pres += [1 << (2 * w), (1 << (2 * w)) + 8 * B]    # RFC 1320/1321: only the low-order 64 bits are used
        for p in pres:
            for n in (0, 1, B - c - 1, B - c, B - 1, B, B + 1, 2 * B + 5):
                yield 'hashseq %s | preset %d | fin %s' % (alg, p, hx(rnd(rng, n))), 'counter:multi-word'
                if thorough or n in (1, B):
                    yield 'hashseq %s | preset %d | upd %s | fin %s' % (alg, p, hx(rnd(rng, B)), hx(rnd(rng, n))), 'counter:multi-word'
        yield from reuse_cases(alg, rng, thorough)
        yield from stream_bitlen_cases(alg, rng, thorough)


def shrink_calls(line):
    alg, steps = calls_of(line)
    # fewer steps first (keeping the last), then shorter messages
    for i in range(len(steps) - 1):
        if len(steps) > 2: yield cline(alg, *[' '.join(s) for j, s in enumerate(steps) if j != i])
    for i, st in enumerate(steps):
        if st[0] in ('preset', 'init'): continue
        m = unhx(st[1])
        for k in (len(m) // 2, len(m) - 1):
            if 0 <= k < len(m):
                st2 = [st[0], hx(m[:k])] + (['None'] if st[0] == 'call' else [])
                yield cline(alg, *[' '.join(st2 if j == i else s) for j, s in enumerate(steps)])


def shrink_seq(line):
    op = line.split()[0]
    alg, steps = calls_of(line)
    mk = lambda sts: '%s %s | %s' % (op, alg, ' | '.join(' '.join(x) for x in sts))
    for i in range(len(steps) - 1):
        if len(steps) > 2: yield mk(steps[:i] + steps[i + 1:])
    for i, st in enumerate(steps):
        if st[0] == 'upd' and len(st) == 2 and len(unhx(st[1])) > HC.blocklen(alg):
            yield mk(steps[:i] + [['upd', hx(unhx(st[1])[:HC.blocklen(alg)])]] + steps[i + 1:])


def shrink(line):
    t = line.split()
    if t[0] == 'hashcalls':
        yield from shrink_calls(line)
        return
    if t[0] in ('hashseq', 'hashseqc'):
        yield from shrink_seq(line)
        return
    if t[0] != 'hash': return
    m = unhx(t[2]); L = unoi(t[3])
    for k in (len(m) // 2, len(m) - 1):
        if 0 <= k < len(m):
            m2 = m[:k]
            L2 = None if L is None else min(L, 8 * len(m2)) if L <= 8 * len(m) else 8 * len(m2) + 1
            yield 'hash %s %s %s' % (t[1], hx(m2), oi(L2))
    if any(m): yield 'hash %s %s %s' % (t[1], hx(bytes(len(m))), t[3])


def nontrivial(line, impl): return impl != 'ERR' and not impl.startswith('ERR')

LEVEL_TEXT = ('Lean 4 theorem hash_refines: for all ten algorithms, every byte string M and every bit length 0 < L <= 8|M| (or omitted) the one-shot call of '
              'Model.Md/Model.Sha (hand-written mirrors of crysp/md.py, crysp/sha.py over the Bits/Padding models; all constants, tables and bit-expression '
              'lambdas regenerated from the source on every run) returns the digest of the Lean formalisation of RFC 1320 / RFC 1321 / FIPS 180-4 on the first L '
              'bits; plus digest_length, bitlen_too_large, streamed_bitlen_too_large (update(M,bitlen=L,padding) with L > 8|M| is refused from ANY object state and leaves it untouched), final_update_refines (length fields of any size). The model is tied to the code by the translator '
              'and a boundary-directed correspondence stream that also compares the real code with the executable specification and with hashlib.')
LEVEL_NOTE = ('Trusted: Lean kernel; axioms ⊆ {propext, Classical.choice, Quot.sound}; lean/Spec/{Bytes,MerkleDamgard,Md4,Md5,Sha1,Sha2,Sha2Consts}.lean as renderings of '
              'the standards (SHA-2 K/IV tables and SHA-1 K PROVED to follow their generating rule - integer cube/square-root inequalities over the first 80 primes, Proofs.C01_Consts, so Sha2Consts.lean is not in the trusted base; SHA-512/t IVs by the FIPS 180-4 5.3.6 generation function in the kernel; MD5 T typed from RFC 1321); extract.py/runcheck.py/props/C01.py; '
              'CPython semantics are modelled (Model.Py). The theorems are about the model; the stream is what ties the model to the real code. All theorems are stated at '
              'full strength (none is _partial). Theorem list: evidence/C01.json coverage.theorems.')
TECHNIQUE = ('Lean 4 proof: Bits<->BitVec bridge, simulation of the compression loops, padding equality via bit-list semantics of Bits, generic Merkle-Damgard '
             'composition lemma instantiated ten times, kernel enumeration of tables + correspondence check')
