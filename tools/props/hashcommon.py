"""Shared by the C01 / C13 / C14 plugins: execution of `hash`, `hashseq`, `hashseqc`, `hmac`, `hmacseq`, `hmacgen`
op lines on the real crysp objects, and the table of the ten algorithms (names of the line protocol)."""
import hashlib
from props.common import *

# name -> (constructor thunk source, block bytes, digest bytes, word bits, hashlib name or None)
ALGS = {
    'md4': (64, 16, 32, None),
    'md5': (64, 16, 32, 'md5'),
    'sha0': (64, 20, 32, None),
    'sha1': (64, 20, 32, 'sha1'),
    'sha224': (64, 28, 32, 'sha224'),
    'sha256': (64, 32, 32, 'sha256'),
    'sha384': (128, 48, 64, 'sha384'),
    'sha512': (128, 64, 64, 'sha512'),
    'sha512_224': (128, 28, 64, 'sha512_224'),
    'sha512_256': (128, 32, 64, 'sha512_256'),
}
NAMES = list(ALGS)


def mk(alg):
    """a fresh object of the library for the algorithm name"""
    from crysp import md, sha
    if alg == 'md4': return md.MD4()
    if alg == 'md5': return md.MD5()
    if alg == 'sha0': return sha.SHA1(0)
    if alg == 'sha1': return sha.SHA1(1)
    if alg.startswith('sha512_'): return sha.SHA2(512, int(alg[7:]))
    return sha.SHA2(int(alg[3:]))


def blocklen(alg): return ALGS[alg][0]
def outlen(alg): return ALGS[alg][1]
def cntlen(alg): return ALGS[alg][2] // 4          # bytes of the length field


def split_bar(toks):
    out, cur = [], []
    for t in toks:
        if t == '|': out.append(cur); cur = []
        else: cur.append(t)
    out.append(cur)
    return out


def run_hash(a):
    h = mk(a[0])
    return guarded(lambda: hx(h(unhx(a[1]), unoi(a[2]))))


def do_step(h, st):
    """one step (preset <n> | init | upd <hex> [bitlen] | fin <hex> [bitlen] | call <hex> <bitlen|None>) on the object h
    -> (result text, True for a final / call / preset step)"""
    fin = False
    if st[0] == 'preset':
        h.padmethod.bitcnt = int(st[1]); r = '-'; fin = True
    elif st[0] == 'init':
        h.initstate(); r = '-'
    elif st[0] == 'upd' and len(st) > 2:
        r = guarded(lambda: hx(h.update(unhx(st[1]), bitlen=unoi(st[2]))))
    elif st[0] == 'upd':
        r = guarded(lambda: hx(h.update(unhx(st[1]))))
    elif st[0] == 'fin':
        fin = True
        L = unoi(st[2]) if len(st) > 2 else None
        r = guarded(lambda: hx(h.update(unhx(st[1]), bitlen=L, padding=True)))
    elif st[0] == 'call':
        fin = True
        r = guarded(lambda: hx(h(unhx(st[1]), unoi(st[2]))))
    else:
        raise RuntimeError('bad step %r' % st)
    return r, fin


def run_seq(a, full):
    """hashseq/hashseqc <alg> | step | step …  — one object, state printed after every step
    (steps: preset <n> | init (= h.initstate()) | upd <hex> [bitlen] | fin <hex> [bitlen] | call <hex> <bitlen|None>)"""
    steps = split_bar(a)
    h = mk(steps[0][0])
    out = []
    for st in steps[1:]:
        r, fin = do_step(h, st)
        p = h.padmethod
        if full: out.append('%s,%s,%d,%d' % (r, bo(p.padflag), p.bitcnt, p.padcnt))
        elif fin: out.append(r)
        else: out.append('%s,%d' % (r, p.bitcnt))
    return ';'.join(out)


def env_step(name):
    """`env <kind>:<arg>` — activity of the library that involves NONE of the objects of the line (other objects are
    constructed, initialised, fed, called, dropped); whatever it raises is ignored"""
    from crysp import blake
    kind, _, arg = name.partition(':')
    def go():
        if kind == 'new': mk(arg)                                     # an object of one of the ten classes is only constructed
        elif kind == 'hash': mk(arg)(b'abc')                          # … constructed and called
        elif kind == 'feed':                                          # … constructed and fed one block, never finished
            h = mk(arg); h.update(bytes(blocklen(arg)))
        elif kind == 'done':                                          # … a complete stream
            h = mk(arg); h.update(bytes(blocklen(arg))); h.update(b'xyz', padding=True)
        elif kind == 'hmac':
            from crysp.hmac import HMAC
            HMAC(mk(arg), b'key')(b'message')
        elif kind == 'blake':                                         # Blake.initstate builds a SHA2 object for its IV
            h = blake.Blake(int(arg)); h.initstate(); h.update(bytes(h.blocksize // 8))
        elif kind == 'blake2':
            h = blake.Blake2(int(arg)); h.initstate(); h.update(bytes(h.blocksize // 8))
        elif kind == 'blake.s': getattr(blake, 'blake' + arg)(b'abc')  # the module singletons
        else: raise RuntimeError('bad env step %r' % name)
    try: go()
    except RuntimeError: raise
    except Exception: pass


def run_multi(a):
    """hashseqs <alg0>,<alg1>,… | <k> new | <k> <step> | env <name> | …  — SEVERAL objects alive in one line: `<k> new`
    constructs object k (class alg_k; the constructors end with initstate()), `<k> <step>` is a hashseq step on it, `env`
    see env_step.  Printed per step as in hashseq (`-,bitcnt` after new)."""
    steps = split_bar(a)
    algs = steps[0][0].split(',')
    objs, out = {}, []
    for st in steps[1:]:
        if st[0] == 'env':
            env_step(st[1]); out.append('-'); continue
        k = int(st[0])
        if st[1] == 'new':
            objs[k] = mk(algs[k]); out.append('-,%d' % objs[k].padmethod.bitcnt); continue
        h = objs[k]
        r, fin = do_step(h, st[1:])
        out.append(r if fin else '%s,%d' % (r, h.padmethod.bitcnt))
    return ';'.join(out)


def run_calls(a):
    """hashcalls <alg> | step | step …  — ONE object of the library for the whole line; steps as in hashseq plus
    `call <hex> <bitlen|None>` (= h(M,bitlen)); the result lists the outcome of every `call` step only (the other steps
    are executed, whatever they raise, and leave the object in whatever state they leave it)"""
    steps = split_bar(a)
    h = mk(steps[0][0])
    out = []
    for st in steps[1:]:
        if st[0] == 'preset':
            h.padmethod.bitcnt = int(st[1])
        elif st[0] == 'init':
            h.initstate()
        elif st[0] == 'upd' and len(st) > 2:
            guarded(lambda: h.update(unhx(st[1]), bitlen=unoi(st[2])))
        elif st[0] == 'upd':
            guarded(lambda: h.update(unhx(st[1])))
        elif st[0] == 'fin':
            L = unoi(st[2]) if len(st) > 2 else None
            guarded(lambda: h.update(unhx(st[1]), bitlen=L, padding=True))
        elif st[0] == 'call':
            out.append(guarded(lambda: hx(h(unhx(st[1]), unoi(st[2])))))
        else:
            raise RuntimeError('bad step %r' % st)
    return ';'.join(out)


class Toy(object):
    """toy hash object for the generic HMAC lines (same function as Driver.HashD.toyHash)"""
    def __init__(self, blocksize, D):
        self.blocksize = blocksize
        self.D = D
    def __call__(self, m):
        m = bytes(m)
        return bytes((sum((i + j + 1) * x for i, x in enumerate(m)) + len(m) + 7 * j) % 256 for j in range(self.D))


def run_hmac(op, a):
    from crysp.hmac import HMAC
    if op == 'hmac':
        return guarded(lambda: hx(HMAC(mk(a[0]), unhx(a[1]))(unhx(a[2]))))
    if op == 'hmacgen':
        return guarded(lambda: hx(HMAC(Toy(int(a[0]), int(a[1])), unhx(a[2]))(unhx(a[3]))))
    if op == 'hmacseq':
        m = unhx(a[1]); keys = [unhx(k) for k in a[2:]]
        o = HMAC(mk(a[0]))
        out = []
        for k in keys:
            def go():
                o.setkey(k); return hx(o(m))
            out.append(guarded(go))
        return ';'.join(out)
    raise RuntimeError(op)


def run_impl(line):
    t = line.split(); op, a = t[0], t[1:]
    if op == 'hash': return run_hash(a)
    if op == 'hashseqs': return run_multi(a)
    if op == 'hashseq': return run_seq(a, False)
    if op == 'hashseqc': return run_seq(a, True)
    if op == 'hashcalls': return run_calls(a)
    if op in ('hmac', 'hmacgen', 'hmacseq'): return run_hmac(op, a)
    raise RuntimeError('unknown op ' + op)


def hashlib_digest(alg, data):
    n = ALGS[alg][3]
    return None if n is None else hashlib.new(n, data).digest()


# ---- small independent references for the two algorithms hashlib does not have (byte strings only) ----------------
def _rol(x, n): return ((x << n) | (x >> (32 - n))) & 0xffffffff

def ref_md4(data):
    import struct
    msg = data + b'\x80' + b'\0' * ((55 - len(data)) % 64) + struct.pack('<Q', (8 * len(data)) & (2**64 - 1))
    A, B, C, D = 0x67452301, 0xefcdab89, 0x98badcfe, 0x10325476
    for off in range(0, len(msg), 64):
        X = struct.unpack('<16L', msg[off:off + 64])
        a, b, c, d = A, B, C, D
        for i in range(16):
            k, s = i, (3, 7, 11, 19)[i % 4]
            a, b, c, d = d, _rol((a + ((b & c) | (~b & d)) + X[k]) & 0xffffffff, s), b, c
        for i in range(16):
            k, s = (i % 4) * 4 + i // 4, (3, 5, 9, 13)[i % 4]
            a, b, c, d = d, _rol((a + ((b & c) | (b & d) | (c & d)) + X[k] + 0x5a827999) & 0xffffffff, s), b, c
        for i in range(16):
            k, s = int('{:04b}'.format(i)[::-1], 2), (3, 9, 11, 15)[i % 4]
            a, b, c, d = d, _rol((a + (b ^ c ^ d) + X[k] + 0x6ed9eba1) & 0xffffffff, s), b, c
        A, B, C, D = (A + a) & 0xffffffff, (B + b) & 0xffffffff, (C + c) & 0xffffffff, (D + d) & 0xffffffff
    return struct.pack('<4L', A, B, C, D)

def ref_sha0(data):
    import struct
    msg = data + b'\x80' + b'\0' * ((55 - len(data)) % 64) + struct.pack('>Q', (8 * len(data)) & (2**64 - 1))
    H = [0x67452301, 0xefcdab89, 0x98badcfe, 0x10325476, 0xc3d2e1f0]
    for off in range(0, len(msg), 64):
        W = list(struct.unpack('>16L', msg[off:off + 64]))
        for t in range(16, 80): W.append(W[t - 3] ^ W[t - 8] ^ W[t - 14] ^ W[t - 16])
        a, b, c, d, e = H
        for t in range(80):
            if t < 20: f, k = (b & c) | (~b & d), 0x5a827999
            elif t < 40: f, k = b ^ c ^ d, 0x6ed9eba1
            elif t < 60: f, k = (b & c) | (b & d) | (c & d), 0x8f1bbcdc
            else: f, k = b ^ c ^ d, 0xca62c1d6
            a, b, c, d, e = (_rol(a, 5) + f + e + k + W[t]) & 0xffffffff, a, _rol(b, 30), c, d
        H = [(x + y) & 0xffffffff for x, y in zip(H, (a, b, c, d, e))]
    return struct.pack('>5L', *H)

def reference_digest(alg, data):
    """secondary oracle on byte strings: hashlib where it has the algorithm, else the small references above"""
    if alg == 'md4': return ref_md4(data)
    if alg == 'sha0': return ref_sha0(data)
    return hashlib_digest(alg, data)
