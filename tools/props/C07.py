"""C07 — Bits: construction and conversions are faithful under every bit order.

run_impl executes the op line on the real crysp.bits; check_impl is the property's own predicate: an
independent reference written directly on bit sequences (lists of 0/1, index 0 = bit 0), not sharing code
with either crysp or the Lean model."""
from props.common import *

ID = 'C07'
LEAN_PROOFS = ['Proofs.C07']
GEN_ITEMS = ['BitsG']
RULE = ('op lines = (operation, width, value) enumerated exhaustively for small widths and at 2^k-1,2^k,2^k+1 for large '
        'ones, byte strings x every bitorder incl. non-divisors; distinct lines; non-trivial = implementation returned a value')
TRUSTED = ['Model.Bits.toStr/todots model the hex-table rendering by its meaning (validated by the correspondence stream only)',
           'CPython int/bytes/struct semantics (Model.Py) are modelled, validated by enumeration in this stream']
ASSUMPTIONS = ['python -O (asserts stripped) is out of scope', 'negative bitorder of magnitude > 1 is compared code<->model only (the documentation does not define it)']


# ---------------------------------------------------------------------------------------------
def run_impl(line):
    from crysp import bits as B
    Bits = B.Bits
    t = line.split()
    op, a = t[0], t[1:]
    def go():
        if op == 'bits.revbyte': return str(B.reverse_byte(int(a[0])))
        if op == 'bits.ofint': return fb(Bits(int(a[0]), unoi(a[1])))
        if op == 'bits.oflist': return fb(Bits(unil(a[0]), unoi(a[1])))
        if op == 'bits.ofbytes': return fb(Bits(unhx(a[0]), unoi(a[1]), int(a[2])))
        if op == 'bits.ofbits': return fb(Bits(mkbits(a[0]), unoi(a[1])))
        if op == 'bits.reload':
            b = mkbits(a[0]); b.load(unhx(a[1]), int(a[2])); return fb(b)
        b = mkbits(a[0]) if a[0][0] == 'b' else None
        if op == 'bits.bit': return str(b.bit(int(a[1])))
        if op == 'bits.int':
            s = int(a[1])
            return str(b.int(s)) if s != 1 else str(int(b))
        if op == 'bits.str': return 's' + str(b)
        if op == 'bits.dots': return 's' + b.todots().replace(' ', '_')
        if op == 'bits.bytes': return hx(b.bytes())
        if op == 'bits.hex': return 'x' + b.hex().decode()
        if op == 'bits.bitlist': return il(b.bitlist(int(a[1])))
        if op == 'bits.iter': return il(list(b))
        if op == 'bits.len': return str(len(b))
        if op == 'bits.pack': return hx(B.pack(b, '>L' if unbo(a[1]) else '<L'))
        if op == 'bits.unpack':
            v, sz = B.unpack(unhx(a[0]), unbo(a[1])); return '%d:%d' % (sz, v)
        if op == 'bits.rt.bytes': return fb(Bits(b.bytes(), size=b.size))
        if op == 'bits.rt.pack':
            be = unbo(a[1]); return fb(Bits(*B.unpack(B.pack(b, '>L' if be else '<L'), be)))
        if op == 'bits.rt.bitlist': return fb(Bits(b.bitlist()))
        if op == 'bits.rt.str': return fb(Bits([int(c) for c in str(b)]))
        raise RuntimeError('unknown op ' + op)
    return guarded(go)


# ---------------------------------------------------------------------------------------------
# reference on bit sequences
def seq_of(size, ival): return [(ival >> i) & 1 for i in range(size)]
def res_seq(res):
    s, v = res.split(':'); s, v = int(s), int(v)
    return s, v, seq_of(s, v)
def fit(seq, n): return (seq + [0] * n)[:n]

def ref_load(s, border):
    """documentation of Bits.load: bit sequence for bytes s; None = error; 'skip' = not defined by the doc"""
    l = len(s)
    if border == -1: return [(b >> (7 - j)) & 1 for b in s for j in range(8)]
    if border == 1: return [(b >> j) & 1 for b in s for j in range(8)]
    if border < 0: return 'skip'
    k = border if border > 0 else (l or 1)
    if l % k: return None
    out = []
    for g in range(0, l, k):            # groups in order; each a big-endian integer, its bits lsb first
        grp = s[g:g + k]
        v = int.from_bytes(grp, 'big')
        out += [(v >> j) & 1 for j in range(8 * k)]
    return out


def check_impl(line, res):
    t = line.split(); op, a = t[0], t[1:]
    bad = lambda why: '%s: %s' % (op, why)
    if op == 'bits.revbyte':
        n = int(a[0])
        return None if res == str(int(format(n, '08b')[::-1], 2)) else bad('not the bit reversal')
    if op == 'bits.reload':
        exp = ref_load(unhx(a[1]), int(a[2]))
        if exp == 'skip': return None
        if exp is None: return None if res == 'ERR' else bad('length not a multiple of bitorder must be refused')
        if res == 'ERR': return bad('unexpected exception')
        s_, v_, got = res_seq(res)
        return None if (s_ == len(exp) and got == exp and not (v_ >> s_)) else bad('load() on an existing vector: old contents show through')
    if op in ('bits.ofint', 'bits.oflist', 'bits.ofbytes', 'bits.ofbits'):
        if op == 'bits.ofint':
            v = abs(int(a[0])); n = unoi(a[1])
            exp = seq_of(v.bit_length(), v) if n is None else fit(seq_of(v.bit_length(), v), n)
        elif op == 'bits.oflist':
            l = [x & 1 for x in unil(a[0])]; n = unoi(a[1]); exp = l if n is None else fit(l, n)
        elif op == 'bits.ofbits':
            s, v = unbt(a[0]); n = unoi(a[1]); exp = seq_of(s, v) if n is None else fit(seq_of(s, v), n)
        else:
            exp = ref_load(unhx(a[0]), int(a[2])); n = unoi(a[1])
            if exp == 'skip': return None
            if exp is None: return None if res == 'ERR' else bad('length not a multiple of bitorder must be refused')
            if n is not None: exp = fit(exp, n)
        if res == 'ERR': return bad('unexpected exception')
        s, v, got = res_seq(res)
        if s != len(exp): return bad('size %d, expected %d' % (s, len(exp)))
        if got != exp: return bad('bit sequence differs')
        if v >> s: return bad('bits beyond size not cleared')
        return None
    if op == 'bits.unpack':
        s = unhx(a[0]); be = unbo(a[1])
        exp = '%d:%d' % (8 * len(s), int.from_bytes(s, 'big' if be else 'little'))
        return None if res == exp else bad('expected %s' % exp)
    n, x = unbt(a[0]); sq = seq_of(n, x)
    if op == 'bits.bit':
        i = int(a[1])
        if 0 <= i < n: exp = str(sq[i])
        elif -n <= i < 0: exp = str(sq[n + i])
        else: return None if res == 'ERR' else bad('index out of range must be refused')
        return None if res == exp else bad('expected %s' % exp)
    if op == 'bits.int':
        s = int(a[1])
        if s == -1:
            if n == 0: return None
            exp = x - (1 << n) * sq[n - 1]
        else: exp = x
        return None if res == str(exp) else bad('expected %d' % exp)
    if op == 'bits.str': return None if res == 's' + ''.join(map(str, sq)) else bad('str')
    if op == 'bits.dots': return None if res == 's|' + ''.join('.' if b else '_' for b in sq) + '|' else bad('dots')
    if op in ('bits.bytes', 'bits.hex'):
        pad = sq + [0] * (-n % 8)
        exp = bytes(int(''.join(map(str, pad[i:i + 8])), 2) for i in range(0, len(pad), 8))
        return None if res == hx(exp) else bad('expected %s' % hx(exp))
    if op == 'bits.bitlist':
        exp = sq[::-1] if int(a[1]) == -1 else sq
        return None if res == il(exp) else bad('bitlist')
    if op == 'bits.iter': return None if res == il(sq) else bad('iter')
    if op == 'bits.len': return None if res == str(n) else bad('len')
    if op == 'bits.pack':
        exp = x.to_bytes((n + 7) // 8, 'big' if unbo(a[1]) else 'little')
        return None if res == hx(exp) else bad('expected %s' % hx(exp))
    if op.startswith('bits.rt.'):
        return None if res == '%d:%d' % (n, x) else bad('round trip returned %s' % res)
    return None


# ---------------------------------------------------------------------------------------------
VAL_OPS = ['bits.str', 'bits.dots', 'bits.bytes', 'bits.hex', 'bits.iter', 'bits.len', 'bits.rt.bytes', 'bits.rt.bitlist', 'bits.rt.str']

def value_lines(n, x):
    b = bt(n, x)
    for op in VAL_OPS: yield '%s %s' % (op, b), op
    for d in (1, -1): yield 'bits.bitlist %s %d' % (b, d), 'bits.bitlist'
    for s in (1, -1): yield 'bits.int %s %d' % (b, s), 'bits.int'
    for be in 'FT': yield 'bits.pack %s %s' % (b, be), 'bits.pack'
    if n % 8 == 0:
        for be in 'FT': yield 'bits.rt.pack %s %s' % (b, be), 'bits.rt.pack'
    for i in {0, 1, n - 1, n, -1, -n, -n - 1, n // 2}: yield 'bits.bit %s %d' % (b, i), 'bits.bit'
    for sz in {None, 0, n, n + 3, max(n - 1, 0)}:
        yield 'bits.ofint %d %s' % (x, oi(sz)), 'bits.ofint'
        yield 'bits.ofbits %s %s' % (b, oi(sz)), 'bits.ofbits'
        yield 'bits.oflist %s %s' % (il(seq_of(n, x)), oi(sz)), 'bits.oflist'


def bytes_lines(s, rng=None):
    l = len(s)
    for prev in ('b0:0', 'b8:255', 'b32:2882343476', 'b%d:%d' % (8 * l + 8, (1 << (8 * l + 8)) - 1)):
        for bo_ in (-1, 1, 0, 2, 4, 8):
            yield 'bits.reload %s %s %d' % (prev, hx(s), bo_), 'bits.reload'
    orders = {-1, 1, 0, 2, 3, 4, 8, -2, -4} | {k for k in range(1, l + 1) if l % k == 0} | {l + 1}
    for bo_ in sorted(orders):
        for sz in (None, 8 * l, max(8 * l - 3, 0), 8 * l + 5, 13):
            yield 'bits.ofbytes %s %s %d' % (hx(s), oi(sz), bo_), 'bits.ofbytes'
    for be in 'FT': yield 'bits.unpack %s %s' % (hx(s), be), 'bits.unpack'


def cases(tier, rng):
    if tier == 'search':
        while True:
            n = rng.choice([rng.randrange(0, 20), rng.randrange(0, 300), 8 * rng.randrange(0, 48)])
            x = rng.getrandbits(n) if n else 0
            yield from value_lines(n, x)
            yield from bytes_lines(bytes(rng.getrandbits(8) for _ in range(rng.randrange(0, 44))))
        return
    for b in range(256): yield 'bits.revbyte %d' % b, 'bits.revbyte'
    full = 8 if tier == 'quick' else 12
    for n in range(0, full + 1):
        for x in range(1 << n): yield from value_lines(n, x)
    # widths above the exhaustive range: sampled, incl. 2^k-1, 2^k, 2^k+1 sizes and extreme values
    samp = 40 if tier == 'quick' else 400
    for n in range(full + 1, 17):
        vals = {0, 1, (1 << n) - 1, 1 << (n - 1), (1 << (n - 1)) - 1} | {rng.getrandbits(n) for _ in range(samp)}
        for x in sorted(vals): yield from value_lines(n, x)
    big = sorted({(1 << k) + d for k in range(4, 12) for d in (-1, 0, 1)} | {24, 40, 48, 56, 72, 96, 120, 136, 320})
    for n in big:
        vals = {0, 1, (1 << n) - 1, 1 << (n - 1), rng.getrandbits(n), rng.getrandbits(n) | (1 << (n - 1))}
        for x in sorted(vals): yield from value_lines(n, x)
    # every byte count 1..40 (every Q/L/H/B decomposition) for pack/unpack round trips
    for cnt in range(0, 41):
        n = 8 * cnt
        for _ in range(2 if tier == 'quick' else 8):
            x = rng.getrandbits(n) | (1 << (n - 1)) if n else 0
            for be in 'FT':
                yield 'bits.rt.pack %s %s' % (bt(n, x), be), 'bits.rt.pack'
                yield 'bits.unpack %s %s' % (hx(x.to_bytes(cnt, 'little')), be), 'bits.unpack'
    # byte strings under every bit order
    for l in range(0, 13 if tier == 'quick' else 25):
        for _ in range(2 if tier == 'quick' else 6):
            yield from bytes_lines(bytes(rng.getrandbits(8) for _ in range(l)))
    for s in (b'\x80', b'\x01\x0f', b'\x0b\x0a\x0d\x0c', b'\x0c\x0d\x0a\x0b', b'\xff' * 9, bytes(range(1, 41))):
        yield from bytes_lines(s)
    # negative ints, lists with non-0/1 entries
    for v in (-1, -5, -256, -(1 << 70)):
        for sz in (None, 3, 80): yield 'bits.ofint %d %s' % (v, oi(sz)), 'bits.ofint'
    for l in ([2, 3, 4, 5], [1, 0, 7], []):
        for sz in (None, 2, 6): yield 'bits.oflist %s %s' % (il(l), oi(sz)), 'bits.oflist'


def shrink(line):
    t = line.split()
    for i, tok in enumerate(t[1:], 1):
        if tok[0] == 'x' and len(tok) > 3:
            yield ' '.join(t[:i] + ['x' + tok[3:]] + t[i + 1:])
            yield ' '.join(t[:i] + [tok[:-2]] + t[i + 1:])

LEVEL_TEXT = ('Lean 4 theorems about Model.Bits (the hand-written mirror of crysp/bits.py) for every size, value and byte string; '
              'the model is tied to the current source by the translator (probed reverse_byte table) and by an exhaustive small-width / '
              'boundary-directed correspondence stream that also evaluates an independent bit-sequence reference on the real code.')
LEVEL_NOTE = ('Trusted: Lean kernel; axioms ⊆ {propext, Classical.choice, Quot.sound}; extract.py/runcheck.py/props/C07.py; CPython semantics are modelled '
              '(Model.Py). str()/todots() are modelled by meaning. Theorem list: evidence/C07.json coverage.theorems.')
TECHNIQUE = 'Lean 4 proof (induction / testBit extensionality / kernel enumeration of complete byte domain) + correspondence check'
