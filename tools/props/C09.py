"""C09 — Padding: exact message||pad in full blocks, true bit counts, unpad inverts pad.

run_impl drives the real generator objects of crysp/padding.py step by step (next(), reading bitcnt/padcnt/padflag of
the object after every yield; histories may reuse the object through reset() / the .new property and call remove()).  check_impl is the property's own predicate: an independent bit-level reference
(append-one-bit-at-a-time loops on Python lists, sharing no code with crysp or with the Lean Spec) plus the counter /
block-size / block-count / refusal laws of the property, evaluated on what the implementation returned."""
from props.common import *

ID = 'C09'
LEAN_PROOFS = ['Proofs.C09']
GEN_ITEMS = []
RULE = ('op lines = (scheme, block size, word/digest size, history of iterblocks calls, reset()/.new and remove() on one object | single padded call | remove round trip | '
        'remove of an arbitrary byte string); distinct lines; non-trivial = the implementation returned a value (for pad.iter: '
        'at least one block was yielded)')
TRUSTED = ['Model.Padding models a Python generator by the list of its yields, each paired with the object state observable at that '
           'yield, the state left behind and the exception that ended it (validated by stepping the real generators with next())',
           'Spec.Padding is a rendering of ISO/IEC 9797-1 methods 1 and 2, RFC 5652 (PKCS#7), ANSI X9.23, RFC 1321, FIPS 180-4 '
           'and the BLAKE submission']
ASSUMPTIONS = ['python -O (asserts stripped) is out of scope',
               'theorem hypotheses (Valid p): block size a positive multiple of 8; PKCS#7/X9.23 block length < 256 bytes; MD/SHA word size a '
               'multiple of 4 with 2w+1 <= B (below that the code raises for some messages: known finding C09-md-small-block); BLAKE with '
               'its own block size; messages are lists of byte values; byte-granular schemes get no bit length',
               'continuation with an EMPTY last piece holds for the schemes that always pad (bit, PKCS#7, X9.23, MD, SHA, BLAKE); zero padding '
               'and the unpadded scheme then pad/emit the empty piece on its own (their last full block is already out)',
               'block size 0 (iterblocks never terminates) is out of domain',
               'byte-granular schemes (none, PKCS#7, X9.23) with an explicit bitlen are compared code<->model only (the property gives '
               'bit lengths to bit-granular schemes only)',
               'PKCS#7 / X9.23 are defined for blocks of fewer than 256 bytes',
               'the unpadded scheme emits the (possibly empty or short) rest of the message as its last block: at least one block per final call']
LINE_TIMEOUT = 120

SCHEMES = ('no', 'null', 'bit', 'pkcs7', 'x923', 'md', 'sha', 'blake')
BITGRAN = ('null', 'bit', 'md', 'sha', 'blake')


# ---------------------------------------------------------------------------------------------
def mkobj(s, B, w):
    from crysp import padding as P
    if s == 'no': return P.nopadding(B)
    if s == 'null': return P.Nullpadding(B)
    if s == 'bit': return P.bitpadding(B)
    if s == 'pkcs7': return P.pkcs7(B)
    if s == 'x923': return P.X923(B)
    if s == 'md': return P.MDpadding(B, w)
    if s == 'sha': return P.SHApadding(B, w)
    if s == 'blake': return P.Blakepadding(w)
    raise RuntimeError('unknown scheme ' + s)


def st(o): return '%d,%d,%s' % (o.bitcnt, o.padcnt, bo(o.padflag))


def step_call(o, m, L, pad):
    """one iterblocks call stepped with next(); returns (trace string, list of blocks, raised?)"""
    kw = {'padding': pad}
    if L is not None: kw['bitlen'] = L
    ys, blocks, err = [], [], False
    try:
        g = o.iterblocks(m, **kw)
        while True:
            try:
                b = next(g)
            except StopIteration:
                break
            blocks.append(bytes(b))
            ys.append(hx(b) + ':' + st(o))
    except (KeyboardInterrupt, SystemExit):
        raise
    except Exception as e:
        if type(e).__name__ == '_Timeout': raise
        err = True
    return ';'.join(ys) + ('!' if err else '') + '=' + st(o), blocks, err


def run_steps(o, steps):
    """the steps of a pad.iter history on the real object o: iterblocks calls, `reset` (o.reset()) / `new` (the o.new
    property), `remove [x<bytes>]` (o.remove of the given bytes or of everything emitted since the last reset)"""
    out, emitted = [], b''
    for c in steps:
        if c[0] == 'reset':
            o.reset(); emitted = b''
            out.append('R=' + st(o))
        elif c[0] == 'new':
            o2 = o.new
            if o2 is not o: raise RuntimeError('.new returned another object')
            emitted = b''
            out.append('R=' + st(o))
        elif c[0] == 'remove':
            arg = unhx(c[1]) if len(c) > 1 else emitted
            try:
                r = 'M' + hx(o.remove(arg))
            except (KeyboardInterrupt, SystemExit):
                raise
            except Exception as e:
                if type(e).__name__ == '_Timeout': raise
                r = 'M!'
            out.append(r + '=' + st(o))
        else:
            tr, blocks, _ = step_call(o, unhx(c[0]), unoi(c[1]), unbo(c[2]))
            emitted += b''.join(blocks)
            out.append(tr)
    return out


def parse_header(toks):
    s, B = toks[0], int(toks[1])
    w = int(toks[2]) if len(toks) > 2 else 0
    return s, B, w


def split_bar(toks):
    out, cur = [], []
    for t in toks:
        if t == '|': out.append(cur); cur = []
        else: cur.append(t)
    out.append(cur)
    return out


def run_impl(line):
    t = line.split()
    op, a = t[0], t[1:]
    def go():
        if op == 'pad.iter':
            parts = split_bar(a)
            s, B, w = parse_header(parts[0])
            return '|'.join(run_steps(mkobj(s, B, w), parts[1:]))
        if op in ('pad.cat', 'pad.rt'):
            s, B, w = parse_header(a[:-2])
            m, L = unhx(a[-2]), unoi(a[-1])
            o = mkobj(s, B, w)
            kw = {} if L is None else {'bitlen': L}
            c = b''.join(o.iterblocks(m, **kw))
            if op == 'pad.cat': return hx(c)
            return hx(o.remove(c))
        if op == 'pad.remove':
            s, B, w = parse_header(a[:-1])
            return hx(mkobj(s, B, w).remove(unhx(a[-1])))
        raise RuntimeError('unknown op ' + op)
    return guarded(go)


# ---------------------------------------------------------------------------------------------
# independent reference: bit lists, one bit appended at a time
def bits_of(m): return [(b >> (7 - j)) & 1 for b in m for j in range(8)]

def bytes_of(bits):
    bits = list(bits)
    while len(bits) % 8: bits.append(0)
    return bytes(int(''.join(map(str, bits[i:i + 8])), 2) for i in range(0, len(bits), 8))

def blake_params(h): return (1024, 64) if h > 256 else (512, 32)

def ref_pad(s, B, w, bits):
    """padded bit string the standard prescribes for the whole message `bits`"""
    n = len(bits)
    out = list(bits)
    if s == 'no': return out
    if s == 'null':
        while len(out) == 0 or len(out) % B: out.append(0)
        return out
    if s == 'bit':
        out.append(1)
        while len(out) % B: out.append(0)
        return out
    if s in ('pkcs7', 'x923'):
        assert n % 8 == 0
        k = B // 8
        q = k - (n // 8) % k
        tail = [q] * q if s == 'pkcs7' else [0] * (q - 1) + [q]
        return out + bits_of(bytes(tail))
    if s in ('md', 'sha'):
        out.append(1)
        while (len(out) + 2 * w) % B: out.append(0)
        nb = (2 * w) // 8
        return out + bits_of((n % (1 << (2 * w))).to_bytes(nb, 'little' if s == 'md' else 'big'))
    if s == 'blake':
        B, ww = blake_params(w)
        out.append(1)
        while (len(out) + 1 + 2 * ww) % B: out.append(0)
        out.append(1 if w in (256, 512) else 0)
        return out + bits_of((n % (1 << (2 * ww))).to_bytes(2 * ww // 8, 'big'))
    raise RuntimeError(s)


def ref_unpad(s, k, c):
    """PKCS#7 / X9.23: the message, or None when c does not end in a valid pad for blocks of k bytes"""
    if len(c) == 0: return None
    q = c[-1]
    if q < 1 or q > k or q > len(c): return None
    tail = c[len(c) - q:]
    if s == 'pkcs7':
        if any(x != q for x in tail): return None
    else:
        if any(x != 0 for x in tail[:-1]): return None
    return c[:len(c) - q]


def eff_block(s, B, w): return blake_params(w)[0] if s == 'blake' else B

def in_spec_domain(s, B, w, L):
    if B % 8 or B <= 0: return False
    if s in ('pkcs7', 'x923') and B // 8 >= 256: return False
    if s not in BITGRAN and L is not None: return False
    return True


def parse_trace(tr):
    body, fin = tr.rsplit('=', 1)
    err = body.endswith('!')
    if err: body = body[:-1]
    ys = []
    if body:
        for y in body.split(';'):
            blk, stt = y.split(':')
            bc, pc, pf = stt.split(',')
            ys.append((unhx(blk), int(bc), int(pc), pf == 'T'))
    bc, pc, pf = fin.split(',')
    return ys, (int(bc), int(pc), pf == 'T'), err


def check_iter(line, res):
    parts = split_bar(line.split()[1:])
    s, B0, w = parse_header(parts[0])
    bad = lambda i, why: 'pad.iter call %d: %s' % (i, why)
    if B0 % 8 or B0 <= 0:
        return None if res == 'ERR' else 'pad.iter: a block size that is not a whole number of bytes must be refused'
    if res == 'ERR': return 'pad.iter: constructor raised'
    B = eff_block(s, B0, w)
    bl = B // 8
    traces = res.split('|')
    if len(traces) != len(parts) - 1: return 'pad.iter: %d traces for %d calls' % (len(traces), len(parts) - 1)
    steps = parts[1:]
    hist = []          # message bits fed so far (since the last reset)
    final = False
    cur = (0, 0, False)   # state the object must be in
    emitted = b''      # blocks emitted since the last reset
    inspec = True      # every call since the last reset is one the property speaks about
    for i, (c, tr) in enumerate(zip(steps, traces)):
        if c[0] in ('reset', 'new'):
            # after reset()/.new the object is indistinguishable from a fresh one: counters (0,0,False) …
            if tr != 'R=0,0,F': return bad(i, 'state after %s is %s, a fresh object has 0,0,F' % (c[0], tr[2:]))
            # … and the remaining steps give what a FRESH real object gives
            fresh = guarded(lambda: '|'.join(run_steps(mkobj(s, B0, w), steps[i + 1:])))
            if fresh != '|'.join(traces[i + 1:]):
                ft = fresh.split('|')
                for j in range(i + 1, len(steps)):
                    if j - i - 1 >= len(ft) or ft[j - i - 1] != traces[j]:
                        return bad(j, 'after %s at step %d the object gives %s, a fresh object gives %s'
                                   % (c[0], i, traces[j][-60:], ft[j - i - 1][-60:] if j - i - 1 < len(ft) else fresh))
            hist, final, cur, emitted, inspec = [], False, (0, 0, False), b'', True
            continue
        if c[0] == 'remove':
            if not tr.startswith('M') or '=' not in tr: return bad(i, 'malformed remove trace')
            body, fin = tr[1:].rsplit('=', 1)
            bc, pc, pf = fin.split(',')
            if (int(bc), int(pc), pf == 'T') != cur: return bad(i, 'remove changed the state')
            arg = unhx(c[1]) if len(c) > 1 else emitted
            if not inspec: continue
            if not final and s in ('no', 'null') and len(arg) > 0:
                # no pad bit was added to this message: nothing may be stripped
                if body != hx(arg): return bad(i, 'remove() on a message without pad stripped bytes: %s' % body[-40:])
            elif final and len(c) == 1:
                exp = hx(bytes_of(hist))
                if body != exp: return bad(i, 'remove() of the padded message gives %s, the message is %s' % (body[-40:], exp[-40:]))
            continue
        m, L, pad = unhx(c[0]), unoi(c[1]), unbo(c[2])
        ys, fin, err = parse_trace(tr)
        emitted += b''.join(y[0] for y in ys)
        Leff = 8 * len(m) if L is None else L
        refuse = final or Leff > 8 * len(m) or (not pad and Leff % B)
        if refuse:
            if not err or ys: return bad(i, 'must be refused (after the pad / bitlen beyond the data / unpadded non-multiple)')
            if fin != cur: return bad(i, 'a refused call changed the state')
            continue
        if not in_spec_domain(s, B, w, L):
            # byte-granular scheme with a bit length: code<->model only, until the next reset
            if not any(x[0] in ('reset', 'new') for x in steps[i + 1:]): return None
            inspec = False
        if not inspec:
            final, cur = fin[2], fin
            continue
        fed = len(hist)
        mb = bits_of(m)[:Leff]
        if not pad:
            exp = bytes_of(mb)
            if err: return bad(i, 'unexpected exception')
            if b''.join(y[0] for y in ys) != exp: return bad(i, 'unpadded blocks are not the message')
            for j, y in enumerate(ys):
                if len(y[0]) != bl: return bad(i, 'block %d has %d bytes' % (j, len(y[0])))
                if y[1] != fed + (j + 1) * B: return bad(i, 'bitcnt %d at block %d, expected %d' % (y[1], j, fed + (j + 1) * B))
                if y[2] != 0 or y[3]: return bad(i, 'padcnt/padflag set by an unpadded call (padcnt %d, no pad bit was added)' % y[2])
            if fin != (fed + Leff, 0, False): return bad(i, 'state after unpadded call %r' % (fin,))
            hist += mb
            cur = fin
            continue
        # final (padded) call
        whole = hist + mb
        full = ref_pad(s, B0, w, whole)
        if s == 'null' and fed > 0 and Leff == 0:
            # zero padding cannot be streamed with an empty last piece (the last full block is already out): the call pads
            # its own, empty, piece as ISO 9797-1 method 1 prescribes (one block of zeros)
            full = whole + ref_pad(s, B0, w, [])
        exp = bytes_of(full[fed:])
        if err:
            if small_block(s, B0, w) and any(x[0] in ('reset', 'new') for x in steps[i + 1:]):
                inspec = False; final, cur = fin[2], fin; continue          # known finding C09-md-small-block; go on after the next reset
            return bad(i, 'unexpected exception (expected %d bytes)' % len(exp))
        got = b''.join(y[0] for y in ys)
        if got != exp: return bad(i, 'concatenation %s differs from the specified %s' % (got.hex()[-80:], exp.hex()[-80:]))
        nexp = max(1, (len(exp) + bl - 1) // bl) if s == 'no' else len(exp) // bl
        if len(ys) != nexp: return bad(i, '%d blocks, the minimum is %d' % (len(ys), nexp))
        for j, y in enumerate(ys):
            if len(y[0]) != bl and not (s == 'no' and j == len(ys) - 1): return bad(i, 'block %d has %d bytes' % (j, len(y[0])))
            e = fed + min(Leff, (j + 1) * B) if j * B < Leff else 0
            if y[1] != e: return bad(i, 'bitcnt %d at block %d, expected %d' % (y[1], j, e))
            if not y[3] and y[2] != 0: return bad(i, 'padcnt %d at block %d, before any pad bit was added' % (y[2], j))
        if not fin[2] or not ys[-1][3]: return bad(i, 'padflag not set after the final block')
        npad = len(full) - len(whole)
        if s in ('no', 'null', 'bit', 'pkcs7', 'x923'):
            if fin[1] != npad or ys[-1][2] != npad: return bad(i, 'padcnt %d, %d pad bits were added' % (fin[1], npad))
        elif fin[1] != 0: return bad(i, 'padcnt %d for a scheme that does not count pad bits' % fin[1])
        if fin != ys[-1][1:]: return bad(i, 'state changed after the last block')
        hist = whole
        final = True
        cur = fin
    return None


def check_impl(line, res):
    t = line.split(); op, a = t[0], t[1:]
    if op == 'pad.iter': return check_iter(line, res)
    if op in ('pad.cat', 'pad.rt'):
        s, B, w = parse_header(a[:-2])
        m, L = unhx(a[-2]), unoi(a[-1])
        if B % 8 or B <= 0: return None if res == 'ERR' else op + ': bad block size must be refused'
        if not in_spec_domain(s, B, w, L): return None
        Leff = 8 * len(m) if L is None else L
        if Leff > 8 * len(m): return None if res == 'ERR' else op + ': bitlen beyond the data must be refused'
        mb = bits_of(m)[:Leff]
        exp = bytes_of(ref_pad(s, B, w, mb)) if op == 'pad.cat' else bytes_of(mb)
        if res == 'ERR': return op + ': unexpected exception'
        return None if res == hx(exp) else '%s: expected …%s' % (op, exp.hex()[-64:])
    if op == 'pad.remove':
        s, B, w = parse_header(a[:-1])
        if s not in ('pkcs7', 'x923') or B % 8 or B <= 0 or B // 8 >= 256: return None
        exp = ref_unpad(s, B // 8, unhx(a[-1]))
        if exp is None: return None if res == 'ERR' else 'pad.remove: malformed padding accepted'
        return None if res == hx(exp) else 'pad.remove: valid padding rejected or wrongly stripped'
    return None


def nontrivial(line, res):
    if res == 'ERR': return False
    if line.startswith('pad.iter'): return ':' in res
    return True


# ---------------------------------------------------------------------------------------------
# generators
def hdr(s, B, w): return '%s %d %d' % (s, B, w) if s in ('md', 'sha', 'blake') else '%s %d' % (s, B)

def small_block(s, B, w):
    """MD/SHA strengthening with a block that cannot hold the 1 bit and the length field (known finding)"""
    return s in ('md', 'sha') and B < 2 * w + 1

def configs(Bs, small=False):
    """(scheme, B, w) for the given block sizes; MD/SHA with B < 2w+1 only when `small`"""
    for B in Bs:
        if not small:
            for s in ('no', 'null', 'bit', 'pkcs7', 'x923'): yield s, B, 0
        for s in ('md', 'sha'):
            for w in (32, 64):
                if small_block(s, B, w) == small: yield s, B, w
    if not small:
        for h in (224, 256, 384, 512): yield 'blake', blake_params(h)[0], h


def rbytes(rng, n, style=None):
    style = style if style is not None else rng.randrange(6)
    if style == 0: return bytes(n)
    if style == 1: return b'\xff' * n
    b = bytearray(rng.getrandbits(8) for _ in range(n))
    if style == 2 and n: b[-1] = 0
    if style == 3 and n: b[-1] = rng.choice((1, 0x80, 0x01, 0xfe))
    return bytes(b)


def spill(s, B, w):
    """bit offset inside a block at which the tail spills into a second block (None: at the block end)"""
    if s in ('md', 'sha'): return B - 1 - 2 * w
    if s == 'blake':
        B, ww = blake_params(w); return B - 2 - 2 * ww
    return None


def lengths_for(s, B, w, dense):
    """bit lengths (over 0..3 blocks) to try for one configuration: every byte residue when `dense`, else the boundaries"""
    Be = eff_block(s, B, w)
    bl = Be // 8
    Ls = set()
    if dense:
        for nb in range(0, 4 * bl + 1): Ls.add(8 * nb)
    else:
        for k in range(0, 4):
            for d in (-2, -1, 0, 1, 2): Ls.add(8 * (k * bl + d))
            Ls.add(8 * (k * bl + bl // 2))
    sp = spill(s, B, w)
    if sp is not None:
        for k in range(0, 3):
            for d in range(-10, 11): Ls.add(k * Be + sp + d)
            for d in (-16, 16, 24): Ls.add(k * Be + (sp // 8) * 8 + d)
    return sorted(L for L in Ls if L >= 0)


def single_lines(s, B, w, rng, dense, ops=('pad.iter', 'pad.cat', 'pad.rt'), light=False):
    h = hdr(s, B, w)
    for L8 in lengths_for(s, B, w, dense):
        nbytes = (L8 + 7) // 8
        variants = [(nbytes, None)] if L8 % 8 == 0 else []
        if s in BITGRAN:
            if L8 % 8 == 0:
                # every L mod 8 below this byte count, plus surplus data behind the bit length
                for r in ((rng.randrange(1, 8),) if light else range(1, 8)):
                    if L8 - r >= 0: variants.append((nbytes, L8 - r))
                variants.append((nbytes + rng.choice((1, 2, B // 8, B // 8 + 1)), L8))
                variants.append((nbytes, L8))
            else:
                variants.append((nbytes, L8))
                variants.append((nbytes + 1, L8))
        for nb, L in variants:
            m = rbytes(rng, nb)
            tag = '%s.single' % s
            if 'pad.iter' in ops: yield 'pad.iter %s | %s %s T' % (h, hx(m), oi(L)), tag
            if 'pad.cat' in ops: yield 'pad.cat %s %s %s' % (h, hx(m), oi(L)), tag + '.cat'
            if 'pad.rt' in ops: yield 'pad.rt %s %s %s' % (h, hx(m), oi(L)), tag + '.rt'


def refusal_lines(s, B, w, rng):
    h = hdr(s, B, w)
    Be = eff_block(s, B, w); bl = Be // 8
    for nb in (0, 1, bl, bl + 1, 2 * bl):
        m = rbytes(rng, nb)
        for L in (8 * nb + 1, 8 * nb + 8, 8 * nb + Be):
            yield 'pad.iter %s | %s %d T' % (h, hx(m), L), 'refuse.bitlen'
            yield 'pad.iter %s | %s %d F' % (h, hx(m), L), 'refuse.bitlen'
            yield 'pad.cat %s %s %d' % (h, hx(m), L), 'refuse.bitlen'
    for nb in (1, bl - 1, bl + 1, 2 * bl + 1, 3 * bl - 1):
        if nb > 0 and nb % bl:
            yield 'pad.iter %s | %s None F | %s None T' % (h, hx(rbytes(rng, nb)), hx(rbytes(rng, 2))), 'refuse.unpadded'
    yield 'pad.iter %s | %s 7 F' % (h, hx(rbytes(rng, bl))), 'refuse.unpadded'
    if Be > 8: yield 'pad.iter %s | %s %d F' % (h, hx(rbytes(rng, 2 * bl)), Be + 8), 'refuse.unpadded'
    for nb in (0, 1, bl, bl + 3):
        yield 'pad.iter %s | %s None T | %s None T | %s None F' % (h, hx(rbytes(rng, nb)), hx(rbytes(rng, 1)), hx(b'')), 'refuse.afterpad'


def seq_lines(s, B, w, rng, n):
    """histories: block-aligned pieces (some empty, some with an explicit bitlen) with padding=False, a final piece, a call after it"""
    h = hdr(s, B, w)
    Be = eff_block(s, B, w); bl = Be // 8
    sp = spill(s, B, w)
    for _ in range(n):
        calls = []
        for _ in range(rng.choice((1, 1, 2, 3))):
            k = rng.choice((0, 1, 1, 2, 3))
            m = rbytes(rng, k * bl)
            r = rng.randrange(8)
            if r == 0 and k:   # explicit bitlen cutting whole blocks off surplus data
                kk = rng.randrange(0, k + 1); calls.append('%s %d F' % (hx(m), kk * Be))
            elif r == 1:       # surplus bytes behind an explicit bitlen
                calls.append('%s %d F' % (hx(m + rbytes(rng, rng.randrange(1, bl + 1))), k * Be))
            else:
                calls.append('%s None F' % hx(m))
        # final piece
        choice = rng.randrange(6)
        if choice == 0: nb = 0
        elif choice == 1: nb = rng.choice((1, 2, 3)) * bl
        elif choice == 2 and sp is not None: nb = max(0, (sp // 8) + rng.choice((-1, 0, 1)))
        else: nb = rng.randrange(0, 3 * bl + 1)
        m = rbytes(rng, nb)
        L = None
        if s in BITGRAN and rng.randrange(2):
            L = max(0, 8 * nb - rng.randrange(0, 10))
            if rng.randrange(8) == 0: L = 0
        calls.append('%s %s T' % (hx(m), oi(L)))
        if rng.randrange(3) == 0: calls.append('%s None %s' % (hx(rbytes(rng, rng.choice((0, 1, bl)))), rng.choice('TF')))
        yield 'pad.iter %s | %s' % (h, ' | '.join(calls)), '%s.seq' % s


def reset_lines(s, B, w, rng, n=1):
    """reuse of one object: a first message that leaves non-zero counters, reset()/.new, a second message fed with
    padding=True and with padding=False, remove() where it reads the object state, a third message"""
    h = hdr(s, B, w)
    Be = eff_block(s, B, w); bl = Be // 8
    firsts = []
    # padded first calls: a short tail, one byte missing, one byte over, whole blocks (PKCS#7/X9.23/bit add a whole block), empty
    for nb in sorted({1, max(1, bl // 2), bl - 1, bl, bl + 1, 2 * bl + max(1, bl // 2)}):
        if nb > 0: firsts.append(['%s None T' % hx(rbytes(rng, nb, 5))])
    firsts.append(['x None T'])
    if s in BITGRAN:
        nb = bl + max(1, bl // 2)
        firsts.append(['%s %d T' % (hx(rbytes(rng, nb, 5)), 8 * nb - rng.randrange(1, 8))])
    # unpadded pieces only (bitcnt set, no pad), pieces then a final one, a refused call
    firsts.append(['%s None F' % hx(rbytes(rng, 2 * bl, 5))])
    firsts.append(['%s None F' % hx(rbytes(rng, bl, 5)), '%s None T' % hx(rbytes(rng, max(1, bl - 1), 5))])
    firsts.append(['%s None T' % hx(rbytes(rng, bl + 1, 5)), '%s None F' % hx(rbytes(rng, bl, 5))])
    k = 0
    for _ in range(n):
        for f in firsts:
            for second in ('F', 'T', 'FT'):
                k += 1
                rs = ('reset', 'new')[k % 2]
                steps = list(f) + [rs]
                if second == 'F':
                    steps.append('%s None F' % hx(rbytes(rng, rng.choice((1, 2)) * bl, 5)))
                elif second == 'T':
                    nb = rng.choice((0, 1, max(1, bl // 2), bl, bl + 1, 2 * bl - 1))
                    L = None
                    if s in BITGRAN and nb and rng.randrange(3) == 0: L = 8 * nb - rng.randrange(0, 8)
                    steps.append('%s %s T' % (hx(rbytes(rng, nb, 5)), oi(L)))
                else:
                    steps.append('%s None F' % hx(rbytes(rng, bl, 5)))
                    steps.append('%s None T' % hx(rbytes(rng, rng.choice((1, bl, bl + 1)), 5)))
                # remove() of what was emitted since the reset: zero padding strips padcnt bits, the others must still invert
                if s == 'null' or second != 'F' or k % 3 == 0: steps.append('remove')
                if s == 'null' and k % 4 == 0: steps.append('remove %s' % hx(rbytes(rng, rng.choice((1, bl, bl + 3)), 5)))
                if k % 5 == 0:
                    # and once more
                    steps.append(('new', 'reset')[k % 2])
                    steps.append('%s None %s' % (hx(rbytes(rng, bl, 5)), 'FT'[k % 2]))
                    if s == 'null': steps.append('remove')
                yield 'pad.iter %s | %s' % (h, ' | '.join(steps)), '%s.reset.%s' % (s, second)
    # reset of a fresh object, reset twice
    yield 'pad.iter %s | reset | new | %s None T | remove' % (h, hx(rbytes(rng, bl + 1, 5))), '%s.reset.fresh' % s


def malformed_lines(tier, rng):
    alpha = lambda bl: sorted({0, 1, 2, 3, 4, 5, 255, bl, bl + 1})
    maxlen = 3 if tier == 'quick' else 4
    import itertools
    for s in ('pkcs7', 'x923'):
        for bl in (1, 2, 3, 4):
            for n in range(0, maxlen + 1):
                for c in itertools.product(alpha(bl), repeat=n):
                    yield 'pad.remove %s %d %s' % (s, 8 * bl, hx(bytes(c))), 'malformed.small'
        # every single byte, every pair for 2-byte blocks (thorough)
        for bl in (1, 2, 8, 16):
            for b in range(256):
                yield 'pad.remove %s %d %s' % (s, 8 * bl, hx(bytes([b]))), 'malformed.byte'
                yield 'pad.remove %s %d %s' % (s, 8 * bl, hx(bytes([7, 0, b]))), 'malformed.byte'
        if tier != 'quick':
            for a in range(256):
                for b in range(256):
                    yield 'pad.remove %s 16 %s' % (s, hx(bytes([a, b]))), 'malformed.pair'
        # valid paddings with one byte changed / truncated / extended
        for bl in (4, 8, 16, 32, 128):
            for nb in list(range(0, 2 * bl + 1)) if bl <= 16 else (0, 1, bl - 1, bl, bl + 1):
                m = rbytes(rng, nb)
                c = bytes_of(ref_pad(s, 8 * bl, 0, bits_of(m)))
                yield 'pad.remove %s %d %s' % (s, 8 * bl, hx(c)), 'remove.valid'
                q = c[-1]
                for pos in {len(c) - 1, len(c) - q, len(c) - q - 1, len(c) - 2, rng.randrange(len(c))}:
                    if 0 <= pos < len(c):
                        for v in {0, 1, q, (q + 1) % 256, (q - 1) % 256, c[pos] ^ 0x80, bl, bl + 1}:
                            d = bytearray(c); d[pos] = v
                            yield 'pad.remove %s %d %s' % (s, 8 * bl, hx(d)), 'malformed.mutated'
                yield 'pad.remove %s %d %s' % (s, 8 * bl, hx(c[1:])), 'malformed.mutated'
                yield 'pad.remove %s %d %s' % (s, 8 * bl, hx(c[-q + 1:] if q > 1 else c[-1:])), 'malformed.mutated'
    # remove() of the other schemes on arbitrary strings: code<->model
    for s, B, w in (('bit', 16, 0), ('bit', 64, 0), ('null', 16, 0), ('md', 512, 32), ('sha', 512, 32), ('sha', 1024, 64),
                    ('blake', 512, 224), ('blake', 512, 256), ('blake', 1024, 384), ('blake', 1024, 512), ('no', 16, 0)):
        for _ in range(30 if tier == 'quick' else 200):
            n = rng.choice((0, 1, 2, 7, 8, 9, 16, 17, 64, 128, 129))
            c = rbytes(rng, n, rng.choice((0, 2, 3, 4, 5)))
            yield 'pad.remove %s %s' % (hdr(s, B, w), hx(c)), 'remove.any'


def cases(tier, rng):
    allB = list(range(8, 1025, 8))
    if tier == 'search':
        while True:
            B = rng.choice(allB)
            for s, b, w in configs([B]):
                if s == 'blake' and rng.randrange(4): continue
                yield from seq_lines(s, b, w, rng, 2)
                lines = list(reset_lines(s, b, w, rng))
                yield from rng.sample(lines, 4)
                lines = list(single_lines(s, b, w, rng, False))
                rng.shuffle(lines)
                yield from lines[:30]
            lines = list(malformed_lines('quick', rng))
            rng.shuffle(lines)
            yield from lines[:50]
        return
    # constructor refusals
    for B in (1, 7, 9, 12, 20, 1023):
        for s in ('no', 'null', 'bit', 'pkcs7', 'x923', 'md', 'sha'):
            yield 'pad.iter %s | x00 None T' % hdr(s, B, 32), 'refuse.blocksize'
            yield 'pad.cat %s x00 None' % hdr(s, B, 32), 'refuse.blocksize'
    if tier == 'quick':
        denseB = [8, 16, 24, 32, 64, 72, 136]
        sparseB = [40, 48, 56, 80, 96, 128, 144, 192, 256, 264, 384, 512, 520, 768, 1016, 1024]
        sparseB += rng.sample([b for b in allB if b not in denseB and b not in sparseB], 6)
        nseq = 12
    else:
        denseB = list(range(8, 161, 8)) + [256, 512, 1024]
        sparseB = [b for b in allB if b not in denseB]
        nseq = 60
    # MD/SHA with blocks shorter than 2w+1 bits (known finding C09-md-small-block): a thin slice
    for s, B, w in configs([8, 32, 64, 128] if tier == 'quick' else list(range(8, 129, 8)), small=True):
        lines = list(single_lines(s, B, w, rng, False, ops=('pad.iter', 'pad.cat')))
        yield from lines[::3 if tier == 'quick' else 1]
    for s, B, w in configs(denseB):
        if s == 'blake': continue
        yield from single_lines(s, B, w, rng, True)
    fullops = set(rng.sample(sparseB, 12)) | {b for b in sparseB if b % 128 == 0}
    for s, B, w in configs(sparseB):
        allops = s == 'blake' or B in (512, 1024) or (tier != 'quick' and B in fullops)
        yield from single_lines(s, B, w, rng, tier != 'quick' and s == 'blake',
                                ops=('pad.iter', 'pad.cat', 'pad.rt') if allops else ('pad.iter',), light=s in ('md', 'sha'))
    for s, B, w in configs(sorted(set(denseB + sparseB))):
        if s == 'blake' and B != sparseB[0] and B != denseB[0]: pass
        yield from refusal_lines(s, B, w, rng)
        yield from seq_lines(s, B, w, rng, nseq)
    # reuse of one object after reset() / .new
    resetB = [8, 16, 64, 128, 136, 512, 1024] if tier == 'quick' else sorted(set(denseB + sparseB))
    for s, B, w in configs(resetB):
        yield from reset_lines(s, B, w, rng, 1 if tier == 'quick' else 2)
    yield from malformed_lines(tier, rng)
    # block sizes beyond the property's range: the theorems cover them, the model must too
    for s, B, w in (('null', 3072, 0), ('null', 4096, 0), ('pkcs7', 2040, 0), ('pkcs7', 2048, 0), ('x923', 2040, 0), ('x923', 2048, 0),
                    ('md', 2048, 64), ('sha', 1536, 32)):
        for nb in (0, 1, B // 8 - 1, B // 8, B // 8 + 1):
            yield 'pad.iter %s | %s None T' % (hdr(s, B, w), hx(rbytes(rng, nb))), 'beyond'


def shrink(line):
    t = line.split()
    for i, tok in enumerate(t[1:], 1):
        if tok[0] == 'x' and len(tok) > 3:
            yield ' '.join(t[:i] + ['x' + tok[3:]] + t[i + 1:])
            yield ' '.join(t[:i] + [tok[:-2]] + t[i + 1:])
            yield ' '.join(t[:i] + ['x' + '00' * ((len(tok) - 1) // 2)] + t[i + 1:])
    if t[0] == 'pad.iter':
        parts = split_bar(t[1:])
        if len(parts) > 2:
            for j in range(1, len(parts)):
                yield 'pad.iter ' + ' | '.join(' '.join(p) for k, p in enumerate(parts) if k != j)


LEVEL_TEXT = ('Lean 4 theorems about Model.Padding (the hand-written state-machine mirror of crysp/padding.py) against Spec.Padding '
              '(the padding rules of the standards on bit lists) for every scheme, block size, message, bit length and history; the '
              'model is tied to the current source by a boundary-directed correspondence stream that steps the real generators and '
              'also evaluates an independent bit-level reference on the real code.')
LEVEL_NOTE = ('Trusted: Lean kernel; axioms ⊆ {propext, Classical.choice, Quot.sound}; runcheck.py/props/C09.py; Spec.Padding as a '
              'rendering of the standards; generator laziness is modelled as state-observed-at-yield. Theorem list: evidence/C09.json '
              'coverage.theorems.')
TECHNIQUE = 'Lean 4 proof (list/arith induction, testBit extensionality, kernel enumeration of the byte domain) + correspondence check'
