"""C02 — AES, DES/TDEA, Serpent and Threefish encrypt exactly as standardized.
Aggregator over the per-cipher parts tools/props/parts/c02_*.py (each with its own proofs module(s) lean/Proofs/C02_*.lean)."""
import importlib, os
from props.common import aggregate

ID = 'C02'
_here = os.path.join(os.path.dirname(__file__), 'parts')
PARTS = [importlib.import_module('props.parts.' + n) for n in ('c02_aes', 'c02_des', 'c02_serpent', 'c02_threefish')
         if os.path.exists(os.path.join(_here, n + '.py'))]
aggregate(globals(), PARTS)
RULE = ' || '.join('[%s] %s' % (p.__name__.split('.')[-1], getattr(p, 'RULE', '')) for p in PARTS)
LEVEL_TEXT = ('Lean 4 theorems per cipher: the tables regenerated from the current source equal the standard\'s (kernel enumeration of the complete tables, '
              'incl. all 65 536 GF(2^8) products of gmul), every component of the model (mirror of the Python code) refines the specification written from '
              'FIPS 197 / FIPS 46-3 + SP 800-67 / the Serpent submission / Skein 1.3, and enc/dec refine the specification for every admissible key (tweak) and '
              'every block; undefined sizes are errors. Parts present: ' + ', '.join(p.__name__.split('.')[-1] for p in PARTS) +
              '. The models are tied to the current source by the translator (probed/ read tables) and by the correspondence stream.')
LEVEL_NOTE = ('Trusted: Lean kernel; axioms ⊆ {propext, Classical.choice, Quot.sound}; the Spec files as renderings of the standards (validated by the '
              'standards\' known-answer vectors in the kernel and by independent Python references in the plugins; Serpent/Threefish have no other offline oracle); '
              'extract.py/runcheck.py/props/parts/c02_*.py. Theorem list: evidence/C02.json coverage.theorems; a name ending _partial is weaker than the '
              'commented full statement beside it.')
LEVEL_NOTE += ''.join(' [%s] %s' % (p.__name__.split('.')[-1], p.LEVEL_NOTE) for p in PARTS if hasattr(p, 'LEVEL_NOTE'))
TECHNIQUE = 'Lean 4 proof (kernel enumeration of complete finite domains, refinement by induction over rounds) + translator + correspondence check'
