"""C02 — local aggregator (AES part only; the integrator merges the part lists)."""
from props.common import aggregate
from props.parts import c02_aes
ID = 'C02'
aggregate(globals(), [c02_aes])
RULE = c02_aes.RULE
LEVEL_TEXT = 'Lean 4 theorems Model.Aes = Spec.Aes (FIPS 197) + translator + correspondence check (AES part)'
LEVEL_NOTE = 'AES part only'
TECHNIQUE = 'Lean 4 proof (kernel enumeration of complete finite domains, refinement) + correspondence check'
