"""C02 — block ciphers encrypt exactly as standardised (local aggregator: DES/TDEA part only; the integrator merges the part lists)."""
from props.common import aggregate
from props.parts import c02_des
ID = 'C02'
aggregate(globals(), [c02_des])
RULE = 'distinct op lines; non-trivial = the implementation returned a value (not an exception)'
LEVEL_TEXT = ('Lean 4 theorems Model.Des = Spec.Des (FIPS 46-3 / SP 800-67) for every key, block, keying option and calling form; tables '
              'regenerated from the source on every run and proved equal to the standard tables in the kernel; correspondence stream with an '
              'independent reference.')
LEVEL_NOTE = 'Trusted: Lean kernel, Spec.Des as rendering of the standard, translator and correspondence harness.'
TECHNIQUE = 'Lean 4 proof (kernel enumeration of tables, bit-list refinement) + correspondence check'
