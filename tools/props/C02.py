"""C02 — AES, DES/TDEA, Serpent and Threefish encrypt exactly as standardized (local aggregator: Serpent part only;
the integrator merges the part lists of the other ciphers)."""
from props.common import aggregate
from props.parts import c02_serpent

ID = 'C02'
aggregate(globals(), [c02_serpent])
RULE = c02_serpent.RULE
LEVEL_TEXT = ('Lean 4 theorems: the regenerated Serpent tables equal the submission\'s (kernel enumeration), every component of '
              'Model.Serpent (the mirror of crysp/serpent.py over Model.Bits) refines the bitslice Spec for every state, the key schedule '
              'incl. short-key padding refines the Spec, and enc/dec refine the Spec for every key up to 256 bits and every block; '
              'over-long keys and wrong block sizes are errors. The model is tied to the current source by the translator and the correspondence stream.')
LEVEL_NOTE = ('Trusted: Lean kernel; axioms ⊆ {propext, Classical.choice, Quot.sound}; Spec.Serpent as a rendering of the submission (validated only by '
              'the NESSIE vectors in tests/test_serpent.py and an independent Python reference; no other Serpent oracle offline); extract.py/runcheck.py/'
              'props/parts/c02_serpent.py. Theorem list: evidence/C02.json coverage.theorems; names ending _partial are weaker than the commented full statement.')
TECHNIQUE = 'Lean 4 proof (kernel enumeration of complete finite domains, testBit extensionality, induction over rounds) + correspondence check'
