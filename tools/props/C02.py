"""C02 — block ciphers encrypt exactly as standardized.  LOCAL aggregator of the Threefish part only (the integrator merges the part lists)."""
from props.common import aggregate
from props.parts import c02_threefish
ID = 'C02'
aggregate(globals(), [c02_threefish])
RULE = c02_threefish.RULE
LEVEL_TEXT = ('Lean 4 theorems: the regenerated Threefish tables (pi, rotation constants, C240, key-schedule index structure) equal the Skein 1.3 tables '
              '(kernel enumeration); Model.Threefish (mirror of crysp/threefish.py on Model.Bits) refines Spec.Threefish for every key, tweak and block of '
              'the three sizes, and rejects every other size; tie to the code: translator + correspondence stream with an independent reference.')
LEVEL_NOTE = ('Trusted: Lean kernel; axioms within {propext, Classical.choice, Quot.sound}; extract.py/runcheck.py/props; Spec.Threefish as a rendering of '
              'Skein 1.3 section 3.3 (no executable Threefish oracle offline: the text and the six published vectors). Theorem list: evidence/C02.json.')
TECHNIQUE = 'Lean 4 proof (kernel enumeration of the tables, Bits<->BitVec 64 bridge, induction over the rounds) + correspondence check'
