"""C12 — Skein hash, MAC and tree hash equal the Skein 1.3 specification.

run_impl executes the op line on the real crysp.skein.  check_impl is the property's own predicate evaluated on the
implementation: an independent plain-Python reference of Skein 1.3 (UBI, configuration block, output function, tree hashing
over the reference Threefish of props/parts/c02_threefish.py — no crysp code, no Lean code), the published vectors of
tests/test_skein.py, and the output-length law ceil(No/8)."""
from props.common import *
from props.parts.c02_threefish import ref_enc as _tf_enc

ID = 'C12'
LEAN_PROOFS = ['Proofs.C12', 'Proofs.C12_Kat']
GEN_ITEMS = ['Threefish']
RULE = ('op lines = Skein(Nb,No,key,prs,PK,kdf,nonce[,tree Yl Yf Ym])(M,L): Nb in {256,512,1024}; No multiples of 8 up to 4*Nb incl. > Nb; '
        '|M| in every residue mod Nb/8 and 0..4 blocks; every L mod 8; key absent/empty/short/one block/longer; prs/PK/kdf/nonce strings; '
        'tree parameters 1<=Yl,Yf<=3, 2<=Ym<=4 with 0, 1, several leaves and enough leaves to reach the maximum height; direct UBI calls with '
        'start positions around 2^32, 2^64, 2^96 and flagged tweaks; Tweak setters; malformed parameters; distinct lines; '
        'non-trivial = the implementation returned a value')
TRUSTED = ['Spec.Skein / Spec.Threefish are renderings of the Skein 1.3 text; there is no executable Skein oracle offline: the Spec rests on the text, '
           'on the eleven published vectors of tests/test_skein.py (replayed in the stream), on five published digests checked IN THE KERNEL (Proofs.C12_Kat: Skein-256/512/1024 of the empty message, Skein-256/512 of FF, lifted to the model by skein_refines) and on agreement with the independent Python reference',
           'CPython bytes/int/BytesIO semantics are modelled (Model.Skein), validated by this stream']
ASSUMPTIONS = ['schema b"SHA3" and version 1 (the defaults) only', 'bit lengths beyond the message (L > 8|M|) are compared code<->model only (the specification does not define them)',
               'non-byte-aligned No (not in the property) is compared code<->model<->spec on the byte count only',
               'python -O (asserts stripped) is out of scope']
LINE_TIMEOUT = 120

TYPES = {'key': 0, 'cfg': 4, 'prs': 8, 'PK': 12, 'kdf': 16, 'non': 20, 'msg': 48, 'out': 63}


# --- independent reference --------------------------------------------------------------------------------------
def ref_bitpad(M, L):
    if L % 8 == 0: return bytes(M[:L // 8]), 0
    r = L % 8
    last = M[L // 8]
    return bytes(M[:L // 8]) + bytes([(last & (0xff << (8 - r)) & 0xff) | (1 << (7 - r))]), 1


def ref_ubi(G, M, L, Ts):
    nb = len(G)
    Mp, B = ref_bitpad(M, L)
    nm = len(Mp)
    if nm == 0: Mp = b'\0' * nb
    elif nm % nb: Mp = Mp + b'\0' * (nb - nm % nb)
    k = len(Mp) // nb
    H = G
    for i in range(k):
        blk = Mp[i * nb:(i + 1) * nb]
        T = Ts + min(nm, (i + 1) * nb)
        if i == 0: T += 1 << 126
        if i == k - 1: T += (B << 119) + (1 << 127)
        X = _tf_enc(H, T.to_bytes(16, 'little'), blk)
        H = bytes(a ^ b for a, b in zip(X, blk))
    return H


def ref_level(G, size, M, L, level):
    Mb = M[:(L + 7) // 8]
    k = max(1, -(-len(Mb) // size))
    out = b''
    for i in range(k):
        blk = Mb[i * size:(i + 1) * size]
        bl = L - 8 * i * size if i == k - 1 else 8 * len(blk)
        out += ref_ubi(G, blk, bl, i * size + (level << 112) + (48 << 120))
    return out


def ref_skein(Nb, No, M, L, key, prs, pk, kdf, non, yl, yf, ym):
    nb = Nb // 8
    G = b'\0' * nb
    if key: G = ref_ubi(G, key, 8 * len(key), 0)
    C = b'SHA3' + (1).to_bytes(2, 'little') + b'\0\0' + (No % (1 << 64)).to_bytes(8, 'little') + bytes([yl, yf, ym]) + b'\0' * 13
    G = ref_ubi(G, C, 256, 4 << 120)
    for s, ty in ((prs, 8), (pk, 12), (kdf, 16), (non, 20)):
        if s: G = ref_ubi(G, s, 8 * len(s), ty << 120)
    if yl == yf == ym == 0:
        G = ref_ubi(G, M, L, 48 << 120)
    else:
        Ml = ref_level(G, nb << yl, M, L, 1)
        l = 1
        while len(Ml) > nb:
            if l + 1 == ym:
                Ml = ref_ubi(G, Ml, 8 * len(Ml), (ym << 112) + (48 << 120)); break
            Ml = ref_level(G, nb << yf, Ml, 8 * len(Ml), l + 1)
            l += 1
        G = Ml
    n = (No + 7) // 8
    out = b''
    i = 0
    while len(out) < n:
        out += ref_ubi(G, i.to_bytes(8, 'little'), 64, 63 << 120)
        i += 1
    return out[:n]


def params_ok(Nb, yl, yf, ym):
    return Nb in (256, 512, 1024) and ((yl, yf, ym) == (0, 0, 0) or (1 <= yl <= 255 and 1 <= yf <= 255 and 2 <= ym <= 255))


# --- published vectors (tests/test_skein.py) -----------------------------------------------------------------------
def _line(Nb, No, m, L=None, key=None, prs=None, pk=None, kdf=None, non=None, tree=None):
    ob = lambda b: '-' if b is None else hx(b)
    s = 'skein %d %d %s %s %s %s %s %s %s' % (Nb, No, hx(m), oi(L), ob(key), ob(prs), ob(pk), ob(kdf), ob(non))
    if tree: s += ' tree %d %d %d' % tuple(tree)
    return s


_H = bytes.fromhex
KATS = {
    _line(256, 256, _H("FF")): "0B98DCD198EA0E50A7A244C444E25C23DA30C10FC9A1F270A6637F1F34E67ED2",
    _line(256, 256, b''): "C8877087DA56E072870DAA843F176E9453115929094C3A40C463A196C29BF7BA",
    _line(256, 256, _H("FFFEFDFCFBFAF9F8F7F6F5F4F3F2F1F0EFEEEDECEBEAE9E8E7E6E5E4E3E2E1E0")):
        "8D0FA4EF777FD759DFD4044E6F6A5AC3C774AEC943DCFC07927B723B5DBF408B",
    _line(512, 512, _H("FF")): "71B7BCE6FE6452227B9CED6014249E5BF9A9754C3AD618CCC4E0AAE16B316CC8"
                               "CA698D864307ED3E80B6EF1570812AC5272DC409B5A012DF2A579102F340617A",
    _line(512, 512, _H("FFFEFDFCFBFAF9F8F7F6F5F4F3F2F1F0EFEEEDECEBEAE9E8E7E6E5E4E3E2E1E0"
                       "DFDEDDDCDBDAD9D8D7D6D5D4D3D2D1D0CFCECDCCCBCAC9C8C7C6C5C4C3C2C1C0")):
        "45863BA3BE0C4DFC27E75D358496F4AC9A736A505D9313B42B2F5EADA79FC17F"
        "63861E947AFB1D056AA199575AD3F8C9A3CC1780B5E5FA4CAE050E989876625B",
    _line(1024, 1024, _H("FF")): "E62C05802EA0152407CDD8787FDA9E35703DE862A4FBC119CFF8590AFE79250B"
                                 "CCC8B3FAF1BD2422AB5C0D263FB2F8AFB3F796F048000381531B6F00D85161BC"
                                 "0FFF4BEF2486B1EBCD3773FABF50AD4AD5639AF9040E3F29C6C931301BF79832"
                                 "E9DA09857E831E82EF8B4691C235656515D437D2BDA33BCEC001C67FFDE15BA8",
    _line(256, 256, _H("00"), 1): "52D2B5FFC2966C06BA7BB0CC2BABBC935E99146487FB361A239830D4D688C988",
    _line(256, 256, _H("00" * 33), 257): "3EAEA996FAD95B6032654D6CA93AC3450BED8C754CD8000460A2876E34E52FA7",
    _line(256, 256, b'', key=_H("CB41F1706CDE09651203C2D0EFBADDF8")): "886E4EFEFC15F06AA298963971D7A25398FFFE5681C84DB39BD00851F64AE29D",
    _line(256, 256, _H("D3090C72167517F7C7AD82A70C2FD3F6443F608301591E598EADB195E8357135BA26FEDE2EE187417F816048D00FC235"),
          key=_H("CB41F1706CDE09651203C2D0EFBADDF847A0D315CB2E53FF8BAC41DA0002672E920244C66E02D5F0DAD3E94C42BB65F0D14157DECF4105EF5609D5B0984457C193")):
        "C353A316558EC34F8245DD2F9C2C4961FBC7DECC3B69053C103E4B8AAAF20394",
    _line(256, 256, _H("000102010401060108010A010C010E01100112011401160118011A011C011E01"
                       "200122012401260128012A012C012E01300132013401360138013A013C013E01"
                       "400142014401460148014A014C014E01500152015401560158015A015C015E01"
                       "600162016401660168016A016C016E01700172017401760178017A017C01"), tree=(2, 2, 2)):
        "E3CF8FCDD20BFE85D175448007226C20FF22A65DC9DF7588BE305E5CCC3F4941",
}
KATS = {k: 'x' + v.lower() for k, v in KATS.items()}
KAT_INIT = {'skein.init 256 128': 'x' + b''.join(w.to_bytes(8, 'little') for w in (0xE1111906964D7260, 0x883DAAA77C8D811C, 0x10080DF491960F7A, 0xCCF7DDE5B45BC1C2)).hex(),
            'skein.init 256 160': 'x' + b''.join(w.to_bytes(8, 'little') for w in (0x1420231472825E98, 0x2AC4E9A25A77E590, 0xD47A58568838D63E, 0x2DD2E4968586AB7D)).hex(),
            'skein.init 256 256': 'x' + b''.join(w.to_bytes(8, 'little') for w in (0xFC9DA860D048B449, 0x2FCA66479FA7D833, 0xB33BC3896656840F, 0x6A54E920FDE8DA69)).hex()}


# ---------------------------------------------------------------------------------------------------------------
def _parse(a):
    ob = lambda t: None if t == '-' else unhx(t)
    Nb, No, M, L = int(a[0]), int(a[1]), unhx(a[2]), unoi(a[3])
    key, prs, pk, kdf, non = (ob(t) for t in a[4:9])
    tree = (0, 0, 0)
    if len(a) > 9:
        assert a[9] == 'tree'; tree = tuple(int(x) for x in a[10:13])
    return Nb, No, M, L, key, prs, pk, kdf, non, tree


def _fields(t):
    return '%d:%d;%d,%d,%d,%d,%d,%d,%d' % (t.size, t.ival, t.Position, t.reserved, t.TreeLevel, t.BitPad, t.Type, t.First, t.Final)


def run_impl(line):
    from crysp.skein import Skein, UBI, Tweak
    from crysp.threefish import Threefish
    from crysp.bits import Bits
    t = line.split()
    op, a = t[0], t[1:]
    def go():
        if op == 'skein':
            Nb, No, M, L, key, prs, pk, kdf, non, (yl, yf, ym) = _parse(a)
            H = Skein(Nb, No, Yl=yl, Yf=yf, Ym=ym, key=key, prs=prs, PK=pk, kdf=kdf, nonce=non)
            return hx(H(M, L))
        if op == 'skein.init':
            return hx(Skein(int(a[0]), int(a[1]))._initstate())
        if op == 'skein.ubi':
            return hx(UBI(Threefish, unhx(a[0]), Bits(int(a[1]), 128))(unhx(a[2]), unoi(a[3])))
        if op == 'skein.tweak':
            tw = Tweak(Bits(int(a[0]), 128))
            setattr(tw, a[1], a[2] if a[1] == 'Type' else int(a[2]))
            return _fields(tw)
        raise RuntimeError('unknown op ' + op)
    return guarded(go)


def check_impl(line, res):
    t = line.split()
    op, a = t[0], t[1:]
    if op == 'skein':
        Nb, No, M, L, key, prs, pk, kdf, non, (yl, yf, ym) = _parse(a)
        if L is not None and L > 8 * len(M): return None
        if not params_ok(Nb, yl, yf, ym):
            return None if res == 'ERR' else 'parameters outside the specification were processed'
        if res == 'ERR': return 'admissible input rejected'
        out = unhx(res)
        if len(out) != (No + 7) // 8: return 'output has %d bytes, ceil(No/8) = %d' % (len(out), (No + 7) // 8)
        if line in KATS and KATS[line] != res: return 'published vector: expected ' + KATS[line]
        exp = ref_skein(Nb, No, M, 8 * len(M) if L is None else L, key, prs, pk, kdf, non, yl, yf, ym)
        if out != exp: return 'reference Skein gives ' + hx(exp)[:80]
        return None
    if op == 'skein.init':
        if line in KAT_INIT and KAT_INIT[line] != res: return 'published IV: expected ' + KAT_INIT[line]
        return None
    if op == 'skein.ubi':
        G, tw, M, L = unhx(a[0]), int(a[1]), unhx(a[2]), unoi(a[3])
        if L is not None and L > 8 * len(M): return None
        ok = (len(G) in (32, 64, 128) and tw < (1 << 128) and not (tw >> 119) & 1 and not (tw >> 126) & 3
              and (tw % (1 << 96)) + len(M) < (1 << 96))
        if not ok: return None if res == 'ERR' else 'UBI precondition violated but a value was returned'
        if res == 'ERR': return 'admissible UBI input rejected'
        exp = ref_ubi(G, M, 8 * len(M) if L is None else L, tw)
        return None if unhx(res) == exp else 'reference UBI gives ' + hx(exp)[:80]
    if op == 'skein.tweak':
        # the setter touches exactly its field, when the value fits the field
        tw, field, val = int(a[0]), a[1], a[2]
        lo, hi = {'Position': (0, 96), 'TreeLevel': (112, 119), 'BitPad': (119, 120), 'Type': (120, 126), 'First': (126, 127), 'Final': (127, 128)}[field]
        if field == 'Type':
            if val not in TYPES: return None if res == 'ERR' else 'unknown type accepted'
            v = TYPES[val]
        else: v = int(val)
        if v >= 1 << (hi - lo): return None          # overflowing values are outside the setter's contract (compared code<->model)
        if res == 'ERR': return 'setter raised'
        exp = (tw & ~(((1 << (hi - lo)) - 1) << lo)) | (v << lo)
        got = int(res.split(';')[0].split(':')[1])
        if got != exp: return 'setter changed other bits: expected %d' % exp
        fs = [exp % (1 << 96), (exp >> 96) % (1 << 16), (exp >> 112) % 128, (exp >> 119) & 1, (exp >> 120) % 64, (exp >> 126) & 1, (exp >> 127) & 1]
        return None if res.split(';')[1] == ','.join(str(x) for x in fs) else 'getters disagree with the field layout'
    return None


# ---------------------------------------------------------------------------------------------------------------
def rb(rng, n): return bytes(rng.getrandbits(8) for _ in range(n))


def msg_lengths(bs, tier):
    ls = set(range(0, bs + 2)) if tier != 'quick' or bs <= 32 else set(range(0, 10)) | set(range(bs - 3, bs + 2)) | set(range(11, bs - 3, 7))
    for k in range(1, 5):
        ls |= {k * bs - 1, k * bs, k * bs + 1}
    ls |= {bs + bs // 2, 3 * bs + 7}
    return sorted(ls)


def cases(tier, rng):
    if tier == 'search':
        while True:
            Nb = rng.choice((256, 512, 1024)); bs = Nb // 8
            No = 8 * rng.randrange(1, Nb // 2 + 1)
            n = rng.choice((rng.randrange(0, 3 * bs + 2), rng.randrange(0, bs + 2), rng.choice((bs, 2 * bs, 3 * bs))))
            M = rb(rng, n)
            L = None if rng.random() < .4 else max(0, 8 * n - rng.randrange(0, 12))
            opt = lambda: None if rng.random() < .6 else rb(rng, rng.choice((0, 1, 7, bs, bs + 3)))
            tree = None if rng.random() < .6 else (rng.randrange(1, 4), rng.randrange(1, 4), rng.randrange(2, 5))
            yield _line(Nb, No, M, L, opt(), opt(), opt(), opt(), opt(), tree), 'search'
        return
    quick = tier == 'quick'
    for l in KATS: yield l, 'kat'
    for l in KAT_INIT: yield l, 'kat-init'
    sizes = (256, 512, 1024)
    # (a) every residue of |M| mod Nb/8, 0..4 blocks, No = Nb
    for Nb in sizes:
        bs = Nb // 8
        for n in msg_lengths(bs, tier):
            yield _line(Nb, Nb, rb(rng, n)), 'len'
    # (b) every L mod 8 around the block boundaries (explicit bit length), extra trailing bytes, L = 0
    for Nb in sizes:
        bs = Nb // 8
        for n in sorted({1, 2, bs - 1, bs, bs + 1, 2 * bs, 2 * bs + 1, 3 * bs}):
            M = rb(rng, n)
            for r in range(0, 9):
                if 8 * n - r >= 0: yield _line(Nb, Nb, M, 8 * n - r), 'bitlen'
            yield _line(Nb, Nb, M + rb(rng, 3), 8 * n - 3), 'bitlen-trailing'
        yield _line(Nb, Nb, b'', 0), 'bitlen'
        yield _line(Nb, Nb, b'\xff\xff', 0), 'bitlen'
        for v in (0x00, 0xff, 0x80, 0x01, 0xaa, 0x55):
            for L in range(0, 9): yield _line(Nb, Nb, bytes([v]), L), 'bitlen-1byte'
    # (c) output lengths: multiples of 8 up to 4*Nb incl. > Nb (counter-mode output), a few non-multiples
    for Nb in sizes:
        if quick:
            nos = {8, 16, Nb - 8, Nb, Nb + 8, 2 * Nb - 8, 2 * Nb, 2 * Nb + 8, 3 * Nb, 3 * Nb + 8, 4 * Nb - 8, 4 * Nb} | {8 * rng.randrange(1, Nb // 2 + 1) for _ in range(6)}
        else:
            nos = set(range(8, 4 * Nb + 1, 8))
        for No in sorted(nos):
            yield _line(Nb, No, rb(rng, rng.choice((0, 3, Nb // 8, Nb // 8 + 5)))), 'outlen'
        for No in (1, 7, 9, Nb + 1, 2 * Nb - 1, 0): yield _line(Nb, No, b'abc'), 'outlen-bits'
    # output-length field of the configuration block is 64 bits wide: lengths beyond 2^16 bits (long-output use)
    for Nb, No in ((512, 65536), (256, 65544)) + (() if quick else ((1024, 1 << 17), (256, (1 << 16) + 7))):
        if Nb in sizes: yield _line(Nb, No, b'abc'), 'outlen-long'
    # (d) keys: absent, empty, short, one block, longer than a block   x   messages
    for Nb in sizes:
        bs = Nb // 8
        for key in (None, b'', rb(rng, 1), rb(rng, 16), rb(rng, bs - 1), rb(rng, bs), rb(rng, bs + 1), rb(rng, 2 * bs + 3)):
            for n in (0, 5, bs, bs + 9):
                yield _line(Nb, Nb, rb(rng, n), key=key), 'key'
            yield _line(Nb, 2 * Nb + 8, rb(rng, 7), 53, key=key), 'key+bitlen+out'
    # (e) personalisation / public key / kdf id / nonce: each alone (incl. empty string), pairs, all together
    for Nb in sizes:
        bs = Nb // 8
        names = ('prs', 'pk', 'kdf', 'non')
        for i, nm in enumerate(names):
            for s in (b'', rb(rng, 1), rb(rng, 20), rb(rng, bs), rb(rng, bs + 2)):
                kw = {nm: s}
                yield _line(Nb, Nb, rb(rng, 11), **kw), 'opt-' + nm
        for mask in range(1, 16):
            kw = {nm: rb(rng, rng.choice((3, bs, bs + 1))) for i, nm in enumerate(names) if mask >> i & 1}
            yield _line(Nb, Nb, rb(rng, rng.choice((0, 9, bs + 1))), key=rb(rng, 8) if mask % 2 else None, **kw), 'opt-combo'
    # (f) tree hashing: 1<=Yl,Yf<=3, 2<=Ym<=4; 0, 1 byte, around one leaf, several leaves, enough leaves to hit the height limit
    for Nb in sizes:
        bs = Nb // 8
        for yl in (1, 2, 3):
            for yf in (1, 2, 3):
                for ym in (2, 3, 4):
                    Nl, Nn = bs << yl, bs << yf
                    ns = {0, 1, Nl - 1, Nl, Nl + 1, 2 * Nl, 3 * Nl + 5}
                    # smallest leaf counts that reach level Ym with more than one node left: > 2^(Yf*(Ym-2)) leaves
                    big = Nl * (1 << (yf * (ym - 2)))
                    if quick:
                        if Nb == 256 or (yl, yf) == (1, 1): ns |= {big, big + 1, 2 * big + 3}
                        elif ym == 2: ns |= {big + 1}
                        if Nb != 256: ns -= {3 * Nl + 5, Nl - 1}
                    else:
                        ns |= {big, big + 1, 2 * big + 3, big * (1 << yf) + 1}
                    for n in sorted(ns):
                        if quick and n > 20000: continue
                        yield _line(Nb, Nb, rb(rng, n), tree=(yl, yf, ym)), 'tree'
        # tree with bit lengths, keys, long output
        for (yl, yf, ym) in ((1, 1, 2), (2, 1, 3), (1, 2, 4)):
            Nl = bs << yl
            for n in (1, Nl, Nl + 1, 2 * Nl + 2):
                M = rb(rng, n)
                for r in (0, 1, 5, 7, 8, 9):
                    if 8 * n - r >= 0: yield _line(Nb, Nb, M, 8 * n - r, tree=(yl, yf, ym)), 'tree+bitlen'
            yield _line(Nb, Nb, b'', 0, tree=(yl, yf, ym)), 'tree+bitlen'
            yield _line(Nb, Nb + 64, rb(rng, 3 * Nl), key=rb(rng, 9), prs=b'p', tree=(yl, yf, ym)), 'tree+key+out'
    # (g) UBI directly: start positions around 2^32, 2^64, 2^96 (position carries), every type, flagged tweaks
    for Nb in sizes:
        bs = Nb // 8
        G = rb(rng, bs)
        for n in (0, 1, bs, bs + 1, 3 * bs, 3 * bs + 5):
            M = rb(rng, n)
            ps = {0, 1, (1 << 32) - 1, (1 << 32) - bs, (1 << 64) - 1, (1 << 64) - bs, (1 << 64) - bs - 1, (1 << 64) - 2 * bs, 1 << 64, (1 << 64) + 1,
                  (1 << 96) - n - 1, (1 << 96) - n, (1 << 96) - 1, (1 << 95) + 12345}
            for p in sorted(x for x in ps if x >= 0):
                ty = rng.choice(list(TYPES.values()))
                lv = rng.choice((0, 0, 1, 5, 127))
                yield 'skein.ubi %s %d %s None' % (hx(G), p + (lv << 112) + (ty << 120), hx(M)), 'ubi-pos'
            yield 'skein.ubi %s %d %s %d' % (hx(G), ((1 << 64) - 3) + (48 << 120), hx(M + b'\xa5'), 8 * n + 3), 'ubi-pos+bitlen'
        for fl in (119, 126, 127):
            yield 'skein.ubi %s %d %s None' % (hx(G), (1 << fl) + (48 << 120), hx(b'abc')), 'ubi-flag'
        yield 'skein.ubi %s %d %s None' % (hx(G), (5 << 96) + (48 << 120), hx(b'abc')), 'ubi-reserved'
    yield 'skein.ubi %s %d %s None' % (hx(b'\0' * 16), 48 << 120, hx(b'abc')), 'ubi-badsize'
    yield 'skein.ubi %s %d %s None' % (hx(b''), 48 << 120, hx(b'abc')), 'ubi-badsize'
    # (h) Tweak setters: every field, boundary values of the field, random start tweaks; overflowing values (spill)
    widths = {'Position': 96, 'TreeLevel': 7, 'BitPad': 1, 'First': 1, 'Final': 1}
    starts = [0, (1 << 128) - 1, rng.getrandbits(128), rng.getrandbits(128), (1 << 96) - 1, ((1 << 16) - 1) << 96]
    for tw in starts:
        for f, w in widths.items():
            for v in sorted({0, 1, (1 << w) - 1, 1 << (w - 1), rng.getrandbits(w), 1 << w, (1 << w) + 1}):
                yield 'skein.tweak %d %s %d' % (tw, f, v), 'tweak'
        for ty in list(TYPES) + ['foo']:
            yield 'skein.tweak %d Type %s' % (tw, ty), 'tweak'
    # (i) malformed parameters
    for Nb in (0, 128, 255, 384, 2048):
        yield _line(Nb, 256, b'abc'), 'bad-Nb'
    for tr in ((0, 1, 2), (1, 0, 2), (1, 1, 0), (1, 1, 1), (0, 0, 2), (256, 1, 2), (1, 1, 256)):
        yield _line(256, 256, b'abc' * 30, tree=tr), 'bad-tree'
    for Nb in sizes:
        yield _line(Nb, Nb, b'abc', 25), 'bitlen-beyond'
        yield _line(Nb, Nb, b'abc', 32), 'bitlen-beyond'
        yield _line(Nb, Nb, b'', 3), 'bitlen-beyond'
    # seeded random over the whole grid
    g = cases('search', rng)
    for _ in range(150 if quick else 3000):
        l, _t = next(g)
        yield l, 'random'


def shrink(line):
    t = line.split()
    if t[0] != 'skein': return
    for i in (3, 5, 6, 7, 8, 9):
        if i < len(t) and t[i].startswith('x') and len(t[i]) > 3:
            yield ' '.join(t[:i] + [t[i][:-2]] + t[i + 1:])
    if t[3].startswith('x') and len(t[3]) > 3 and t[4] == 'None':
        yield ' '.join(t[:3] + ['x' + t[3][3:]] + t[4:])
    for i in (5, 6, 7, 8, 9):
        if t[i] != '-': yield ' '.join(t[:i] + ['-'] + t[i + 1:])


LEVEL_TEXT = ('Lean 4 theorems about Model.Skein (the hand-written mirror of crysp/skein.py on Model.Bits and Model.Threefish) against Spec.Skein '
              '(Skein 1.3: UBI, configuration block, output function, tree hashing), all at full strength: tweak_fields (setters touch exactly their '
              'field), bitpad_refines (every L mod 8), iterblocks_refines / ubi_refines (every G, M, bit length, start tweak incl. positions near '
              '2^64/2^96; rejected otherwise), cfg_refines, output_refines, skein_refines (three state sizes, every No, key absent/empty/any, '
              'prs/PK/kdf/nonce), tree_refines (every Yl,Yf <= 255, Ym <= 255, every message and bit length), output_length(_tree) = ceil(No/8), '
              'skein_rejects_params. Through C02 (Threefish) the block cipher inside is the standard one. Tie to the code: translator (Threefish '
              'tables) + a grid-shaped correspondence stream that also evaluates an independent Python reference on the real code.')
LEVEL_NOTE = ('Trusted: Lean kernel; axioms within {propext, Classical.choice, Quot.sound}; extract.py/runcheck.py/props/C12.py; Spec.Skein/Spec.Threefish '
              'as renderings of the Skein 1.3 text (no executable Skein oracle offline: text + 11 published vectors + agreement of three independent '
              'implementations: crysp, Lean Spec, Python reference). Hypotheses of the theorems: inputs are byte strings (elements < 256), '
              'L <= 8|M|, lengths below the 2^96-byte limit of the position field. Tree mode with a bit length: the specification text splits a '
              'byte string; the Spec here puts the bit padding into the last leaf (the natural reading), and crysp was repaired to do the same.')
TECHNIQUE = 'Lean 4 proof (Bits slice-assignment closed forms, kernel enumeration for reverse_byte, induction over blocks / tree levels, refinement through Threefish) + correspondence check'
