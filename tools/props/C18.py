"""C18 — the white-box DES tables compute exactly DES under the embedded key.

Op lines (see lean/Driver/WbD.lean):
  wb.enc <xkey> <xblock>         WhiteDES(KT(key), table_M1(), table_M2()[0], table_M3()).enc(block)
  wb.encs <xkey> <xblocks>       the same network ("program") evaluated on every 8-byte block of <xblocks>
  wb.tables <xkey>               len:max:hash digests of the 16 x (12 T-boxes | 8 S-tables) generated for the key
  wb.static [<xkey>]             M1 ; M2 ; m ; M3 ; rbits ; SRLR ; ERLR in full (asked after generating the tables of <key>)
  wb.fx <bits>                   the private __FX (parity of v & M2[b] for the 96 rows)
  wb.round <xkey> <r> <bits>     one round of the network: 12 T-box substitutions then __FX

run_impl executes the line on the real crysp.wb (tables cached per key inside the worker).  check_impl is the
property's own predicate, written without crysp.wb and without the Lean model:
  * every white-box ciphertext equals the independent int-based reference DES (props/parts/desref.py, FIPS 46-3 tables)
    under the key AND under the parity-normalised key, and equals the library's own DES(key).enc(block);
    blocks that are not 8 bytes are rejected;
  * every generated T-box has exactly 256 entries, each an int in 0..255 (S-tables: 64 entries in 0..15); the four
    bypass tables are the identity (their digest is the digest of range(256));
  * the key-independent tables are the same whatever key was processed before, have the right shapes, and satisfy the
    *layout equations* of the network stated on symbolic bit names: M1 = encode o IP, M3 = IPinv o swap o decode, and
    every row of M2 gathers exactly {R_j} or {L_j, S_P(j)} from the post-T-box state;
  * one round maps encode(L,R) to encode(R, L xor f(R,k_r)) (reference f and key schedule).
"""
from props.common import *
from props.parts import desref as R

ID = 'C18'
LEAN_PROOFS = ['Proofs.C18']
GEN_ITEMS = ['Wb', 'Des']
RULE = ('op lines; one wb.encs line = one generated table network (one key) evaluated on a batch of blocks (64 single-bit blocks, '
        'zero, all-ones / seeded random blocks); distinct lines; non-trivial = the implementation returned a value')
TRUSTED = ['Model.Py / Model.Bits / Model.Poly model CPython ints, lists and the Bits/Poly plumbing (validated by the C07/C08/C16 streams)',
           'CPython iterates a set of small non-negative ints in ascending order (getrbits_T_in: list(sr)); modelled as an ascending list, '
           'tied by rbits_eq_gen to what the running interpreter returns',
           'props/parts/desref.py as rendering of FIPS 46-3 (validated against published vectors)']
ASSUMPTIONS = ['the key is handed over as in tests/test_des.py: Bits(K,64) of an 8-byte string, KT[r] = table_rKT(r,bK)[1]',
               'python -O (asserts stripped) is out of scope']
LEVEL_TEXT = ('Lean 4 theorems: wb_enc_eq_des — for every 8-byte key and every message, generating the table network and running '
              'WhiteDES.enc returns exactly what DES(K).enc returns in the model (ciphertext or the same AssertionError); round_refines — one '
              'network round on the encoded state is one Feistel round, for every key/round/halves; for every key every generated T-box is a '
              'total byte map, bypass tables are the identity, T-box entries are S_n(chunk xor k_{r,n}) || bypass bits; the key-independent '
              'tables of the model are exactly what the real generators return (kernel evaluation against values re-extracted on every run) '
              'and satisfy the layout identities M1 = layout o IP, M3 o layout = IPinv o swap, M2 rows gather R_j or L_j xor S_P(j); '
              'correspondence stream per generated network with an independent reference DES and symbolic layout equations.')
LEVEL_NOTE = ('Trusted: Lean kernel, translator and correspondence harness (the tie model <-> code), Model.Bits/Model.Poly/Model.Py as models of '
              'the plumbing. The theorem is model-to-model (Model.Wb = Model.Des); Model.Des = FIPS 46-3 is property C02.')
TECHNIQUE = 'Lean 4 proof (kernel evaluation of closed table generators, structural proofs for all keys) + correspondence check'
LINE_TIMEOUT = 120

M61 = (1 << 61) - 1


# ---------------------------------------------------------------------------------------------
# real code
_NET = {}          # key bytes -> (WhiteDES, [(rks, rkt)] * 16)
_RND = {}          # (key, r) -> rkt


def _static():
    from crysp import wb as W
    return W.table_M1(), W.table_M2(), W.table_M3()


def _net(k):
    from crysp import wb as W
    from crysp.bits import Bits
    if k not in _NET:
        if len(_NET) > 6: _NET.clear()
        bK = Bits(k, 64)
        tabs = [W.table_rKT(r, bK) for r in range(16)]
        KT = [t[1] for t in tabs]
        _NET[k] = (W.WhiteDES(KT, W.table_M1(), W.table_M2()[0], W.table_M3()), tabs)
    return _NET[k]


def phash(l):
    h = 0
    for e in l: h = (h * 257 + e + 1) % M61
    return h


def digest(t):
    """len:max:hash; anything that is not a sequence of non-negative ints is reported as such"""
    t = list(t)
    for e in t:
        if not (isinstance(e, int) and not isinstance(e, bool)): return 'NONINT'
        if e < 0: return 'NEG'
    return '%d:%d:%d' % (len(t), max(t) if t else 0, phash(t))


def fmt_table(t): return '/'.join(il(r) for r in t)


def chunks8(b): return [b[i:i + 8] for i in range(0, len(b), 8)]


def run_impl(line):
    from crysp import wb as W
    from crysp.bits import Bits
    t = line.split(); op, a = t[0], t[1:]
    def go():
        if op == 'wb.enc':
            w, _ = _net(unhx(a[0]))
            return hx(w.enc(unhx(a[1])))
        if op == 'wb.encs':
            w, _ = _net(unhx(a[0]))
            return ','.join(guarded(lambda m=m: hx(w.enc(m))) for m in chunks8(unhx(a[1])))
        if op == 'wb.tables':
            _, tabs = _net(unhx(a[0]))
            return ';'.join(','.join(digest(x) for x in rkt) + '|' + ','.join(digest(x) for x in rks) for rks, rkt in tabs)
        if op == 'wb.static':
            if a: _net(unhx(a[0]))
            m1 = W.table_M1(); mat, m = W.table_M2(); m3 = W.table_M3()
            rb = W.getrbits_T_in()
            sr = W.SRLRformat(); er = W.ERLRformat()
            mm = [list(e) if isinstance(e, tuple) else [e] for e in m]
            return ';'.join([il(m1), il(mat), fmt_table(mm), il(m3), il(rb),
                             fmt_table([p.ival for p in sr]), fmt_table([p.ival for p in er])])
        if op == 'wb.fx':
            w = W.WhiteDES([], [], W.table_M2()[0], [])
            return fb(w._WhiteDES__FX(mkbits(a[0])))
        if op == 'wb.round':
            k, r = unhx(a[0]), int(a[1])
            if (k, r) not in _RND:
                if len(_RND) > 64: _RND.clear()
                _RND[(k, r)] = W.table_rKT(r, Bits(k, 64))[1]
            kr = _RND[(k, r)]
            w = W.WhiteDES([kr], [], W.table_M2()[0], [])
            blk = mkbits(a[2])
            tt = 0
            for n in range(12):          # the body of WhiteDES.enc's inner loop, verbatim
                nt = tt + 8
                blk[tt:nt] = w.KT[0][n][blk[tt:nt]]
                tt = nt
            return fb(w._WhiteDES__FX(blk))
        raise RuntimeError('unknown op ' + op)
    return guarded(go)


# ---------------------------------------------------------------------------------------------
# the property's own predicate
Ez = [x - 1 for x in R.E]          # FIPS tables, 0-based
Pz = [x - 1 for x in R.P]
IPz = [x - 1 for x in R.IP]
FPz = [x - 1 for x in R.FP]
OUTER = [Ez[6 * i + j] for i in range(8) for j in (0, 5)]
TAIL = [x for x in range(32) if x not in OUTER]       # the 16 R bits that no S-box sees as an outer bit, ascending


def encode(L, Rr):
    """the 96-entry state layout of the network for halves L, R (sequences of 32 items, index 0 = the standard's bit 1):
    byte b < 8 : the six bits of E(R) that feed S-box b+1, then L[2b], L[2b+1];
    byte 8+c   : L[16+4c .. 19+4c], then four of the sixteen R bits not duplicated by E as outer bits."""
    s = []
    for b in range(8):
        s += [Rr[Ez[6 * b + j]] for j in range(6)] + [L[2 * b], L[2 * b + 1]]
    for c in range(4):
        s += list(L[16 + 4 * c:20 + 4 * c]) + [Rr[TAIL[4 * c + j]] for j in range(4)]
    return s


def post_tbox(L, Rr, S):
    """layout after the T-boxes: the 6 S-box input bits of byte b < 8 are replaced by 4 output bits and the 2 outer bits"""
    s = []
    for b in range(8):
        s += [S[4 * b + j] for j in range(4)] + [Rr[Ez[6 * b]], Rr[Ez[6 * b + 5]], L[2 * b], L[2 * b + 1]]
    for c in range(4):
        s += list(L[16 + 4 * c:20 + 4 * c]) + [Rr[TAIL[4 * c + j]] for j in range(4)]
    return s


def bits_of(v, n): return [(v >> (n - 1 - i)) & 1 for i in range(n)]      # msb-first int -> list, index 0 = bit 1
def int_of(l):
    v = 0
    for b in l: v = (v << 1) | b
    return v
def state_val(s): return sum(b << i for i, b in enumerate(s))               # list -> Bits.ival (index i = bit i)


_STATIC0 = []


def check_static(res):
    parts = res.split(';')
    if len(parts) != 7: return 'malformed static line'
    m1, mat, m3, rb = unil(parts[0]), unil(parts[1]), unil(parts[3]), unil(parts[4])
    mm = [unil(x) for x in parts[2].split('/')]
    if len(m1) != 96 or not all(0 <= x < 64 for x in m1): return 'M1 shape'
    if len(mat) != 96 or not all(0 <= x < (1 << 96) for x in mat): return 'M2 shape'
    if len(m3) != 64 or not all(0 <= x < 96 for x in m3): return 'M3 shape'
    if len(mm) != 96 or not all(len(e) in (1, 2) and all(0 <= x < 96 for x in e) for e in mm): return 'm shape'
    if sorted(rb) != list(range(32)): return 'rbits is not a permutation of 0..31'
    # layout equations on symbolic bits
    Ls = [('L', j) for j in range(32)]; Rs = [('R', j) for j in range(32)]; Ss = [('S', j) for j in range(32)]
    blk = [('M', j) for j in range(64)]
    ip = [blk[IPz[i]] for i in range(64)]
    if [blk[i] for i in m1] != encode(ip[:32], ip[32:]): return 'M1 is not encode o IP'
    st = encode(Ls, Rs)
    pre = Rs + Ls
    if [st[m3[i]] for i in range(64)] != [pre[FPz[i]] for i in range(64)]: return 'M3 is not IPinv o swap o decode'
    post = post_tbox(Ls, Rs, Ss)
    want = encode(Rs, [frozenset([Ls[j], Ss[Pz[j]]]) for j in range(32)])
    for v in range(96):
        cols = [i for i in range(96) if (mat[v] >> i) & 1]
        if sorted(cols) != sorted(mm[v]): return 'row %d of M2 is not the set m[%d]' % (v, v)
        got = [post[i] for i in cols]
        w = want[v]
        if isinstance(w, frozenset):
            if len(got) != 2 or frozenset(got) != w: return 'row %d of M2 does not gather L_j xor S_P(j)' % v
        elif got != [w]: return 'row %d of M2 does not gather the R bit' % v
    return None


def check_impl(line, res):
    t = line.split(); op, a = t[0], t[1:]
    bad = lambda why: '%s: %s' % (op, why)
    if op in ('wb.enc', 'wb.encs'):
        k = unhx(a[0])
        if len(k) != 8: return None
        from crysp.des import DES
        kn = bytes(b & 0xfe for b in k)
        ms = [unhx(a[1])] if op == 'wb.enc' else chunks8(unhx(a[1]))
        rs = res.split(',') if ms else []
        if len(rs) != len(ms): return bad('%d results for %d blocks' % (len(rs), len(ms)))
        for m, r in zip(ms, rs):
            if len(m) != 8:
                if r != 'ERR': return bad('block of %d bytes accepted' % len(m))
                continue
            exp = hx(R.des(k, m))
            if r != exp: return bad('block %s: expected %s (reference DES), got %s' % (hx(m), exp, r))
            if hx(R.des(kn, m)) != r: return bad('block %s: differs from DES under the parity-normalised key' % hx(m))
            own = guarded(lambda: hx(DES(k).enc(m)))
            if own != r: return bad('block %s: the library DES gives %s, the white-box %s' % (hx(m), own, r))
        return None
    if op == 'wb.tables':
        if res == 'ERR': return bad('table generation raised')
        rounds = res.split(';')
        if len(rounds) != 16: return bad('%d rounds' % len(rounds))
        ident = '256:255:%d' % phash(range(256))
        for r, rd in enumerate(rounds):
            kt, ks = rd.split('|')
            kt = kt.split(','); ks = ks.split(',')
            if len(kt) != 12 or len(ks) != 8: return bad('round %d: %d T-boxes, %d S-tables' % (r, len(kt), len(ks)))
            for n, d in enumerate(kt):
                f = d.split(':')
                if len(f) != 3: return bad('round %d table %d: entries are not non-negative ints (%s)' % (r, n, d))
                if int(f[0]) != 256 or int(f[1]) > 255: return bad('round %d table %d is not a byte map on 0..255 (%s)' % (r, n, d))
                if n >= 8 and d != ident: return bad('round %d bypass table %d is not the identity' % (r, n))
            for n, d in enumerate(ks):
                f = d.split(':')
                if len(f) != 3 or int(f[0]) != 64 or int(f[1]) > 15: return bad('round %d S-table %d: %s' % (r, n, d))
        return None
    if op == 'wb.static':
        if res == 'ERR': return bad('static table generation raised')
        if not _STATIC0:
            from crysp import wb as W
            m1 = W.table_M1(); mat, m = W.table_M2(); m3 = W.table_M3()
            _STATIC0.append((il(m1), il(mat), il(m3)))
        p = res.split(';')
        if (p[0], p[1], p[3]) != _STATIC0[0]: return bad('key-independent tables differ from the first computation')
        e = check_static(res)
        return bad(e) if e else None
    if op == 'wb.round':
        k, r = unhx(a[0]), int(a[1]); n, v = unbt(a[2])
        if len(k) != 8 or n != 96 or not 0 <= r < 16: return None
        sb = [(v >> i) & 1 for i in range(96)]
        # recover (L,R) when v is a valid encoding
        Lh = [None] * 32; Rh = [None] * 32
        names = encode([('L', j) for j in range(32)], [('R', j) for j in range(32)])
        for (h, j), b in zip(names, sb): (Lh if h == 'L' else Rh)[j] = b
        if encode(Lh, Rh) != sb: return None                     # not a state of the network: code <-> model only
        kr = R.subkeys(int.from_bytes(k, 'big'))[r]
        nr = int_of(Lh) ^ R.f(int_of(Rh), kr)
        exp = '96:%d' % state_val(encode(Rh, bits_of(nr, 32)))
        return None if res == exp else bad('round %d of encode(L,R) is not encode(R, L xor f(R,k)): expected %s' % (r, exp))
    return None


# ---------------------------------------------------------------------------------------------
def rb(rng, n): return bytes(rng.getrandbits(8) for _ in range(n))

UNIT = b''.join((1 << i).to_bytes(8, 'big') for i in range(64)) + bytes(8) + b'\xff' * 8


def parity_variants(k, rng):
    yield bytes(b ^ 1 for b in k)
    yield bytes(b & 0xfe for b in k)
    yield bytes(b | 1 for b in k)
    yield bytes(b ^ rng.getrandbits(1) for b in k)


def network(k, rng, nrand, tag, unit=True):
    """the lines validating one generated network; consecutive so that one worker generates the tables once"""
    if unit: yield 'wb.encs %s %s' % (hx(k), hx(UNIT)), tag + '.unitblocks'
    if nrand: yield 'wb.encs %s %s' % (hx(k), hx(rb(rng, 8 * nrand))), tag + '.randomblocks'
    yield 'wb.tables %s' % hx(k), tag + '.tables'


def state_of(L, Rr):
    return bt(96, state_val(encode(bits_of(L, 32), bits_of(Rr, 32))))


def round_cases(k, rng, nrand, tag):
    for r in range(16):
        for _ in range(nrand):
            yield 'wb.round %s %d %s' % (hx(k), r, state_of(rng.getrandbits(32), rng.getrandbits(32))), tag
        yield 'wb.round %s %d %s' % (hx(k), r, state_of(0, 0)), tag + '.zero'
        yield 'wb.round %s %d %s' % (hx(k), r, state_of(0xffffffff, 0xffffffff)), tag + '.ones'
        i = rng.randrange(32)
        yield 'wb.round %s %d %s' % (hx(k), r, state_of(1 << i, 0)), tag + '.unitL'
        yield 'wb.round %s %d %s' % (hx(k), r, state_of(0, 1 << i)), tag + '.unitR'
        yield 'wb.round %s %d %s' % (hx(k), r, bt(96, rng.getrandbits(96))), 'round.anystate'


def cases(tier, rng):
    if tier == 'search':
        while True:
            k = rb(rng, 8)
            yield 'wb.encs %s %s' % (hx(k), hx(rb(rng, 64))), 'search'
            yield 'wb.tables %s' % hx(k), 'search'
            yield 'wb.round %s %d %s' % (hx(k), rng.randrange(16), state_of(rng.getrandbits(32), rng.getrandbits(32))), 'search'
            yield 'wb.static %s' % hx(k), 'search'
        return
    q = tier == 'quick'
    yield 'wb.static', 'static'
    yield 'wb.enc x0123456789abcdef x4e6f772069732074', 'kat'                  # tests/test_des.py
    for k, p, c in R.KAT: yield 'wb.enc x%s x%s' % (k.lower(), p.lower()), 'kat'
    # block sizes the cipher does not define
    k0 = rb(rng, 8)
    for n in (0, 1, 7, 9, 16, 24): yield 'wb.enc %s %s' % (hx(k0), hx(rb(rng, n))), 'badblocksize'
    yield 'wb.encs %s %s' % (hx(k0), hx(rb(rng, 8 * 3 + 7))), 'badblocksize'   # trailing 7-byte block
    # generated networks
    nr = 8 if q else 32
    for _ in range(5 if q else 60):
        k = rb(rng, 8)
        yield from network(k, rng, nr, 'key.random')
        yield 'wb.static %s' % hx(k), 'static'
    for k in R.WEAK: yield from network(k, rng, nr, 'key.weak')
    semi = list(R.SEMIWEAK)
    if q: semi = rng.sample(semi, 5)
    for k in semi: yield from network(k, rng, nr, 'key.semiweak')
    for k in (bytes(8), b'\xff' * 8): yield from network(k, rng, nr, 'key.parity-of-weak')
    bitsel = list(range(64))
    if q: bitsel = sorted(set(rng.sample(range(64), 5) + [8 * rng.randrange(8) + 7]))     # 5 key bits + 1 parity bit
    for i in bitsel:
        yield from network((1 << (63 - i)).to_bytes(8, 'big'), rng, nr if not q else 2, 'key.singlebit')
    for _ in range(1 if q else 20):
        k = rb(rng, 8)
        blocks = rb(rng, 8 * (8 if q else 16))
        for k2 in [k] + list(parity_variants(k, rng)):
            yield 'wb.encs %s %s' % (hx(k2), hx(UNIT if not q else UNIT[:8 * 16] + UNIT[-16:])), 'key.parityvariant.unitblocks'
            yield 'wb.encs %s %s' % (hx(k2), hx(blocks)), 'key.parityvariant.sameblocks'
            yield 'wb.tables %s' % hx(k2), 'key.parityvariant.tables'
    # one round on encoded states, and the linear layer alone
    rkeys = [rb(rng, 8), R.WEAK[2]] + ([] if q else [rb(rng, 8) for _ in range(6)] + list(R.SEMIWEAK[:2]))
    for k in rkeys: yield from round_cases(k, rng, 2 if q else 8, 'round.encoded')
    for i in range(96): yield 'wb.fx %s' % bt(96, 1 << i), 'fx.unit'
    yield 'wb.fx %s' % bt(96, 0), 'fx.zero'
    yield 'wb.fx %s' % bt(96, (1 << 96) - 1), 'fx.ones'
    for _ in range(20 if q else 400): yield 'wb.fx %s' % bt(96, rng.getrandbits(96)), 'fx.random'
    for n in (0, 8, 95, 97, 128): yield 'wb.fx %s' % bt(n, rng.getrandbits(n) if n else 0), 'fx.othersize'


def shrink(line):
    t = line.split()
    if t[0] == 'wb.encs':
        b = unhx(t[2])
        n = len(b) // 8
        if n > 1:
            yield ' '.join([t[0], t[1], hx(b[:8 * (n // 2)])])
            yield ' '.join([t[0], t[1], hx(b[8 * (n // 2):])])
        elif len(b) == 8:
            yield ' '.join(['wb.enc', t[1], t[2]])
    for i, tok in enumerate(t[1:], 1):
        if tok[0] == 'x' and len(tok) > 1 and len(tok) <= 17:
            b = unhx(tok)
            for j in range(len(b)):
                if b[j]:
                    yield ' '.join(t[:i] + [hx(b[:j] + b'\0' + b[j + 1:])] + t[i + 1:])
