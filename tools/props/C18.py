"""C18 — the white-box DES tables compute exactly DES under the embedded key.

Op lines (see lean/Driver/WbD.lean):
  wb.enc <xkey> <xblock>         WhiteDES(KT(key), table_M1(), table_M2()[0], table_M3()).enc(block)
  wb.encs <xkey> <xblocks>       the same network ("program") evaluated on every 8-byte block of <xblocks>
  wb.tables <xkey>               len:max:hash digests of the 16 x (12 T-boxes | 8 S-tables) generated for the key
  wb.static [<xkey>]             M1 ; M2 ; m ; M3 ; rbits ; SRLR ; ERLR in full (asked after generating the tables of <key>)
  wb.fx <bits>                   the private __FX (parity of v & M2[b] for the 96 rows)
  wb.round <xkey> <r> <bits>     one round of the network: 12 T-box substitutions then __FX
  wb.seq <xkey1> <xkey2> <xblocks>   several generations in ONE process step (a forked child of the worker, so that the
  wb.seqg <xkey1> <xkey2> <xblocks>  experiment cannot leak into other lines): network 1 and a second "bystander" network
                                 for key1; then EVERY mutable table object reachable from network 1, from the values the
                                 generators returned for it and from one more call of every generator is overwritten in
                                 place (wb.seqg: also every mutable object reachable from the module namespace of
                                 crysp.wb, its functions' default arguments, closures and attributes); then network 2 for
                                 key2.  Result sections: pre= digests of the key-independent tables before | enc1= network 1
                                 before | encB= the bystander afterwards | post= the key-independent tables generated
                                 afterwards, in full | kt= T-box digests of network 2 | alias= NONE or ALIASED:<where>
                                 (a mutable table object shared by two networks / two calls) | enc2= network 2
  wb.hist <xkey> <xblocks> <step>…   the network against a DES object WITH A HISTORY: ONE D = DES(key) and ONE W = WhiteDES(tables(key))
                                 go through the steps e:<b> D.enc(b) | d:<b> D.dec(b) | w:<b> W.enc(b) | v:<b> W.dec(b) (operands of
                                 any length: a wrong-size operand is refused; W.dec always is), then every 8-byte block B of <xblocks>
                                 is evaluated on the two USED objects: W.enc(B):D.enc(B):D.dec(D.enc(B)).  Result: step results `,`-joined
                                 | triples `,`-joined.  The model answers from (key, operand) alone

run_impl executes the line on the real crysp.wb (tables cached per key inside the worker).  check_impl is the
property's own predicate, written without crysp.wb and without the Lean model:
  * every white-box ciphertext equals the independent int-based reference DES (props/parts/desref.py, FIPS 46-3 tables)
    under the key AND under the parity-normalised key, and equals the library's own DES(key).enc(block);
    blocks that are not 8 bytes are rejected;
  * every generated T-box has exactly 256 entries, each an int in 0..255 (S-tables: 64 entries in 0..15); the four
    bypass tables are the identity (their digest is the digest of range(256));
  * the key-independent tables are the same whatever key was processed before, have the right shapes, and satisfy the
    *layout equations* of the network stated on symbolic bit names: M1 = encode o IP, M3 = IPinv o swap o decode, and
    every row of M2 gathers exactly {R_j} or {L_j, S_P(j)} from the post-T-box state;
  * one round maps encode(L,R) to encode(R, L xor f(R,k_r)) (reference f and key schedule);
  * every T-box / S-table is the one computed here from the FIPS S-boxes and the reference key schedule (digests);
  * generation has no history (wb.seq): after the in-place modification of network 1 the freshly generated key-independent
    tables are the ones generated before, still satisfy the layout equations, network 2 has the reference T-boxes of key2
    and computes reference DES under key2, the untouched bystander network still computes DES under key1, and no mutable
    table object is shared (the unmodified generators build every list afresh: tM1/tM2/tM3 of two networks are distinct
    objects, so identity itself is flagged);
  * the equality white-box = DES holds for USED objects (wb.hist): after any history of accepted and refused enc / dec calls on the
    DES object, and of accepted and refused calls on the network, W.enc(B) = D.enc(B) = reference DES(key, B) and D.dec gives B back;
    every step of the history itself returns the reference value (or is refused for an operand that is not 8 bytes).
"""
import os, re, random, signal
from props.common import *
from props.parts import desref as R

ID = 'C18'
LEAN_PROOFS = ['Proofs.C18']
GEN_ITEMS = ['Wb', 'Des']
RULE = ('op lines; one wb.encs line = one generated table network (one key) evaluated on a batch of blocks (64 single-bit blocks, '
        'zero, all-ones / seeded random blocks); one wb.seq line = three generated networks (key1, key1 bystander, key2) in one '
        'process with an in-place modification of the first in between; one wb.hist line = one network and one DES object of the same key, '
        'each through a history of accepted and refused enc / dec calls (several orders), then compared on a batch of blocks; distinct lines; non-trivial = the implementation returned a value')
TRUSTED = ['Model.Py / Model.Bits / Model.Poly model CPython ints, lists and the Bits/Poly plumbing (validated by the C07/C08/C16 streams)',
           'CPython iterates a set of small non-negative ints in ascending order (getrbits_T_in: list(sr)); modelled as an ascending list, '
           'tied by rbits_eq_gen to what the running interpreter returns',
           'props/parts/desref.py as rendering of FIPS 46-3 (validated against published vectors)']
ASSUMPTIONS = ['the key is handed over as in tests/test_des.py: Bits(K,64) of an 8-byte string, KT[r] = table_rKT(r,bK)[1]',
               'python -O (asserts stripped) is out of scope']
LEVEL_TEXT = ('Lean 4 theorems: wb_enc_eq_des — for every 8-byte key and every message, generating the table network and running '
              'WhiteDES.enc returns exactly what DES(K).enc returns in the model (ciphertext or the same AssertionError); round_refines — one '
              'network round on the encoded state is one Feistel round, for every key/round/halves; for every key every generated T-box is a '
              'total byte map, bypass tables are the identity, T-box entries are S_n(chunk xor k_{r,n}) || bypass bits; the key-independent '
              'tables of the model are exactly what the real generators return (kernel evaluation against values re-extracted on every run) '
              'and satisfy the layout identities M1 = layout o IP, M3 o layout = IPinv o swap, M2 rows gather R_j or L_j xor S_P(j); '
              'gen_seq_key_only / gen_seq_second_is_des — generating for K1, modifying that network arbitrarily, then generating for K2 '
              'yields exactly the network of K2, with the extracted key-independent tables, computing DES under K2; wb_enc_eq_des_objects — the '
              'objects DES(K) and the generated network exist for every 8-byte key and agree on every operand; '
              'correspondence stream per generated network with an independent reference DES, reference T-boxes and symbolic layout '
              'equations, including multi-network sequences in one process with in-place modification of an earlier network.')
LEVEL_NOTE = ('Trusted: Lean kernel, translator and correspondence harness (the tie model <-> code), Model.Bits/Model.Poly/Model.Py as models of '
              'the plumbing. The theorem is model-to-model (Model.Wb = Model.Des); Model.Des = FIPS 46-3 is property C02. '
              'In the Lean model a table is a value and generation is a pure function of the key (gen_seq_key_only is immediate there): '
              'object identity / aliasing of the Python lists (a cache returning the same mutable list to every caller, tables shared by two '
              'live WhiteDES instances, state kept between two generations) is NOT covered by any theorem; it is decided by the '
              'correspondence stream only (wb.seq / wb.seqg lines: identity of the objects and modify-then-generate on the real code). Likewise the '
              'model DES object and network are values without state: that a USED DES(K) / WhiteDES object (after accepted and refused enc / dec '
              'calls) still computes the same function is decided by the wb.hist lines of the stream.')
TECHNIQUE = 'Lean 4 proof (kernel evaluation of closed table generators, structural proofs for all keys) + correspondence check'
LINE_TIMEOUT = 120

M61 = (1 << 61) - 1


# ---------------------------------------------------------------------------------------------
# real code
_NET = {}          # key bytes -> (WhiteDES, [(rks, rkt)] * 16)
_RND = {}          # (key, r) -> rkt


def _static():
    from crysp import wb as W
    return W.table_M1(), W.table_M2(), W.table_M3()


def _net(k):
    from crysp import wb as W
    from crysp.bits import Bits
    if k not in _NET:
        if len(_NET) > 6: _NET.clear()
        bK = Bits(k, 64)
        tabs = [W.table_rKT(r, bK) for r in range(16)]
        KT = [t[1] for t in tabs]
        _NET[k] = (W.WhiteDES(KT, W.table_M1(), W.table_M2()[0], W.table_M3()), tabs)
    return _NET[k]


def phash(l):
    h = 0
    for e in l: h = (h * 257 + e + 1) % M61
    return h


def digest(t):
    """len:max:hash; anything that is not a sequence of non-negative ints is reported as such"""
    t = list(t)
    for e in t:
        if not (isinstance(e, int) and not isinstance(e, bool)): return 'NONINT'
        if e < 0: return 'NEG'
    return '%d:%d:%d' % (len(t), max(t) if t else 0, phash(t))


def fmt_table(t): return '/'.join(il(r) for r in t)


def chunks8(b): return [b[i:i + 8] for i in range(0, len(b), 8)]


# ---------------------------------------------------------------------------------------------
# several generations in one process (wb.seq / wb.seqg)
def _flat(t): return [x for e in t for x in [len(e)] + list(e)]


def _mrows(m): return [list(e) if isinstance(e, tuple) else [e] for e in m]


def _static_full(W):
    """everything the key-independent generators return, by fresh calls: (objects, wb.static text, digest text)"""
    m1 = W.table_M1(); mat, m = W.table_M2(); m3 = W.table_M3()
    rb = W.getrbits_T_in(); sr = W.SRLRformat(); er = W.ERLRformat()
    objs = {'table_M1()': m1, 'table_M2()[0]': mat, 'table_M2()[1]': m, 'table_M3()': m3, 'getrbits_T_in()': rb,
            'SRLRformat()': sr, 'ERLRformat()': er}
    return objs


def _static_text(o):
    mm = _mrows(o['table_M2()[1]'])
    return ';'.join([il(o['table_M1()']), il(o['table_M2()[0]']), fmt_table(mm), il(o['table_M3()']), il(o['getrbits_T_in()']),
                     fmt_table([p.ival for p in o['SRLRformat()']]), fmt_table([p.ival for p in o['ERLRformat()']])])


def static_digests_of_text(txt):
    """the pre= digests recomputed from a wb.static text"""
    p = txt.split(';')
    tab = lambda x: [unil(r) for r in x.split('/')]
    return ','.join([digest(unil(p[0])), digest(unil(p[1])), digest(_flat(tab(p[2]))), digest(unil(p[3])), digest(unil(p[4])),
                     digest(_flat(tab(p[5]))), digest(_flat(tab(p[6])))])


_MUTABLE = (list, dict, set, bytearray)


def _is_crysp_obj(o):
    return (type(o).__module__ or '').startswith('crysp') and not isinstance(o, type)


def _attrs(o):
    """instance attributes of an object of the library: __dict__ and __slots__ (Bits)"""
    d = dict(getattr(o, '__dict__', {}) or {})
    for c in type(o).__mro__:
        sl = c.__dict__.get('__slots__', ())
        for n in ([sl] if isinstance(sl, str) else sl):
            m = '_%s%s' % (c.__name__.lstrip('_'), n) if n.startswith('__') and not n.endswith('__') else n
            try: d[m] = getattr(o, m)
            except AttributeError: pass
    return d


def _walk(o, seen, visit, path):
    """depth-first over containers / crysp objects reachable from o; visit(obj, path) on every mutable one"""
    if id(o) in seen: return
    if isinstance(o, (list, tuple)):
        seen[id(o)] = o
        if isinstance(o, list): visit(o, path)
        for i, e in enumerate(o):
            if not isinstance(e, (int, str, bytes, float, type(None))): _walk(e, seen, visit, '%s[%d]' % (path, i))
    elif isinstance(o, dict):
        seen[id(o)] = o; visit(o, path)
        for k, e in list(o.items()):
            if not isinstance(e, (int, str, bytes, float, type(None))): _walk(e, seen, visit, '%s[%r]' % (path, k))
    elif isinstance(o, (set, frozenset)):
        seen[id(o)] = o
        if isinstance(o, set): visit(o, path)
    elif isinstance(o, bytearray):
        seen[id(o)] = o; visit(o, path)
    elif _is_crysp_obj(o):
        seen[id(o)] = o; visit(o, path)
        for k, e in list(_attrs(o).items()):
            if not isinstance(e, (int, str, bytes, float, type(None))): _walk(e, seen, visit, '%s.%s' % (path, k))


def _scribble_visit(count):
    def visit(o, path):
        if isinstance(o, list):
            for i, e in enumerate(o):
                if isinstance(e, int) and not isinstance(e, bool): o[i] = e ^ 1; count[0] += 1
        elif isinstance(o, bytearray):
            for i in range(len(o)): o[i] ^= 1; count[0] += 1
        elif isinstance(o, set):
            ints = [e for e in o if isinstance(e, int) and not isinstance(e, bool)]
            for e in ints: o.discard(e)
            for e in ints: o.add(e + 1000); count[0] += 1
        elif isinstance(o, dict):
            pass            # values are visited; the mapping of a cache is not rebound
        elif _is_crysp_obj(o):      # a Bits object: its value; the list attributes of a Poly are visited on their own
            v = _attrs(o).get('ival')
            if isinstance(v, int) and not isinstance(v, bool): o.ival = v ^ 1; count[0] += 1
    return visit


def _module_roots(W):
    """mutable state the module itself could keep between two generations: globals that are containers, and for every
    function / class defined in crysp.wb its default arguments, closure cells, attributes (`f.cache = {}`) and, for
    classes, class attributes"""
    import types
    roots = []
    def fn_roots(f, name):
        roots.append((name + '.__defaults__', tuple(f.__defaults__ or ())))
        if f.__kwdefaults__: roots.append((name + '.__kwdefaults__', f.__kwdefaults__))
        for i, c in enumerate(f.__closure__ or ()):
            try: roots.append(('%s.__closure__[%d]' % (name, i), c.cell_contents))
            except ValueError: pass
        roots.append((name + '.__dict__', vars(f)))
    for k, v in list(vars(W).items()):
        if k.startswith('__'): continue
        if isinstance(v, _MUTABLE + (tuple,)): roots.append((k, v))
        elif getattr(v, '__module__', None) == W.__name__:
            f = v
            for _ in range(8):             # decorated functions
                if isinstance(f, types.FunctionType): fn_roots(f, k); break
                w = getattr(f, '__wrapped__', None)
                if w is None: break
                f = w
            if isinstance(v, type):
                for a, b in list(vars(v).items()):
                    if isinstance(b, _MUTABLE): roots.append(('%s.%s' % (k, a), b))
                    elif isinstance(b, types.FunctionType): fn_roots(b, '%s.%s' % (k, a))
    return roots


def _mutable_ids(roots):
    """id -> path of every mutable object reachable from the (name, object) roots"""
    out, seen = {}, {}
    for name, o in roots:
        _walk(o, seen, lambda x, path: out.setdefault(id(x), path), name)
    return out


def _seq(k1, k2, blocks, deep):
    from crysp import wb as W
    from crysp.bits import Bits
    ms = chunks8(blocks)
    def build(k):
        bK = Bits(k, 64)
        tabs = [W.table_rKT(r, bK) for r in range(16)]
        st = _static_full(W)
        w = W.WhiteDES([t[1] for t in tabs], st['table_M1()'], st['table_M2()[0]'], st['table_M3()'])
        return w, tabs, st
    def encs(w): return ','.join(guarded(lambda m=m: hx(w.enc(m))) for m in ms)
    def roots_of(tag, n):
        w, tabs, st = n
        # (tuples as roots: the harness' own containers are neither overwritten nor compared)
        return ([(tag + '.tM1', w.tM1), (tag + '.tM2', w.tM2), (tag + '.tM3', w.tM3), (tag + '.KT', tuple(w.KT)),
                 (tag + ':table_rKT', tuple(tabs))] + [('%s:%s' % (tag, a), b) for a, b in st.items()])
    sec = {}
    # network 1 and a bystander for the same key, both alive
    n1 = guarded(lambda: build(k1))
    sec['pre'] = 'ERR' if n1 == 'ERR' else guarded(lambda: static_digests_of_text(_static_text(n1[2])))
    sec['enc1'] = 'ERR' if n1 == 'ERR' else encs(n1[0])
    nB = guarded(lambda: build(k1))
    # the experiment: overwrite in place every table object of network 1, and of one more call of every generator
    count = [0]
    visit = _scribble_visit(count)
    seen = {}
    targets = []
    if n1 != 'ERR': targets += roots_of('net1', n1)
    again = guarded(lambda: _static_full(W))
    if again != 'ERR': targets += [('call:' + a, b) for a, b in again.items()]
    again_kt = guarded(lambda: tuple([W.table_rKT(r, Bits(k1, 64)) for r in (0, 15)] + [W.table_rKS(r, Bits(k1, 64)) for r in (0, 15)]))
    if again_kt != 'ERR': targets.append(('call:table_rKT/rKS', again_kt))
    if deep: targets += _module_roots(W)
    # (the bystander is not a target: it is overwritten only if the code under test made its tables the same objects)
    for name, o in targets: _walk(o, seen, visit, name)
    sec['encB'] = 'ERR' if nB == 'ERR' else encs(nB[0])
    # network 2, generated afterwards
    n2 = guarded(lambda: build(k2))
    if n2 == 'ERR':
        sec['post'] = sec['kt'] = sec['enc2'] = 'ERR'
    else:
        sec['post'] = guarded(lambda: _static_text(n2[2]))
        sec['kt'] = guarded(lambda: ';'.join(','.join(digest(x) for x in rkt) for _, rkt in n2[1]))
        sec['enc2'] = encs(n2[0])
    # identity of mutable table objects between the three live networks
    al = []
    nets = [(t, n) for t, n in (('net1', n1), ('netB', nB), ('net2', n2)) if n != 'ERR']
    for i in range(len(nets)):
        for j in range(i + 1, len(nets)):
            a = _mutable_ids(roots_of(nets[i][0], nets[i][1])); b = _mutable_ids(roots_of(nets[j][0], nets[j][1]))
            for x in a:
                if x in b: al.append('%s=%s' % (a[x], b[x]))
    sec['alias'] = 'NONE' if not al else 'ALIASED:' + re.sub(r'[^A-Za-z0-9_.:=+()\[\]]', '_', '+'.join(sorted(set(al))[:6]))
    return '|'.join('%s=%s' % (k, sec[k]) for k in ('pre', 'enc1', 'encB', 'post', 'kt', 'alias', 'enc2'))


def _isolated(f):
    """run f() in a forked child and return its text: whatever the experiment overwrites dies with the child"""
    r, w = os.pipe()
    pid = os.fork()
    if pid == 0:
        code = 0
        try:
            os.close(r)
            try: out = f()
            except BaseException as e: out = 'HARNESS:seq:%s:%s' % (type(e).__name__, str(e)[:200])
            with os.fdopen(w, 'w') as fh: fh.write(out)
        except BaseException:
            code = 1
        finally:
            os._exit(code)
    os.close(w)
    try:
        try:
            with os.fdopen(r) as fh: data = fh.read()
        except BaseException:
            try: os.kill(pid, signal.SIGKILL)
            except OSError: pass
            raise
    finally:
        os.waitpid(pid, 0)
    return data if data else 'ERR'


# ---------------------------------------------------------------------------------------------
# the network against a DES object with a history (wb.hist)
def parse_hist(a):
    k, blocks = unhx(a[0]), unhx(a[1])
    steps = []
    for st in a[2:]:
        if st[:2] not in ('e:', 'd:', 'w:', 'v:'): raise RuntimeError('step ' + st)
        steps.append((st[0], unhx(st[2:])))
    return k, blocks, steps


def _hist(k, blocks, steps):
    """ONE DES object and ONE WhiteDES object (a new object over the worker's cached tables of the key) through the steps,
    then both on every block"""
    from crysp import wb as W
    from crysp.des import DES
    w0, _ = _net(k)
    Wn = W.WhiteDES(w0.KT, w0.tM1, w0.tM2, w0.tM3)
    D = DES(k)
    call = {'e': D.enc, 'd': D.dec, 'w': Wn.enc, 'v': Wn.dec}
    outs = [guarded(lambda st=st: hx(call[st[0]](st[1]))) for st in steps]
    trip = []
    for B in chunks8(blocks):
        wb = guarded(lambda: hx(Wn.enc(B)))
        de = guarded(lambda: hx(D.enc(B)))
        dd = 'ERR' if de == 'ERR' else guarded(lambda: hx(D.dec(unhx(de))))
        trip.append('%s:%s:%s' % (wb, de, dd))
    return ','.join(outs) + '|' + ','.join(trip)


def check_hist(a, res, bad):
    k, blocks, steps = parse_hist(a)
    if len(k) != 8: return None
    if res == 'ERR' or res.count('|') != 1: return bad('the objects could not be built / malformed result (%s)' % res[:40])
    h, c = res.split('|')
    outs = h.split(',') if steps else []
    ms = chunks8(blocks)
    trip = c.split(',') if ms else []
    if len(outs) != len(steps) or len(trip) != len(ms): return bad('malformed result')
    hist = ' '.join(a[2:]) or 'no call'
    for i, ((kind, b), got) in enumerate(zip(steps, outs)):
        if kind == 'v' or len(b) != 8: exp = 'ERR'
        else: exp = hx(R.des(k, b, kind == 'd'))
        if got != exp:
            return bad('call %d of the history (%s): expected %s (reference DES / refused operand), got %s' % (i + 1, a[2 + i], exp, got))
    for B, t in zip(ms, trip):
        f = t.split(':')
        if len(f) != 3: return bad('malformed result')
        if len(B) != 8:
            if f != ['ERR'] * 3: return bad('block of %d bytes accepted after the history [%s]' % (len(B), hist))
            continue
        exp = hx(R.des(k, B))
        if f[0] != exp: return bad('block %s: the white-box object with the history [%s] gives %s, reference DES %s' % (hx(B), hist, f[0], exp))
        if f[1] != exp:
            return bad('block %s: WhiteDES.enc = %s but the DES object of the same key with the history [%s] gives enc = %s (reference DES %s)'
                       % (hx(B), f[0], hist, f[1], exp))
        if f[2] != hx(B): return bad('block %s: dec(enc(B)) = %s on the DES object with the history [%s]' % (hx(B), f[2], hist))
    return None


def run_impl(line):
    from crysp import wb as W
    from crysp.bits import Bits
    t = line.split(); op, a = t[0], t[1:]
    def go():
        if op == 'wb.enc':
            w, _ = _net(unhx(a[0]))
            return hx(w.enc(unhx(a[1])))
        if op == 'wb.encs':
            w, _ = _net(unhx(a[0]))
            return ','.join(guarded(lambda m=m: hx(w.enc(m))) for m in chunks8(unhx(a[1])))
        if op == 'wb.tables':
            _, tabs = _net(unhx(a[0]))
            return ';'.join(','.join(digest(x) for x in rkt) + '|' + ','.join(digest(x) for x in rks) for rks, rkt in tabs)
        if op == 'wb.static':
            if a: _net(unhx(a[0]))
            m1 = W.table_M1(); mat, m = W.table_M2(); m3 = W.table_M3()
            rb = W.getrbits_T_in()
            sr = W.SRLRformat(); er = W.ERLRformat()
            mm = [list(e) if isinstance(e, tuple) else [e] for e in m]
            return ';'.join([il(m1), il(mat), fmt_table(mm), il(m3), il(rb),
                             fmt_table([p.ival for p in sr]), fmt_table([p.ival for p in er])])
        if op == 'wb.fx':
            w = W.WhiteDES([], [], W.table_M2()[0], [])
            return fb(w._WhiteDES__FX(mkbits(a[0])))
        if op == 'wb.round':
            k, r = unhx(a[0]), int(a[1])
            if (k, r) not in _RND:
                if len(_RND) > 64: _RND.clear()
                _RND[(k, r)] = W.table_rKT(r, Bits(k, 64))[1]
            kr = _RND[(k, r)]
            w = W.WhiteDES([kr], [], W.table_M2()[0], [])
            blk = mkbits(a[2])
            tt = 0
            for n in range(12):          # the body of WhiteDES.enc's inner loop, verbatim
                nt = tt + 8
                blk[tt:nt] = w.KT[0][n][blk[tt:nt]]
                tt = nt
            return fb(w._WhiteDES__FX(blk))
        if op == 'wb.hist':
            k, blocks, steps = parse_hist(a)
            return _hist(k, blocks, steps)
        raise RuntimeError('unknown op ' + op)
    if op in ('wb.seq', 'wb.seqg'):
        k1, k2, blocks = unhx(a[0]), unhx(a[1]), unhx(a[2])
        res = _isolated(lambda: _seq(k1, k2, blocks, op == 'wb.seqg'))
        if res.startswith('HARNESS:'): raise RuntimeError(res)
        return res
    return guarded(go)


# ---------------------------------------------------------------------------------------------
# the property's own predicate
Ez = [x - 1 for x in R.E]          # FIPS tables, 0-based
Pz = [x - 1 for x in R.P]
IPz = [x - 1 for x in R.IP]
FPz = [x - 1 for x in R.FP]
OUTER = [Ez[6 * i + j] for i in range(8) for j in (0, 5)]
TAIL = [x for x in range(32) if x not in OUTER]       # the 16 R bits that no S-box sees as an outer bit, ascending


def encode(L, Rr):
    """the 96-entry state layout of the network for halves L, R (sequences of 32 items, index 0 = the standard's bit 1):
    byte b < 8 : the six bits of E(R) that feed S-box b+1, then L[2b], L[2b+1];
    byte 8+c   : L[16+4c .. 19+4c], then four of the sixteen R bits not duplicated by E as outer bits."""
    s = []
    for b in range(8):
        s += [Rr[Ez[6 * b + j]] for j in range(6)] + [L[2 * b], L[2 * b + 1]]
    for c in range(4):
        s += list(L[16 + 4 * c:20 + 4 * c]) + [Rr[TAIL[4 * c + j]] for j in range(4)]
    return s


def post_tbox(L, Rr, S):
    """layout after the T-boxes: the 6 S-box input bits of byte b < 8 are replaced by 4 output bits and the 2 outer bits"""
    s = []
    for b in range(8):
        s += [S[4 * b + j] for j in range(4)] + [Rr[Ez[6 * b]], Rr[Ez[6 * b + 5]], L[2 * b], L[2 * b + 1]]
    for c in range(4):
        s += list(L[16 + 4 * c:20 + 4 * c]) + [Rr[TAIL[4 * c + j]] for j in range(4)]
    return s


def bits_of(v, n): return [(v >> (n - 1 - i)) & 1 for i in range(n)]      # msb-first int -> list, index 0 = bit 1
def int_of(l):
    v = 0
    for b in l: v = (v << 1) | b
    return v
def state_val(s): return sum(b << i for i, b in enumerate(s))               # list -> Bits.ival (index i = bit i)


_STATIC0 = []


def check_static(res):
    parts = res.split(';')
    if len(parts) != 7: return 'malformed static line'
    m1, mat, m3, rb = unil(parts[0]), unil(parts[1]), unil(parts[3]), unil(parts[4])
    mm = [unil(x) for x in parts[2].split('/')]
    if len(m1) != 96 or not all(0 <= x < 64 for x in m1): return 'M1 shape'
    if len(mat) != 96 or not all(0 <= x < (1 << 96) for x in mat): return 'M2 shape'
    if len(m3) != 64 or not all(0 <= x < 96 for x in m3): return 'M3 shape'
    if len(mm) != 96 or not all(len(e) in (1, 2) and all(0 <= x < 96 for x in e) for e in mm): return 'm shape'
    if sorted(rb) != list(range(32)): return 'rbits is not a permutation of 0..31'
    # layout equations on symbolic bits
    Ls = [('L', j) for j in range(32)]; Rs = [('R', j) for j in range(32)]; Ss = [('S', j) for j in range(32)]
    blk = [('M', j) for j in range(64)]
    ip = [blk[IPz[i]] for i in range(64)]
    if [blk[i] for i in m1] != encode(ip[:32], ip[32:]): return 'M1 is not encode o IP'
    st = encode(Ls, Rs)
    pre = Rs + Ls
    if [st[m3[i]] for i in range(64)] != [pre[FPz[i]] for i in range(64)]: return 'M3 is not IPinv o swap o decode'
    post = post_tbox(Ls, Rs, Ss)
    want = encode(Rs, [frozenset([Ls[j], Ss[Pz[j]]]) for j in range(32)])
    for v in range(96):
        cols = [i for i in range(96) if (mat[v] >> i) & 1]
        if sorted(cols) != sorted(mm[v]): return 'row %d of M2 is not the set m[%d]' % (v, v)
        got = [post[i] for i in cols]
        w = want[v]
        if isinstance(w, frozenset):
            if len(got) != 2 or frozenset(got) != w: return 'row %d of M2 does not gather L_j xor S_P(j)' % v
        elif got != [w]: return 'row %d of M2 does not gather the R bit' % v
    return None


_REFT = {}


def ref_tables(k):
    """the table network of key k computed from the standard alone (desref key schedule and S-boxes), as digests:
    16 x ([12 T-box digests], [8 S-table digests]).  Bit j of a table index is the (j+1)-th bit of the 6-bit S-box input
    group (the layout `encode` puts E(R) in, first bit at index 0); an S-table entry is the S-box output with its first
    (most significant) bit at index 0; a T-box entry is that nibble followed by index bits 0, 5, 6, 7 (`post_tbox`)."""
    if k in _REFT: return _REFT[k]
    if len(_REFT) > 32: _REFT.clear()
    rev4 = lambda x: int('{:04b}'.format(x)[::-1], 2)
    out = []
    for kr in R.subkeys(int.from_bytes(k, 'big')):
        ks, kt = [], []
        for n in range(8):
            kc = (kr >> (42 - 6 * n)) & 63
            st = []
            for c in range(64):
                b = [((c >> j) & 1) ^ ((kc >> (5 - j)) & 1) for j in range(6)]       # b[0] = first bit of the group
                row = 2 * b[0] + b[5]; col = 8 * b[1] + 4 * b[2] + 2 * b[3] + b[4]
                st.append(rev4(R.SB[n][16 * row + col]))
            ks.append(st)
            kt.append([st[v & 63] | ((v & 1) << 4) | (((v >> 5) & 7) << 5) for v in range(256)])
        kt += [list(range(256))] * 4
        out.append(([digest(t) for t in kt], [digest(t) for t in ks]))
    _REFT[k] = out
    return out


def check_encs(k, ms, rs, bad, what=''):
    """the predicate of wb.enc / wb.encs: results rs of a network of key k on the blocks ms"""
    from crysp.des import DES
    kn = bytes(b & 0xfe for b in k)
    if len(rs) != len(ms): return bad('%s%d results for %d blocks' % (what, len(rs), len(ms)))
    for m, r in zip(ms, rs):
        if len(m) != 8:
            if r != 'ERR': return bad('%sblock of %d bytes accepted' % (what, len(m)))
            continue
        exp = hx(R.des(k, m))
        if r != exp: return bad('%sblock %s: expected %s (reference DES), got %s' % (what, hx(m), exp, r))
        if hx(R.des(kn, m)) != r: return bad('%sblock %s: differs from DES under the parity-normalised key' % (what, hx(m)))
        own = guarded(lambda: hx(DES(k).enc(m)))
        if own != r: return bad('%sblock %s: the library DES gives %s, the white-box %s' % (what, hx(m), own, r))
    return None


def static0():
    if not _STATIC0:
        from crysp import wb as W
        m1 = W.table_M1(); mat, m = W.table_M2(); m3 = W.table_M3()
        _STATIC0.append((il(m1), il(mat), il(m3)))
    return _STATIC0[0]


def check_seq(line, res, bad):
    t = line.split(); k1, k2, blocks = unhx(t[1]), unhx(t[2]), unhx(t[3])
    sec = {}
    for part in res.split('|'):
        name, _, val = part.partition('=')
        sec[name] = val
    if sorted(sec) != sorted(['pre', 'enc1', 'encB', 'post', 'kt', 'alias', 'enc2']): return bad('malformed result')
    for name in ('pre', 'post', 'kt'):
        if sec[name] == 'ERR': return bad('%s: table generation raised' % name)
    ms = chunks8(blocks)
    # object identity first: it names the cause
    if sec['alias'] != 'NONE':
        return bad('%s — two table networks / two calls of a generator share a mutable table object' % sec['alias'])
    # the key-independent tables generated AFTER the modification of network 1
    try:
        post_d = static_digests_of_text(sec['post'])
    except Exception:
        return bad('malformed key-independent tables after the modification')
    if post_d != sec['pre']:
        names = ['M1', 'M2', 'm', 'M3', 'rbits', 'SRLR', 'ERLR']
        diff = [n for n, a, b in zip(names, sec['pre'].split(','), post_d.split(',')) if a != b]
        return bad('key-independent tables %s generated after an earlier network was modified in place differ from those generated before'
                   % ','.join(diff))
    p = sec['post'].split(';')
    if (p[0], p[1], p[3]) != static0(): return bad('key-independent tables differ from the first computation')
    e = check_static(sec['post'])
    if e: return bad('after the modification: ' + e)
    # network 2 against the reference
    if len(k2) == 8:
        rounds = sec['kt'].split(';')
        want = ref_tables(k2)
        if len(rounds) != 16: return bad('%d rounds in network 2' % len(rounds))
        for r, rd in enumerate(rounds):
            if rd.split(',') != want[r][0]: return bad('network 2, round %d: T-boxes are not the reference T-boxes of key2' % r)
    for k, name in ((k1, 'enc1'), (k1, 'encB'), (k2, 'enc2')):
        if len(k) != 8: continue
        what = {'enc1': 'network 1 before the modification, ', 'encB': 'untouched second network of key1 after the modification of the first, ',
                'enc2': 'network 2 generated after the modification of network 1, '}[name]
        e = check_encs(k, ms, sec[name].split(',') if ms else [], bad, what)
        if e: return e
    return None


def check_impl(line, res):
    t = line.split(); op, a = t[0], t[1:]
    bad = lambda why: '%s: %s' % (op, why)
    if op in ('wb.enc', 'wb.encs'):
        k = unhx(a[0])
        if len(k) != 8: return None
        ms = [unhx(a[1])] if op == 'wb.enc' else chunks8(unhx(a[1]))
        return check_encs(k, ms, res.split(',') if ms else [], bad)
    if op in ('wb.seq', 'wb.seqg'):
        return check_seq(line, res, bad)
    if op == 'wb.hist':
        return check_hist(a, res, bad)
    if op == 'wb.tables':
        if res == 'ERR': return bad('table generation raised')
        rounds = res.split(';')
        if len(rounds) != 16: return bad('%d rounds' % len(rounds))
        ident = '256:255:%d' % phash(range(256))
        for r, rd in enumerate(rounds):
            kt, ks = rd.split('|')
            kt = kt.split(','); ks = ks.split(',')
            if len(kt) != 12 or len(ks) != 8: return bad('round %d: %d T-boxes, %d S-tables' % (r, len(kt), len(ks)))
            for n, d in enumerate(kt):
                f = d.split(':')
                if len(f) != 3: return bad('round %d table %d: entries are not non-negative ints (%s)' % (r, n, d))
                if int(f[0]) != 256 or int(f[1]) > 255: return bad('round %d table %d is not a byte map on 0..255 (%s)' % (r, n, d))
                if n >= 8 and d != ident: return bad('round %d bypass table %d is not the identity' % (r, n))
            for n, d in enumerate(ks):
                f = d.split(':')
                if len(f) != 3 or int(f[0]) != 64 or int(f[1]) > 15: return bad('round %d S-table %d: %s' % (r, n, d))
            if len(unhx(a[0])) == 8:
                want = ref_tables(unhx(a[0]))[r]
                if kt != want[0]: return bad('round %d: T-boxes are not S_n(chunk xor k_r,n) || bypass bits for the reference round key' % r)
                if ks != want[1]: return bad('round %d: S-tables are not the S-boxes keyed with the reference round key' % r)
        return None
    if op == 'wb.static':
        if res == 'ERR': return bad('static table generation raised')
        p = res.split(';')
        if (p[0], p[1], p[3]) != static0(): return bad('key-independent tables differ from the first computation')
        e = check_static(res)
        return bad(e) if e else None
    if op == 'wb.round':
        k, r = unhx(a[0]), int(a[1]); n, v = unbt(a[2])
        if len(k) != 8 or n != 96 or not 0 <= r < 16: return None
        sb = [(v >> i) & 1 for i in range(96)]
        # recover (L,R) when v is a valid encoding
        Lh = [None] * 32; Rh = [None] * 32
        names = encode([('L', j) for j in range(32)], [('R', j) for j in range(32)])
        for (h, j), b in zip(names, sb): (Lh if h == 'L' else Rh)[j] = b
        if encode(Lh, Rh) != sb: return None                     # not a state of the network: code <-> model only
        kr = R.subkeys(int.from_bytes(k, 'big'))[r]
        nr = int_of(Lh) ^ R.f(int_of(Rh), kr)
        exp = '96:%d' % state_val(encode(Rh, bits_of(nr, 32)))
        return None if res == exp else bad('round %d of encode(L,R) is not encode(R, L xor f(R,k)): expected %s' % (r, exp))
    return None


# ---------------------------------------------------------------------------------------------
def rb(rng, n): return bytes(rng.getrandbits(8) for _ in range(n))

UNIT = b''.join((1 << i).to_bytes(8, 'big') for i in range(64)) + bytes(8) + b'\xff' * 8


def parity_variants(k, rng):
    yield bytes(b ^ 1 for b in k)
    yield bytes(b & 0xfe for b in k)
    yield bytes(b | 1 for b in k)
    yield bytes(b ^ rng.getrandbits(1) for b in k)


def network(k, rng, nrand, tag, unit=True):
    """the lines validating one generated network; consecutive so that one worker generates the tables once"""
    if unit: yield 'wb.encs %s %s' % (hx(k), hx(UNIT)), tag + '.unitblocks'
    if nrand: yield 'wb.encs %s %s' % (hx(k), hx(rb(rng, 8 * nrand))), tag + '.randomblocks'
    yield 'wb.tables %s' % hx(k), tag + '.tables'


def state_of(L, Rr):
    return bt(96, state_val(encode(bits_of(L, 32), bits_of(Rr, 32))))


def round_cases(k, rng, nrand, tag):
    for r in range(16):
        for _ in range(nrand):
            yield 'wb.round %s %d %s' % (hx(k), r, state_of(rng.getrandbits(32), rng.getrandbits(32))), tag
        yield 'wb.round %s %d %s' % (hx(k), r, state_of(0, 0)), tag + '.zero'
        yield 'wb.round %s %d %s' % (hx(k), r, state_of(0xffffffff, 0xffffffff)), tag + '.ones'
        i = rng.randrange(32)
        yield 'wb.round %s %d %s' % (hx(k), r, state_of(1 << i, 0)), tag + '.unitL'
        yield 'wb.round %s %d %s' % (hx(k), r, state_of(0, 1 << i)), tag + '.unitR'
        yield 'wb.round %s %d %s' % (hx(k), r, bt(96, rng.getrandbits(96))), 'round.anystate'


def flip(k, i):
    """key k with bit i (0 = most significant bit of byte 0, i % 8 == 7: a parity bit) complemented"""
    return (int.from_bytes(k, 'big') ^ (1 << (63 - i))).to_bytes(8, 'big')


def seq_cases(rng, q):
    """several generations in one process: (key1, key2) pairs chosen so that a memo keyed on less than the key, or on
    nothing at all, shows: equal keys, parity variants, keys that differ in exactly one bit (every byte's most significant
    bit, a parity bit, an inner bit), the keys of tests/test_des.py, weak keys, random pairs"""
    B = lambda n: hx(rb(rng, 8 * n))
    kt = bytes.fromhex('0123456789abcdef')
    yield 'wb.seq %s %s %s' % (hx(kt), hx(bytes.fromhex('81a3c5e7092b4d6f')), hx(b'Now is t' + bytes.fromhex('8000000000000001'))), 'seq.testkey'
    yield 'wb.seqg %s %s %s' % (hx(kt), hx(bytes.fromhex('8123456789abcdef')), hx(b'Now is t')), 'seq.testkey'
    k = rb(rng, 8)
    yield 'wb.seq %s %s %s' % (hx(k), hx(k), B(2)), 'seq.samekey'
    yield 'wb.seqg %s %s %s' % (hx(k), hx(bytes(b ^ 1 for b in k)), B(2)), 'seq.parityvariant'
    msb = list(range(0, 64, 8))
    for i in (msb if not q else rng.sample(msb, 3)):
        k = rb(rng, 8)
        yield 'wb.seq %s %s %s' % (hx(k), hx(flip(k, i)), B(2)), 'seq.onebit.msb'
    k = rb(rng, 8)
    yield 'wb.seq %s %s %s' % (hx(k), hx(bytes(b ^ 0x80 for b in k)), B(2)), 'seq.allmsb'
    yield 'wb.seq %s %s %s' % (hx(k), hx(flip(k, 8 * rng.randrange(8) + 7)), B(2)), 'seq.onebit.parity'
    inner = [i for i in range(64) if i % 8 not in (0, 7)]
    for i in rng.sample(inner, 2 if q else 12):
        k = rb(rng, 8)
        yield '%s %s %s %s' % (rng.choice(['wb.seq', 'wb.seqg']), hx(k), hx(flip(k, i)), B(2)), 'seq.onebit.inner'
    yield 'wb.seq %s %s %s' % (hx(R.WEAK[0]), hx(R.WEAK[1]), B(2)), 'seq.weak'
    yield 'wb.seqg %s %s %s' % (hx(bytes(8)), hx(b'\x80' + bytes(7)), B(2)), 'seq.zero'
    for _ in range(3 if q else 24):
        yield '%s %s %s %s' % (rng.choice(['wb.seq', 'wb.seqg']), hx(rb(rng, 8)), hx(rb(rng, 8)), B(3 if q else 8)), 'seq.random'
    yield 'wb.seq %s %s %s' % (hx(rb(rng, 8)), hx(rb(rng, 8)), hx(rb(rng, 8 + 5))), 'seq.badblocksize'


def hist_patterns(rng):
    """(tag, steps): histories of the DES object (e/d) and of the network object (w/v): accepted calls, calls refused for a
    wrong-size operand (an exception must not leave anything behind either), in several orders; an odd and an even number of
    refused calls (a toggle left behind by every refused call cancels itself in pairs)"""
    B = lambda: rb(rng, 8)
    short = lambda: rb(rng, rng.choice([0, 1, 3, 7]))
    long_ = lambda: rb(rng, rng.choice([9, 16, 24]))
    yield 'fresh', []
    yield 'des-enc', [('e', B())]
    yield 'des-dec', [('d', B())]
    yield 'des-dec-refused', [('d', short())]
    yield 'des-enc-refused', [('e', short())]
    yield 'des-dec-refused-long', [('d', long_())]
    yield 'des-dec-refused-twice', [('d', short()), ('d', long_())]
    yield 'des-dec-refused-thrice', [('d', short()), ('d', short()), ('d', long_())]
    yield 'des-enc-dec', [('e', B()), ('d', B())]
    yield 'des-dec-enc', [('d', B()), ('e', B())]
    yield 'des-enc-refuseddec-enc', [('e', B()), ('d', short()), ('e', B())]
    yield 'des-dec-refusedenc-dec', [('d', B()), ('e', long_()), ('d', B())]
    yield 'des-refusedenc-refuseddec-dec', [('e', short()), ('d', short()), ('d', B())]
    yield 'des-refuseddec-dec-enc', [('d', long_()), ('d', B()), ('e', B())]
    yield 'wb-enc', [('w', B()), ('w', B())]
    yield 'wb-refused', [('w', short())]
    yield 'wb-enc-refused-enc', [('w', B()), ('w', long_()), ('v', B()), ('w', B())]
    yield 'wb-dec-refused', [('v', B()), ('v', short())]
    yield 'both', [('w', B()), ('e', B()), ('v', B()), ('d', short()), ('w', short()), ('d', B())]


def hist_cases(rng, q):
    kt = bytes.fromhex('133457799bbcdff1')
    keys = [(kt, 'hist.testkey')] + [(rb(rng, 8), 'hist.randomkey') for _ in range(1 if q else 6)] + ([] if q else [(R.WEAK[0], 'hist.weakkey')])
    for k, tag in keys:
        blocks = b'Now is t' + bytes(8) + rb(rng, 8 * (2 if q else 6))
        for name, steps in hist_patterns(rng):
            yield 'wb.hist %s %s %s' % (hx(k), hx(blocks), ' '.join('%s:%s' % (a, hx(b)) for a, b in steps)), tag + '.' + name
        for _ in range(6 if q else 40):
            steps = []
            for _ in range(rng.randrange(1, 8)):
                kind = rng.choice('eeddddwv')
                steps.append((kind, rb(rng, rng.choice([8, 8, 8, 0, 5, 7, 9, 16]))))
            yield 'wb.hist %s %s %s' % (hx(k), hx(rb(rng, 16)), ' '.join('%s:%s' % (a, hx(b)) for a, b in steps)), tag + '.random'
    yield 'wb.hist %s %s d:x0102' % (hx(rb(rng, 8)), hx(rb(rng, 8 + 3))), 'hist.badblocksize'


def cases(tier, rng):
    if tier == 'search':
        while True:
            k = rb(rng, 8)
            k2 = rng.choice([rb(rng, 8), flip(k, rng.randrange(64)), bytes(b ^ 0x80 for b in k), k])
            yield '%s %s %s %s' % (rng.choice(['wb.seq', 'wb.seqg']), hx(k), hx(k2), hx(rb(rng, 16))), 'search'
            yield 'wb.encs %s %s' % (hx(k), hx(rb(rng, 64))), 'search'
            yield 'wb.tables %s' % hx(k), 'search'
            yield 'wb.round %s %d %s' % (hx(k), rng.randrange(16), state_of(rng.getrandbits(32), rng.getrandbits(32))), 'search'
            yield 'wb.static %s' % hx(k), 'search'
            for name, steps in hist_patterns(rng):
                if rng.randrange(4) == 0:
                    yield 'wb.hist %s %s %s' % (hx(k), hx(rb(rng, 16)), ' '.join('%s:%s' % (a, hx(b)) for a, b in steps)), 'search'
        return
    q = tier == 'quick'
    yield 'wb.static', 'static'
    yield 'wb.enc x0123456789abcdef x4e6f772069732074', 'kat'                  # tests/test_des.py
    for k, p, c in R.KAT: yield 'wb.enc x%s x%s' % (k.lower(), p.lower()), 'kat'
    # several generations in one process, an earlier network modified in place.  First in the stream: each of these lines is
    # self-contained (its own forked process), so when the code keeps state between generations the reported failing input
    # replays in a fresh process, which a single-network line that failed because of its worker's history would not.
    # (a copy of the rng: the rest of the stream does not depend on how many values these lines draw)
    rng2 = random.Random(); rng2.setstate(rng.getstate())
    yield from seq_cases(rng2, q)
    yield from hist_cases(rng2, q)
    # block sizes the cipher does not define
    k0 = rb(rng, 8)
    for n in (0, 1, 7, 9, 16, 24): yield 'wb.enc %s %s' % (hx(k0), hx(rb(rng, n))), 'badblocksize'
    yield 'wb.encs %s %s' % (hx(k0), hx(rb(rng, 8 * 3 + 7))), 'badblocksize'   # trailing 7-byte block
    # generated networks
    nr = 8 if q else 32
    for _ in range(5 if q else 60):
        k = rb(rng, 8)
        yield from network(k, rng, nr, 'key.random')
        yield 'wb.static %s' % hx(k), 'static'
    for k in R.WEAK: yield from network(k, rng, nr, 'key.weak')
    semi = list(R.SEMIWEAK)
    if q: semi = rng.sample(semi, 5)
    for k in semi: yield from network(k, rng, nr, 'key.semiweak')
    for k in (bytes(8), b'\xff' * 8): yield from network(k, rng, nr, 'key.parity-of-weak')
    bitsel = list(range(64))
    if q: bitsel = sorted(set(rng.sample(range(64), 5) + [8 * rng.randrange(8) + 7]))     # 5 key bits + 1 parity bit
    for i in bitsel:
        yield from network((1 << (63 - i)).to_bytes(8, 'big'), rng, nr if not q else 2, 'key.singlebit')
    for _ in range(1 if q else 20):
        k = rb(rng, 8)
        blocks = rb(rng, 8 * (8 if q else 16))
        for k2 in [k] + list(parity_variants(k, rng)):
            yield 'wb.encs %s %s' % (hx(k2), hx(UNIT if not q else UNIT[:8 * 16] + UNIT[-16:])), 'key.parityvariant.unitblocks'
            yield 'wb.encs %s %s' % (hx(k2), hx(blocks)), 'key.parityvariant.sameblocks'
            yield 'wb.tables %s' % hx(k2), 'key.parityvariant.tables'
    # one round on encoded states, and the linear layer alone
    rkeys = [rb(rng, 8), R.WEAK[2]] + ([] if q else [rb(rng, 8) for _ in range(6)] + list(R.SEMIWEAK[:2]))
    for k in rkeys: yield from round_cases(k, rng, 2 if q else 8, 'round.encoded')
    for i in range(96): yield 'wb.fx %s' % bt(96, 1 << i), 'fx.unit'
    yield 'wb.fx %s' % bt(96, 0), 'fx.zero'
    yield 'wb.fx %s' % bt(96, (1 << 96) - 1), 'fx.ones'
    for _ in range(20 if q else 400): yield 'wb.fx %s' % bt(96, rng.getrandbits(96)), 'fx.random'
    for n in (0, 8, 95, 97, 128): yield 'wb.fx %s' % bt(n, rng.getrandbits(n) if n else 0), 'fx.othersize'


def shrink(line):
    t = line.split()
    if t[0] in ('wb.seq', 'wb.seqg'):
        b = unhx(t[3])
        n = (len(b) + 7) // 8
        if n > 1:
            yield ' '.join(t[:3] + [hx(b[:8 * (n // 2)])])
            yield ' '.join(t[:3] + [hx(b[8 * (n // 2):])])
        if t[0] == 'wb.seqg': yield ' '.join(['wb.seq'] + t[1:])
    if t[0] == 'wb.hist':
        steps = t[3:]
        for i in range(len(steps)): yield ' '.join(t[:3] + steps[:i] + steps[i + 1:])
        b = unhx(t[2]); n = (len(b) + 7) // 8
        if n > 1:
            yield ' '.join(t[:2] + [hx(b[:8 * (n // 2)])] + steps)
            yield ' '.join(t[:2] + [hx(b[8 * (n // 2):])] + steps)
        for i, st in enumerate(steps):
            if len(st) > 4 and len(st) != 19: yield ' '.join(t[:3] + steps[:i] + [st[:3]] + steps[i + 1:])
        return
    if t[0] == 'wb.encs':
        b = unhx(t[2])
        n = len(b) // 8
        if n > 1:
            yield ' '.join([t[0], t[1], hx(b[:8 * (n // 2)])])
            yield ' '.join([t[0], t[1], hx(b[8 * (n // 2):])])
        elif len(b) == 8:
            yield ' '.join(['wb.enc', t[1], t[2]])
    for i, tok in enumerate(t[1:], 1):
        if tok[0] == 'x' and len(tok) > 1 and len(tok) <= 17:
            b = unhx(tok)
            for j in range(len(b)):
                if b[j]:
                    yield ' '.join(t[:i] + [hx(b[:j] + b'\0' + b[j + 1:])] + t[i + 1:])
