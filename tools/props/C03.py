"""C03 — every block cipher is a permutation (local aggregator: DES/TDEA part only; the integrator merges the part lists)."""
from props.common import aggregate
from props.parts import c03_des
ID = 'C03'
aggregate(globals(), [c03_des])
RULE = 'distinct op lines; non-trivial = the implementation returned a value (not an exception)'
LEVEL_TEXT = ('Lean 4 theorems dec∘enc = id = enc∘dec for Model.Des/TDEA for every key and block through a generic Feistel-network lemma '
              '(no S-box fact), IP/IPinv mutual inverses from the regenerated tables; correspondence stream with round trips on the real code.')
LEVEL_NOTE = 'Trusted: Lean kernel, translator and correspondence harness.'
TECHNIQUE = 'Lean 4 proof (generic Feistel inverse, kernel enumeration of permutation tables) + correspondence check'
