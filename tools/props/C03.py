"""C03 — every block cipher is a permutation: dec inverts enc, and so do their parts.
Aggregator over tools/props/parts/c03_*.py (proofs in lean/Proofs/C03_*.lean)."""
import importlib, os
from props.common import aggregate

ID = 'C03'
_here = os.path.join(os.path.dirname(__file__), 'parts')
PARTS = [importlib.import_module('props.parts.' + n) for n in ('c03_aes', 'c03_des', 'c03_serpent', 'c03_threefish', 'c03_streams')
         if os.path.exists(os.path.join(_here, n + '.py'))]
aggregate(globals(), PARTS)
RULE = ' || '.join('[%s] %s' % (p.__name__.split('.')[-1], getattr(p, 'RULE', '')) for p in PARTS)
LEVEL_TEXT = ('Lean 4 theorems on the models of the ciphers: dec (enc B) = B = enc (dec B) and |enc B| = |B| for every key (tweak) and block, and every exposed '
              'component pair is a pair of mutual inverses on its whole domain (S-boxes by kernel enumeration of the complete tables and lifting to every '
              'position, MixColumns on all 2^32 columns by GF(2)-linearity, IP/FP and index maps as permutations, linear layers by xor cancellation, rol/ror for '
              'every width and amount, a generic Feistel lemma for DES). Parts present: ' + ', '.join(p.__name__.split('.')[-1] for p in PARTS) +
              '. Tied to the current source by the translator and the correspondence stream (round trips evaluated on the real code).')
LEVEL_NOTE = ('Trusted: Lean kernel; axioms ⊆ {propext, Classical.choice, Quot.sound}; extract.py/runcheck.py/props/parts/c03_*.py. These are theorems about the '
              'models; C02 relates the models to the standards. A change that keeps a cipher invertible but changes its output is C02\'s, and is reported here '
              'at most as a broken tie. Theorem list: evidence/C03.json coverage.theorems.')
TECHNIQUE = 'Lean 4 proof (kernel enumeration, GF(2)-linearity, permutation arguments, induction over rounds) + translator + correspondence check'
