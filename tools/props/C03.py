"""C03 — every block cipher is a permutation; so are its parts (local aggregator: Serpent part + rol/ror only)."""
from props.common import aggregate
from props.parts import c03_serpent

ID = 'C03'
aggregate(globals(), [c03_serpent])
RULE = c03_serpent.RULE
LEVEL_TEXT = ('Lean 4 theorems about Model.Serpent / Model.Bits: Sinv∘S = id = S∘Sinv (8 boxes, all 16 values enumerated, lifted to every 128-bit state), '
              'FP∘IP = id = IP∘FP, Linv∘L = id = L∘Linv for every state, ror∘rol = id = rol∘ror for every width and amount, '
              'dec∘enc = id = enc∘dec and |enc B| = |B| for every key up to 256 bits and every block.')
LEVEL_NOTE = ('Trusted: Lean kernel; axioms ⊆ {propext, Classical.choice, Quot.sound}; extract.py/runcheck.py/props/parts/c03_serpent.py. '
              'Theorems are about the model; the correspondence stream (round trips evaluated on the real code) ties it to the source.')
TECHNIQUE = 'Lean 4 proof (kernel enumeration, testBit extensionality, xor cancellation, induction over rounds) + correspondence check'
