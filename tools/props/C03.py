"""C03 — every block cipher is a permutation.  LOCAL aggregator of the Threefish part only (the integrator merges the part lists)."""
from props.common import aggregate
from props.parts import c03_threefish
ID = 'C03'
aggregate(globals(), [c03_threefish])
RULE = c03_threefish.RULE
LEVEL_TEXT = ('Lean 4 theorems about Model.Threefish for every key, tweak and block of the three sizes: dec(enc B) = B, enc(dec B) = B, |enc B| = |B|, '
              'MIX^-1 after MIX = id and conversely for every rotation amount, piinv after pi = id (enumerated), key subtraction inverts key addition; '
              'tie to the code: translator + correspondence stream evaluating the round trips on the real code.')
LEVEL_NOTE = ('Trusted: Lean kernel; axioms within {propext, Classical.choice, Quot.sound}; extract.py/runcheck.py/props. Theorem list: evidence/C03.json.')
TECHNIQUE = 'Lean 4 proof (BitVec algebra, kernel enumeration of the permutations, induction over the rounds) + correspondence check'
