"""C03 — local aggregator (AES part only; the integrator merges the part lists)."""
from props.common import aggregate
from props.parts import c03_aes
ID = 'C03'
aggregate(globals(), [c03_aes])
RULE = c03_aes.RULE
LEVEL_TEXT = 'Lean 4 theorems: AES enc/dec and the exposed component pairs are mutual inverses (AES part)'
LEVEL_NOTE = 'AES part only'
TECHNIQUE = 'Lean 4 proof (kernel enumeration, GF(2)-linearity, induction over rounds) + correspondence check'
