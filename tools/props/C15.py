"""C15 — CRC-32 equals the standard; the generic table-driven CRC equals bit-serial division; the forging helpers hit
any requested target; the backward computation inverts the forward one.

run_impl executes the op line on the real crysp.crc.  check_impl is the property's own predicate, evaluated on the
implementation's output with an independent bit-serial reference written here (and zlib.crc32 as secondary oracle):
it shares no code with crysp or with the Lean model."""
import zlib
from props.common import *

ID = 'C15'
LEAN_PROOFS = ['Proofs.C15']
GEN_ITEMS = ['Crc']
RULE = ('op lines = (operation, polynomial/width, init/final, data, position, target); distinct lines; non-trivial = the '
        'implementation returned a value (not an exception) on an input inside the property domain')
TRUSTED = ['Spec.Crc (bit-serial reflected division; CRC-32 parameters typed from the standard) — validated against zlib.crc32 by this stream',
           "struct.pack('I',·) is modelled as 4-byte little-endian (native order of x86-64/aarch64 hosts)"]
ASSUMPTIONS = ['little-endian host (crc32_fix/_fix_pos use native-order struct.pack)',
               'data is a bytes object, targets/positions are non-negative ints (str targets and non-bytes data are outside the wire domain)',
               'a reflected polynomial of width w is a w-bit value; for the backward table its top bit (the x^0 coefficient) is set']

M32 = 0xffffffff
P32 = 0xEDB88320

# ---------------------------------------------------------------------------------------------
_tabs = {}
def _table(pv, pw, back=False):
    from crysp import crc
    from crysp.bits import Bits
    k = (pv, pw, back)
    if k not in _tabs:
        if len(_tabs) > 64: _tabs.clear()
        _tabs[k] = (crc.crc_back_table if back else crc.crc_table)(Bits(pv, pw))
    return _tabs[k]

def optnat(v): return 'none' if v is None else str(int(v))

def run_impl(line):
    from crysp import crc
    from crysp.bits import Bits
    t = line.split(); op, a = t[0], t[1:]
    def go():
        if op == 'crc.crc32': return str(crc.crc32(unhx(a[0])))
        if op == 'crc.crc':
            return str(crc.crc(unhx(a[4]), _table(int(a[0]), int(a[1])), int(a[2]), unoi(a[3])))
        if op == 'crc.table':
            return ';'.join(fb(x) for x in crc.crc_table(Bits(int(a[0]), int(a[1]))))
        if op == 'crc.backtable':
            tb = crc.crc_back_table(Bits(int(a[0]), int(a[1])))
            return ';'.join(fb(tb[n]) for n in range(256))
        if op == 'crc.backpos':
            return optnat(crc.crc_back_pos(unhx(a[2]), int(a[3]), _table(int(a[0]), int(a[1]), True), int(a[4]), int(a[5])))
        if op == 'crc.back32': return optnat(crc.crc32_back_pos(unhx(a[0]), int(a[1]), int(a[2])))
        if op == 'crc.fix': return hx(crc.crc32_fix(unhx(a[0]), int(a[1])))
        if op == 'crc.fixpos': return hx(crc.crc32_fix_pos(unhx(a[0]), int(a[1]), int(a[2])))
        if op == 'crc.tab32':
            n = int(a[0])
            return '%s %s %s %s' % (fb(crc.TABLE32_1[n]), fb(crc.TABLE32_1b[n]), fb(crc.POLY32_1), fb(crc.POLY32_1i))
        raise RuntimeError('unknown op ' + op)
    import io, contextlib
    with contextlib.redirect_stdout(io.StringIO()):      # the "pos error" message
        return guarded(go)


# ---------------------------------------------------------------------------------------------
# independent reference: bit-serial reflected division
def ref_register(P, r, data):
    for byte in data:
        for j in range(8):
            fbk = (r & 1) ^ ((byte >> j) & 1)
            r >>= 1
            if fbk: r ^= P
    return r

def ref_crc(P, w, data, init, final): return ref_register(P, init % (1 << w), data) ^ final

def steps8(P, x):
    for _ in range(8): x = (x >> 1) ^ (P if x & 1 else 0)
    return x


def check_impl(line, res):
    t = line.split(); op, a = t[0], t[1:]
    bad = lambda why: '%s: %s' % (op, why)
    if op == 'crc.crc32':
        d = unhx(a[0])
        if res != str(zlib.crc32(d)): return bad('differs from zlib.crc32 (%d)' % zlib.crc32(d))
        if res != str(ref_crc(P32, 32, d, M32, M32)): return bad('differs from bit-serial CRC-32')
        return None
    if op == 'crc.crc':
        pv, pw, xi, xf, d = int(a[0]), int(a[1]), int(a[2]), unoi(a[3]), unhx(a[4])
        if pw < 8 or xi < 0 or (xf or 0) < 0: return None       # outside the property's domain: code<->model only
        exp = ref_crc(pv % (1 << pw), pw, d, xi, xf or 0)
        return None if res == str(exp) else bad('bit-serial division gives %d' % exp)
    if op == 'crc.table':
        pv, pw = int(a[0]), int(a[1])
        if pw < 8: return None
        P = pv % (1 << pw)
        exp = ';'.join('%d:%d' % (pw, steps8(P, n)) for n in range(256))
        return None if res == exp else bad('an entry is not eight bit-steps of its index')
    if op == 'crc.backtable':
        pv, pw = int(a[0]), int(a[1])
        if pw < 8: return None if res == 'ERR' else None
        P = pv % (1 << pw)
        if not (P >> (pw - 1)) & 1: return None
        if res == 'ERR': return bad('unexpected exception')
        for h, e in enumerate(res.split(';')):
            s, v = e.split(':')
            if int(s) != pw or int(v) >> pw or steps8(P, int(v)) != h << (pw - 8):
                return bad('entry %d is not the 8-step preimage of %d<<(w-8)' % (h, h))
        return None
    if op in ('crc.backpos', 'crc.back32'):
        if op == 'crc.backpos':
            pv, pw, d, pos, xf, c = int(a[0]), int(a[1]), unhx(a[2]), int(a[3]), int(a[4]), int(a[5])
        else:
            pv, pw, d, pos, xf, c = P32, 32, unhx(a[0]), int(a[1]), M32, int(a[2])
        if pw < 8: return None
        P = pv % (1 << pw)
        if not (P >> (pw - 1)) & 1 or not (0 <= c < 1 << pw) or not (0 <= xf < 1 << pw): return None
        if not (0 <= pos < len(d)):
            return None if res == 'none' else bad('position outside the data must be refused')
        if res in ('ERR', 'none'): return bad('unexpected failure')
        R = int(res)
        if R >> pw: return bad('register wider than the CRC')
        if ref_register(P, R, d[pos:]) ^ xf != c: return bad('running forward from the returned register does not give c')
        if op == 'crc.back32' and c == zlib.crc32(d) and R != ref_register(P32, M32, d[:pos]):
            return bad('backward from crc32(data) is not the forward register at pos')
        return None
    if op in ('crc.fix', 'crc.fixpos'):
        d = unhx(a[0])
        if op == 'crc.fix': pos, tg = len(d) - 4, int(a[1])
        else: pos, tg = int(a[1]), int(a[2])
        if len(d) < 4 or not (0 <= pos <= len(d) - 4) or not (0 <= tg <= M32): return None
        if res == 'ERR': return bad('unexpected exception')
        o = unhx(res)
        if len(o) != len(d): return bad('length changed')
        if o[:pos] != d[:pos] or o[pos + 4:] != d[pos + 4:]: return bad('bytes outside the 4-byte window changed')
        if zlib.crc32(o) != tg: return bad('zlib.crc32 of the result is %d, not the target' % zlib.crc32(o))
        if ref_crc(P32, 32, o, M32, M32) != tg: return bad('bit-serial CRC-32 of the result is not the target')
        return None
    if op == 'crc.tab32':
        n = int(a[0]); f, b, p, pi = res.split()
        if p != '32:%d' % P32: return bad('POLY32_1')
        if pi != '32:%d' % 0x5B358FD3: return bad('POLY32_1i')
        if f != '32:%d' % steps8(P32, n): return bad('TABLE32_1[%d]' % n)
        s, v = b.split(':')
        if s != '32' or int(v) >> 32 or steps8(P32, int(v)) != n << 24: return bad('TABLE32_1b[%d]' % n)
        return None
    return None


def nontrivial(line, res):
    return res not in ('ERR', 'none')


# ---------------------------------------------------------------------------------------------
# reflected polynomials of catalogued CRCs (width, reflected poly)
KNOWN_POLYS = [(8, 0x8C), (8, 0xE0), (8, 0xAB), (12, 0xF01), (15, 0x4CD1), (16, 0xA001), (16, 0x8408), (16, 0xEDD1),
               (24, 0xDF3261), (31, 0x65DD53DF), (32, P32), (32, 0x82F63B78), (32, 0xEB31D82E), (40, 0x9000412000),
               (64, 0xC96C5795D7870F42), (64, 0xD800000000000000)]

def rbytes(rng, n): return bytes(rng.getrandbits(8) for _ in range(n))

def rpoly(rng, w, top=True):
    p = rng.getrandbits(w) if w else 0
    if top and w: p |= 1 << (w - 1)
    return p

def crc_lines(rng, pv, pw, nd):
    full = (1 << pw) - 1
    inits = [0, full, rng.getrandbits(pw) if pw else 0]
    finals = [None, 0, full, rng.getrandbits(pw) if pw else 0]
    for _ in range(nd):
        d = rbytes(rng, rng.choice([0, 1, 2, 3, 4, 5, 8, 9, rng.randrange(0, 40)]))
        yield 'crc.crc %d %d %d %s %s' % (pv, pw, rng.choice(inits), oi(rng.choice(finals)), hx(d)), 'crc.crc'
    d = rbytes(rng, 7)
    # init/final wider than the register, negative values (abs() in Bits), zero final
    yield 'crc.crc %d %d %d %s %s' % (pv, pw, rng.getrandbits(pw + 9), oi(rng.getrandbits(pw + 5) | 1 << (pw + 4)), hx(d)), 'crc.crc-wide'
    yield 'crc.crc %d %d %d %s %s' % (pv, pw, -rng.getrandbits(pw + 1), oi(-rng.getrandbits(pw + 1)), hx(d)), 'crc.crc-neg'

def back_lines(rng, pv, pw, nd):
    for _ in range(nd):
        n = rng.choice([1, 2, 3, 4, 5, 8, rng.randrange(1, 24)])
        d = rbytes(rng, n)
        for pos in {0, n - 1, rng.randrange(n)}:
            yield 'crc.backpos %d %d %s %d %d %d' % (pv, pw, hx(d), pos, rng.choice([0, (1 << pw) - 1, rng.getrandbits(pw)]), rng.getrandbits(pw)), 'crc.backpos'
        for pos in (n, -1, n + 3):
            yield 'crc.backpos %d %d %s %d %d %d' % (pv, pw, hx(d), pos, 0, rng.getrandbits(pw)), 'crc.backpos-badpos'
    d = rbytes(rng, 3)
    yield 'crc.backpos %d %d %s 0 0 %d' % (pv, pw, hx(d), rng.getrandbits(pw + 8) | 1 << (pw + 7)), 'crc.backpos-wide'
    yield 'crc.backpos %d %d x 0 0 0' % (pv, pw), 'crc.backpos-badpos'

TARGETS = [0, M32, 1, 0x80000000, 0xdeadbeef, 0x12345678] + [1 << i for i in range(32)]

def fix_lines(rng, d, targets, allpos):
    n = len(d)
    for tg in targets:
        yield 'crc.fix %s %d' % (hx(d), tg), 'crc.fix'
    poss = range(0, n + 2) if allpos else sorted({0, max(n - 4, 0), rng.randrange(0, max(n - 3, 1)), rng.randrange(0, max(n - 3, 1))})
    for pos in poss:
        for tg in (targets if not allpos else targets[:3] + [rng.getrandbits(32)]):
            tag = 'crc.fixpos' if pos <= n - 4 else 'crc.fixpos-outside'
            yield 'crc.fixpos %s %d %d' % (hx(d), pos, tg), tag

def back32_lines(rng, d):
    n = len(d)
    c = zlib.crc32(d)
    for pos in sorted({0, n - 1, n // 2, rng.randrange(max(n, 1))} | ({n - 4} if n >= 4 else set())):
        if 0 <= pos:
            yield 'crc.back32 %s %d %d' % (hx(d), pos, c), 'crc.back32-roundtrip'
            yield 'crc.back32 %s %d %d' % (hx(d), pos, rng.getrandbits(32)), 'crc.back32'
    yield 'crc.back32 %s %d %d' % (hx(d), n, c), 'crc.back32-badpos'


def cases(tier, rng):
    if tier == 'search':
        while True:
            d = rbytes(rng, rng.choice([rng.randrange(0, 12), rng.randrange(0, 100)]))
            yield 'crc.crc32 %s' % hx(d), 'crc.crc32'
            yield from fix_lines(rng, d, [rng.getrandbits(32), rng.choice(TARGETS)], len(d) < 9)
            yield from back32_lines(rng, d)
            pw = rng.randrange(8, 65); pv = rpoly(rng, pw)
            yield 'crc.table %d %d' % (pv, pw), 'crc.table'
            yield 'crc.backtable %d %d' % (pv, pw), 'crc.backtable'
            yield from crc_lines(rng, pv, pw, 4)
            yield from back_lines(rng, pv, pw, 2)
        return
    q = tier == 'quick'
    for n in range(256): yield 'crc.tab32 %d' % n, 'crc.tab32'
    # ---- CRC-32 itself
    fixed = [b'', b'a', b'abc', b'message digest', b'123456789', b'\x00', b'\x00' * 4, b'\xff' * 4, b'\x00' * 32, b'\xff' * 33,
             bytes(range(256)), b'\xff\xff\xff\xff\x00\x00\x00\x00']
    for d in fixed: yield 'crc.crc32 %s' % hx(d), 'crc.crc32-fixed'
    for b in range(256): yield 'crc.crc32 %s' % hx(bytes([b])), 'crc.crc32-1byte'
    for n in range(0, 130 if q else 600):
        for _ in range(3 if q else 6): yield 'crc.crc32 %s' % hx(rbytes(rng, n)), 'crc.crc32'
    for n in (255, 256, 257, 1000, 4096, 65536) + (() if q else (10000, 65535, 65537, 131072)):
        yield 'crc.crc32 %s' % hx(rbytes(rng, n)), 'crc.crc32-long'
    # ---- generic CRC: catalogued polynomials, every width 8..64 (random polynomials), narrow widths for the tie
    polys = list(KNOWN_POLYS)
    for w in range(8, 65):
        for _ in range(2 if q else 12): polys.append((w, rpoly(rng, w, top=rng.random() < 0.8)))
    polys += [(w, (1 << w) - 1) for w in (8, 16, 32, 64)] + [(w, 1 << (w - 1)) for w in (8, 9, 33, 64)] + [(16, 0), (8, 1)]
    polys += [(128, rpoly(rng, 128)), (65, rpoly(rng, 65))]
    for pw, pv in polys:
        yield 'crc.table %d %d' % (pv, pw), 'crc.table'
        yield 'crc.backtable %d %d' % (pv, pw), 'crc.backtable'
        yield from crc_lines(rng, pv, pw, 10 if q else 20)
        yield from back_lines(rng, pv, pw, 3 if q else 8)
    for pw in range(1, 8):    # width 0 is refused by the code since the C08 fix (c[0] of an empty Bits is an IndexError); not modelled
        pv = rpoly(rng, pw)
        yield 'crc.table %d %d' % (pv, pw), 'crc.table-narrow'
        yield 'crc.backtable %d %d' % (pv, pw), 'crc.backtable-narrow'
        yield from crc_lines(rng, pv, pw, 3)
        yield 'crc.backpos %d %d %s 0 0 0' % (pv, pw, hx(rbytes(rng, 2))), 'crc.backpos-narrow'
    yield 'crc.crc %d 40 0 None x01' % (1 << 45), 'crc.crc-wide'          # polynomial value wider than its size (masked by Bits)
    # ---- forging helpers
    for n in range(0, 4):                                               # shorter than 4 bytes: outside the property, tie only
        d = rbytes(rng, n)
        for tg in (0, M32, rng.getrandbits(32)):
            yield 'crc.fix %s %d' % (hx(d), tg), 'crc.fix-short'
            for pos in range(0, n + 1): yield 'crc.fixpos %s %d %d' % (hx(d), pos, tg), 'crc.fixpos-short'
    for n in range(4, 17 if q else 24):                                 # short data: every position, every single-bit target
        for k in range(1 if q else 3):
            yield from fix_lines(rng, rbytes(rng, n), TARGETS if (n in (4, 5, 8) and k == 0) else TARGETS[:6] + [rng.getrandbits(32)], True)
    for d in (b'\x00' * 4, b'\xff' * 4, b'\x00' * 9, b'\xff' * 9):
        yield from fix_lines(rng, d, TARGETS[:6], True)
    for _ in range(200 if q else 4000):
        n = rng.choice([rng.randrange(13, 70), rng.randrange(13, 70), rng.randrange(70, 400)])
        yield from fix_lines(rng, rbytes(rng, n), [rng.getrandbits(32), rng.choice(TARGETS)], False)
    d = rbytes(rng, 10)
    for tg in (1 << 32, (1 << 32) + 5, 1 << 40):                        # targets beyond 32 bits: tie only
        yield 'crc.fix %s %d' % (hx(d), tg), 'crc.fix-wide'
        yield 'crc.fixpos %s 3 %d' % (hx(d), tg), 'crc.fixpos-wide'
    # ---- backward computation on CRC-32
    for n in list(range(0, 20)) + [rng.randrange(20, 200) for _ in range(40 if q else 600)]:
        yield from back32_lines(rng, rbytes(rng, n))
    yield 'crc.back32 x00 -1 0', 'crc.back32-badpos'
    yield 'crc.back32 x0011 0 %d' % (1 << 35), 'crc.back32-wide'


def shrink(line):
    t = line.split()
    for i, tok in enumerate(t[1:], 1):
        if tok[0] == 'x' and len(tok) > 3:
            yield ' '.join(t[:i] + ['x' + tok[3:]] + t[i + 1:])
            yield ' '.join(t[:i] + [tok[:-2]] + t[i + 1:])
            if set(tok[1:]) != {'0'}: yield ' '.join(t[:i] + ['x' + '0' * (len(tok) - 1)] + t[i + 1:])


LEVEL_TEXT = ('Lean 4 theorems about Model.Crc (the hand-written mirror of crysp/crc.py over Model.Bits): the table-driven CRC of every '
              'reflected polynomial of every width >= 8 equals bit-serial division for every init/final and byte string; crc32 is the '
              'standard CRC-32; crc32_fix / crc32_fix_pos hit every 32-bit target at every admissible position, keep the length and '
              'every byte outside the window; the backward loop inverts the forward loop. The model is tied to the current source by '
              'the translator (POLY32_1, POLY32_1i, TABLE32_1, TABLE32_1b read from the live module, re-proved equal to the generated '
              'tables in the kernel) and by a correspondence stream that also evaluates zlib.crc32 and an independent bit-serial reference.')
LEVEL_NOTE = ('Trusted: Lean kernel; axioms ⊆ {propext, Classical.choice, Quot.sound}; Spec.Crc as the rendering of the CRC definition (validated '
              'against zlib.crc32 in the stream); extract.py/runcheck.py/props/C15.py; CPython int/bytes/struct semantics are modelled. '
              'str targets, negative positions and non-bytes data are outside the wire domain. Theorem list: evidence/C15.json coverage.theorems.')
TECHNIQUE = 'Lean 4 proof (GF(2)-linearity of the bit step, induction over the byte list, kernel enumeration of the 256-entry tables and of the 32 basis targets) + correspondence check'
