"""C19 — TLSH/Nilsimsa: well-formed reproducible digests, distances behave as distances.

run_impl executes the op line on the real crysp.tlsh / crysp.nilsimsa; check_impl is the property's own predicate:
fixed digest length or None (never an exception), the None conditions, from_hash round trip, distance laws
(symmetry, zero on equal operands, object/bytes/mixed forms agree), Nilsimsa 32 bytes, distance = Hamming, and — for
inputs up to REF_MAX bytes — equality with independent positional Python references of both algorithms
(tools/props/parts/lsh_ref.py; written from the paper / nilsimsa.c, sharing no code with crysp or the Lean model).

ops (see lean/Driver/LshD.lean):
  tlsh <buckets> <window> <chklen> <force> <data>      tlsh.rt (same arguments: digest -> from_hash -> digest)
  tlsh.lcap <len>     tlsh.lcaprange <lo> <hi>          l_capturing with data_len set directly on the object
  tlsh.final <buckets> <window> <chklen> <force> <l-list of 256 bucket counts> <data_len> <checksum>
                                                        a_bucket / data_len / checksum set directly on a fresh object, then the real
                                                        final(b'',force).digest(): the finalisation (quartiles, Q ratios, body) on
                                                        bucket arrays chosen by the generator, not found by hashing
  tlsh.qscan <buckets> <window> <chklen> <q3> <d|t>     the Q byte for the arrays scan_buckets(q1,q2,q3), q1=q2=0..q3 (d) / all q1<=q2<=q3 (t)
  tlsh.qexact <lo> <hi>                                 the Q-ratio expressions AS WRITTEN in the current source of TLSH.final, evaluated on the
                                                        real interpreter for every float pair 0<=q<=q3, lo<=q3<hi, against exact integer division
  tlsh.fromhash <buckets> <window> <chklen> <digest>
  tlsh.dist <buckets> <window> <chklen> <d1> <d2> <form oo|ob|bo|bb|all> <lvalue T/F>   -> per form `dxy;dyx;dxx`
  tlsh.ddist <buckets> <window> <chklen> <force> <m1> <m2> <lvalue>                     -> `oo;ob;bo;bb;oo(y,x);oo(x,x)`
  nilsimsa <target> <data>    nilsimsa.tran <target>    nilsimsa.dist <d1> <d2>
  tlsh.calls <buckets|S> <window> <chklen> <step>…      ONE TLSH object (`S 5 1`: the module singleton crysp.tlsh.tlsh) through a history:
                                                        c:<T|F>:<data> call | cl:<T|F>:<l-list> call with a list of ints (a value > 255 raises
                                                        inside update()) | u:<data> / ul:<l-list> update without digest | f:<T|F>:<data> final
                                                        without digest | h:<digest> from_hash — a call that returns None, a forced call, a call
                                                        that raises, a dangling update, a reloaded digest, then normal calls
  nilsimsa.calls <target> <step>…                       ONE Nilsimsa object: c:F:<data> | cl:F:<l-list> | u:<data> | ul:<l-list>
      every call's result must be the one-shot digest of THAT call's arguments (reference of lsh_ref.py; model: Model.Tlsh.tlsh /
      Model.Nilsimsa.nilsimsa of the step's arguments alone), whatever the object went through before.
"""
from props.common import *
from props.parts import lsh_ref as R

ID = 'C19'
LEAN_PROOFS = ['Proofs.C19', 'Proofs.C19.Calls']
GEN_ITEMS = ['Lsh']
REF_MAX = 1500
RULE = ('op lines = TLSH digests over the full grid buckets{48,128,256} x window 4..8 x checksum length {1,3} at lengths 0,1,w-1,w,48..52,254..258 '
        'with both force flags, prefixes chosen so that the populated-bucket count straddles the gate, uniform / 2..6-symbol data, random text-like and '
        'binary data up to a few KB, invalid configurations; the finalisation on explicit object state (a_bucket / data_len / checksum set directly, then the '
        'real final().digest()): bucket arrays constructed to have chosen quartiles — every pair (q,q3), q3<=200 (thorough 1000), whose quotient 100q/q3 is '
        'an integer, as q1 and as q2, a seeded subset of the triples <=160, counts up to 2^20 and 2^46 with quotients at / beside an integer, both gates, '
        'arrays of the wrong length; the Q byte scanned for ALL pairs q<=q3<=200 (thorough: 1000, and all triples q1<=q2<=q3<=160); the Q-ratio '
        'expressions as written in the source evaluated on all float pairs q<=q3<1024 (thorough 4096) against integer division; '
        'l_capturing enumerated densely by ranges; from_hash on arbitrary byte strings of the right and '
        'wrong lengths; distances in all object/bytes forms on random, equal, header-wrap-around and cross-configuration pairs; Nilsimsa tables for every '
        'target 0..255, digests at lengths 0..12, around the threshold steps and random; histories of calls on ONE TLSH object / the module singleton / '
        'ONE Nilsimsa object (a call returning None, a forced call, a call raising inside update(), a dangling update, from_hash, final without digest, '
        'then normal calls): every digest against the one-shot digest of its own arguments; distinct lines; non-trivial = a digest / a number was returned')
TRUSTED = ['libm log: l_capturing is an uninterpreted parameter `lcap : Nat -> Nat` in every theorem; the compiled driver instantiates it with Lean Float.log '
           '(IEEE double, same libm), compared with the real code densely over data_len by the correspondence stream (tlsh.lcaprange)',
           'quartile ratios int(q*100./q3)%16 are modelled by integer floor division (exact for bucket counts < 2^47: argument in lean/Model/Tlsh.lean); '
           'both header nibbles are compared with the real code on every hashed input, on explicit bucket arrays covering all quartile pairs q<=q3<=200 '
           '(thorough: <=1000 and all triples <=160) and sampled counts up to 2^46 (tlsh.final / tlsh.qscan), and the source expressions themselves are '
           'enumerated on this interpreter over all float pairs q<=q3<1024 (thorough: <4096) against exact integer division (tlsh.qexact)',
           'Spec.Tlsh / Spec.Nilsimsa are renderings of the TLSH paper + Trend Micro reference and of nilsimsa 0.2.4; no executable reference of either exists '
           'in this image: they are validated only against the known answers in /repo/tests/test_tlsh.py and test_nilsimsa.py (corpus lines) ',
           'the Pearson table in Spec.Tlsh is a pinned snapshot (no generating rule, no independent copy offline)',
           'maketran scan loop modelled with a fuel bound (256*257) never reached for targets 0..255 (op nilsimsa.tran enumerates all of them)',
           'CPython semantics of sorted(), bytearray, zip, divmod (modelled)']
ASSUMPTIONS = ['inputs are bytes objects (the `isinstance(data,str)` branches are Python-2 leftovers that fail under Python 3; not modelled)',
               'TLSH incremental update() across several calls is not part of the property (update() clears the buckets on every call)',
               'distance() is applied to valid digest objects (after final()/from_hash) or to bytes',
               'bucket counts < 2^47 (inputs shorter than ~10^13 bytes) for the exactness of the quartile ratios',
               'python -O (asserts stripped) is out of scope']

CFGS = [(b, w, c) for b in (48, 128, 256) for w in (4, 5, 6, 7, 8) for c in (1, 3)]
def cfg_valid(b, w, c): return b in (48, 128, 256) and w in (4, 5, 6, 7, 8) and c in (1, 3)
def dlen(b, c): return c + 2 + b // 4


# ---------------------------------------------------------------------------------------------
def fmt_d(f):
    try:
        r = f()
    except (KeyboardInterrupt, SystemExit):
        raise
    except Exception as e:
        if type(e).__name__ == '_Timeout': raise
        return 'ERR'
    return 'none' if r is None else str(int(r))


# ---------------------------------------------------------------------------------------------
# explicit-state finalisation (tlsh.final / tlsh.qscan / tlsh.qexact)
def scan_buckets(b, q1, q2, q3):
    """a quarter of the first b buckets at each of q1, q2, q3, q3+1 (order statistics exactly q1<=q2<=q3); the buckets beyond b, which
    48/128-bucket configurations must ignore, at q3+7 (same construction as Driver.LshD.scanBuckets)"""
    l = b // 4
    return [q1] * l + [q2] * l + [q3] * l + [q3 + 1] * l + [q3 + 7] * (256 - 4 * l)


def scan_pairs(q3, mode):
    if mode == 'd': return [(q, q) for q in range(q3 + 1)]
    if mode == 't': return [(q1, q2) for q1 in range(q3 + 1) for q2 in range(q1, q3 + 1)]
    raise ValueError(mode)


_QEXPR = {}


def q_exprs(T):
    """the right-hand sides of `self.q1_ratio = ...` / `self.q2_ratio = ...` in the CURRENT source of TLSH.final, compiled as functions of the
    local names q1,q2,q3 (floats, as find_quartiles returns them); None if the source no longer has that shape (qexact_impl then goes through the object)"""
    if 'f' not in _QEXPR:
        import ast, inspect, textwrap
        fs = {}
        try:
            tree = ast.parse(textwrap.dedent(inspect.getsource(T.TLSH.final)))
            for n in ast.walk(tree):
                if isinstance(n, ast.Assign) and len(n.targets) == 1 and isinstance(n.targets[0], ast.Attribute) and n.targets[0].attr in ('q1_ratio', 'q2_ratio'):
                    names = {x.id for x in ast.walk(n.value) if isinstance(x, ast.Name)}
                    if not names <= {'q1', 'q2', 'q3', 'int', 'float', 'round'}: continue
                    lam = ast.Expression(ast.Lambda(ast.arguments(posonlyargs=[], args=[ast.arg('q1'), ast.arg('q2'), ast.arg('q3')], kwonlyargs=[], kw_defaults=[],
                                                                  defaults=[]), n.value))
                    ast.fix_missing_locations(lam)
                    fs[n.targets[0].attr] = eval(compile(lam, '<TLSH.final>', 'eval'), vars(T).copy())
        except (KeyboardInterrupt, SystemExit):
            raise
        except Exception as e:
            if type(e).__name__ == '_Timeout': raise
            fs = {}
        _QEXPR['f'] = (fs['q1_ratio'], fs['q2_ratio']) if len(fs) == 2 else None
    return _QEXPR['f']


def qexact_impl(T, lo, hi):
    fs = q_exprs(T)
    if fs is None:
        # the source no longer has the shape `self.q?_ratio = <expression in q1,q2,q3>`: read the ratios off the real object instead (slower)
        def both(q, q3):
            o = T.TLSH(48); o.a_bucket = scan_buckets(48, q, q, q3); o.data_len = 256; o.final(b'', False)
            return o.q1_ratio, o.q2_ratio
    else:
        both = lambda q, q3, f1=fs[0], f2=fs[1]: (f1(float(q), float(q), float(q3)), f2(float(q), float(q), float(q3)))
    n = 0; bad = []
    for q3 in range(lo, hi):
        for q in range(q3 + 1):
            e = q * 100 // q3 % 16
            if both(q, q3) != (e, e): bad.append('%d/%d' % (q, q3))
        n += q3 + 1
    return 'n=%d;bad=%s' % (n, ','.join(bad[:12]))


def q_nibbles_fail(b, c, bk, res):
    """the two Q nibbles of a digest against the exact rational quotients of the order statistics of bk[:b]"""
    srt = sorted(bk[:b]); l = b // 4
    q1, q2, q3 = srt[l - 1], srt[2 * l - 1], srt[3 * l - 1]
    if q3 == 0: return None
    qb = unhx(res)[c + 1]
    e1, e2 = R.qratio(q1, q3), R.qratio(q2, q3)
    if (qb >> 4, qb & 15) != (e1, e2):
        return 'Q ratios in the digest = (%d,%d), exact floor(100*q/q3)%%16 = (%d,%d) for the quartiles q1=%d q2=%d q3=%d' % (qb >> 4, qb & 15, e1, e2, q1, q2, q3)
    return None


# ---------------------------------------------------------------------------------------------
# ONE object through a history of calls (tlsh.calls / nilsimsa.calls)
def parse_calls(toks):
    steps = []
    for st in toks:
        f = st.split(':')
        k = f[0]
        if k in ('c', 'cl', 'f') and len(f) == 3: steps.append((k, unbo(f[1]), unil(f[2]) if k == 'cl' else unhx(f[2])))
        elif k in ('u', 'ul', 'h') and len(f) == 2: steps.append((k, None, unil(f[1]) if k == 'ul' else unhx(f[1])))
        else: raise RuntimeError('step ' + st)
    if not steps: raise RuntimeError('no step')
    return steps


def calls_tok(k, force, data):
    d = il(data) if k in ('cl', 'ul') else hx(data)
    return '%s:%s:%s' % (k, bo(force), d) if k in ('c', 'cl', 'f') else '%s:%s' % (k, d)


def _fresh_tlsh_module():
    """a private instance of the module crysp.tlsh: its singleton `tlsh` is this line's alone (whatever a line leaves in the
    singleton of the worker's imported module would otherwise meet the lines that worker runs next)"""
    import importlib.util
    spec = importlib.util.find_spec('crysp.tlsh')
    m = importlib.util.module_from_spec(spec)
    spec.loader.exec_module(m)
    return m


def run_calls(op, a):
    def mark(f):
        try: f()
        except (KeyboardInterrupt, SystemExit): raise
        except Exception as e:
            if type(e).__name__ == '_Timeout': raise
            return '!'
        return '.'
    def dig(f):
        def g():
            r = f()
            return 'none' if r is None else hx(r)
        return guarded(g)
    if op == 'tlsh.calls':
        steps = parse_calls(a[3:])
        if a[0] == 'S':
            if (a[1], a[2]) != ('5', '1'): raise RuntimeError('the singleton is TLSH(128)')
            box = []
            if guarded(lambda: box.append(_fresh_tlsh_module().tlsh) or 'ok') == 'ERR': return 'ERR'
        else:
            from crysp import tlsh as T
            box = []
            if guarded(lambda: box.append(T.TLSH(int(a[0]), int(a[1]), int(a[2]))) or 'ok') == 'ERR': return 'ERR'
        o, out = box[0], []
        for k, force, data in steps:
            if k in ('c', 'cl'): out.append(dig(lambda: o(data, force)))
            elif k in ('u', 'ul'): out.append(mark(lambda: o.update(data)))
            elif k == 'f': mark(lambda: o.final(data, force)); out.append('.')
            else: out.append(mark(lambda: o.from_hash(data)))
        return ';'.join(out)
    from crysp import nilsimsa as N
    steps = parse_calls(a[1:])
    box = []
    if guarded(lambda: box.append(N.Nilsimsa(int(a[0]))) or 'ok') == 'ERR': return 'ERR'
    o, out = box[0], []
    for k, force, data in steps:
        if k in ('c', 'cl') and force is False: out.append(dig(lambda: o(data)))
        elif k in ('u', 'ul'): out.append(mark(lambda: o.update(data)))
        else: raise RuntimeError('step of a Nilsimsa line')
    return ';'.join(out)


def check_calls(op, a, res):
    """every step is judged on its own arguments: what came before on the object must not show"""
    bad = lambda i, why: '%s step %d of %d on one object (%s…; history: %s): %s' % (
        op, i + 1, len(steps), toks[i][:24], ' '.join(t.split(':')[0] for t in toks[:i]) or 'none', why)
    big = lambda d: any(v > 255 for v in d)
    if op == 'tlsh.calls':
        toks = a[3:]; steps = parse_calls(toks)
        b, w, c = (128, 5, 1) if a[0] == 'S' else (int(a[0]), int(a[1]), int(a[2]))
        if not cfg_valid(b, w, c): return None if res == 'ERR' else '%s: invalid configuration accepted' % op
        outs = res.split(';')
        if len(outs) != len(steps): return '%s: %d results for %d steps' % (op, len(outs), len(steps))
        for i, ((k, force, data), got) in enumerate(zip(steps, outs)):
            raises = big(data) and len(data) >= w
            if k in ('c', 'cl'):
                if raises: exp = 'ERR'
                elif len(data) < 50 or (not force and len(data) < 256): exp = 'none'
                elif len(data) <= REF_MAX:
                    r = R.tlsh(b, w, c, bytes(data), force); exp = 'none' if r is None else hx(r)
                else:
                    if got == 'ERR': return bad(i, 'exception instead of a digest or None')
                    continue
                if got != exp: return bad(i, 'the call returned %s, the one-shot reference digest of its arguments is %s' % (got[:80], exp[:80]))
            elif k in ('u', 'ul'):
                if got != ('!' if raises else '.'): return bad(i, 'update %s' % ('raised' if got == '!' else 'accepted a value > 255'))
            elif k == 'h':
                if got != ('.' if len(data) == dlen(b, c) else '!'): return bad(i, 'from_hash %s' % ('raised' if got == '!' else 'accepted a malformed digest'))
        return None
    toks = a[1:]; steps = parse_calls(toks); t = int(a[0])
    outs = res.split(';')
    if len(outs) != len(steps): return '%s: %d results for %d steps' % (op, len(outs), len(steps))
    for i, ((k, force, data), got) in enumerate(zip(steps, outs)):
        raises = big(list(data)[1:-1])
        if big(data) and not raises: return None          # outside the protocol
        if k in ('c', 'cl'):
            exp = 'ERR' if raises else hx(R.nilsimsa(t, bytes(data)))
            if got != exp: return bad(i, 'the call returned %s, the one-shot reference digest of its argument is %s' % (got[:80], exp[:80]))
        elif got != ('!' if raises else '.'): return bad(i, 'update %s' % ('raised' if got == '!' else 'accepted a value > 255'))
    return None


def run_impl(line):
    t = line.split()
    op, a = t[0], t[1:]
    if op in ('tlsh.calls', 'nilsimsa.calls'): return run_calls(op, a)
    if op.startswith('nilsimsa'):
        from crysp import nilsimsa as N
        def go():
            if op == 'nilsimsa': return hx(N.Nilsimsa(int(a[0]))(unhx(a[1])))
            if op == 'nilsimsa.tran': return hx(N.Nilsimsa(int(a[0])).tran)
            if op == 'nilsimsa.dist': return str(N.distance(unhx(a[0]), unhx(a[1])))
            raise RuntimeError('unknown op ' + op)
        return guarded(go)
    from crysp import tlsh as T
    def go():
        if op == 'tlsh.lcap':
            o = T.TLSH(128); o.data_len = int(a[0]); return str(o.l_capturing())
        if op == 'tlsh.lcaprange':
            o = T.TLSH(128); out = []; prev = None
            for l in range(int(a[0]), int(a[1])):
                o.data_len = l; v = o.l_capturing()
                if v != prev: out.append('%d:%d' % (l, v)); prev = v
            return ','.join(out)
        if op == 'tlsh.qexact': return qexact_impl(T, int(a[0]), int(a[1]))
        b, w, c = int(a[0]), int(a[1]), int(a[2])
        if op == 'tlsh':
            r = T.TLSH(b, w, c)(unhx(a[4]), unbo(a[3]))
            return 'none' if r is None else hx(r)
        if op == 'tlsh.final':
            o = T.TLSH(b, w, c)
            o.a_bucket = unil(a[4]); o.data_len = int(a[5]); o.checksum = bytearray(unhx(a[6]))      # what update() leaves behind
            if o.final(b'', unbo(a[3])) is None: return 'none'
            return hx(o.digest().lsh_code)
        if op == 'tlsh.qscan':
            q3 = int(a[3]); out = []
            T.TLSH(b, w, c)                                      # an invalid configuration is refused once, for the whole line
            for q1, q2 in scan_pairs(q3, a[4]):
                try:
                    o = T.TLSH(b, w, c); o.a_bucket = scan_buckets(b, q1, q2, q3); o.data_len = 256
                    out.append('--' if o.final(b'', False) is None else '%02x' % bytearray(o.digest().lsh_code)[c + 1])
                except (KeyboardInterrupt, SystemExit):
                    raise
                except Exception as e:
                    if type(e).__name__ == '_Timeout': raise
                    out.append('EE')
            return ''.join(out)
        if op == 'tlsh.rt':
            r = T.TLSH(b, w, c)(unhx(a[4]), unbo(a[3]))
            if r is None: return 'none'
            return hx(T.TLSH(b, w, c).from_hash(r).digest().lsh_code)
        if op == 'tlsh.fromhash':
            o = T.TLSH(b, w, c).from_hash(unhx(a[3]))
            return '%s;ck=%s;L=%d;q1=%d;q2=%d;code=%s' % (hx(o.digest().lsh_code), hx(o.checksum), o.Lvalue, o.q1_ratio, o.q2_ratio, hx(o.tmp_code))
        if op == 'tlsh.dist':
            d1, d2, form, lv = unhx(a[3]), unhx(a[4]), a[5], unbo(a[6])
            def operand(f, d): return T.TLSH(b, w, c).from_hash(d) if f == 'o' else d
            def one(f1, f2):
                return ';'.join([fmt_d(lambda: T.distance(operand(f1, d1), operand(f2, d2), lv)),
                                 fmt_d(lambda: T.distance(operand(f2, d2), operand(f1, d1), lv)),
                                 fmt_d(lambda: T.distance(operand(f1, d1), operand(f2, d1), lv))])
            if form == 'all': return '/'.join('%s:%s' % (f, one(f[0], f[1])) for f in ('oo', 'ob', 'bo', 'bb'))
            return one(form[0], form[1])
        if op == 'tlsh.ddist':
            f, m1, m2, lv = unbo(a[3]), unhx(a[4]), unhx(a[5]), unbo(a[6])
            H1 = T.TLSH(b, w, c); H2 = T.TLSH(b, w, c)
            if H1.final(m1, f) is None or H2.final(m2, f) is None: return 'none'
            H1.digest(); H2.digest()
            h1, h2 = H1.lsh_code, H2.lsh_code
            return ';'.join(fmt_d(g) for g in (lambda: T.distance(H1, H2, lv), lambda: T.distance(H1, h2, lv), lambda: T.distance(h1, H2, lv),
                                               lambda: T.distance(h1, h2, lv), lambda: T.distance(H2, H1, lv), lambda: H1.distance_to(H1) if lv else T.distance(H1, H1, lv)))
        raise RuntimeError('unknown op ' + op)
    return guarded(go)


# ---------------------------------------------------------------------------------------------
def check_impl(line, res):
    t = line.split(); op, a = t[0], t[1:]
    bad = lambda why: '%s: %s' % (op, why)
    if op in ('tlsh.calls', 'nilsimsa.calls'): return check_calls(op, a, res)
    if op == 'nilsimsa':
        d = unhx(a[1])
        if res == 'ERR': return bad('exception')
        if len(res) != 65: return bad('digest is not 32 bytes')
        if len(d) <= 4 * REF_MAX and res != hx(R.nilsimsa(int(a[0]), d)): return bad('differs from the nilsimsa 0.2.4 reference')
        return None
    if op == 'nilsimsa.tran':
        if res != hx(R.filltran(int(a[0]))): return bad('differs from filltran')
        if int(a[0]) == 53 and sorted(unhx(res)) != list(range(256)): return bad('tran(53) is not a permutation')
        return None
    if op == 'nilsimsa.dist':
        x, y = unhx(a[0]), unhx(a[1])
        if len(x) != len(y): return None if res == 'ERR' else bad('operands of different length must be refused')
        if res != str(R.hamming(x, y)): return bad('not the Hamming distance')
        if (res == '0') != (x == y): return bad('zero iff equal violated')
        return None
    if op == 'tlsh.lcap':
        n = int(a[0])
        if n == 0: return None
        return None if res == str(R.lcap(n)) else bad('differs from the reference formula')
    if op == 'tlsh.lcaprange':
        out, prev = [], None
        for l in range(int(a[0]), int(a[1])):
            v = R.lcap(l)
            if v != prev: out.append('%d:%d' % (l, v)); prev = v
        return None if res == ','.join(out) else bad('differs from the reference formula')
    if op == 'tlsh.qexact':
        lo, hi = int(a[0]), int(a[1])
        exp = 'n=%d;bad=' % sum(q3 + 1 for q3 in range(lo, hi))
        return None if res == exp else bad('the Q-ratio expression of the source differs from exact floor(100*q/q3)%%16 on float operands: %s' % res[:120])
    b, w, c = int(a[0]), int(a[1]), int(a[2])
    ok = cfg_valid(b, w, c)
    if op == 'tlsh.final':
        if not ok: return None if res == 'ERR' else bad('invalid configuration accepted')
        force, bk, n, ck = unbo(a[3]), unil(a[4]), int(a[5]), unhx(a[6])
        if len(bk) != 256 or len(ck) != c: return None           # not a state update() can leave behind: only model = code is compared
        if res == 'ERR': return bad('exception instead of a digest or None')
        exp = R.tlsh_encode(b, c, bk, n, ck, force)
        if exp is None: return None if res == 'none' else bad('a digest although the reference has none (length / population gate)')
        if res == 'none': return bad('None although the reference has a digest')
        if len(res) != 1 + 2 * dlen(b, c): return bad('digest length is not chklen+2+buckets/4')
        why = q_nibbles_fail(b, c, bk, res)
        if why: return bad(why)
        if res != hx(exp): return bad('differs from the reference encoding (%s)' % hx(exp)[:80])
        return None
    if op == 'tlsh.qscan':
        if not ok: return None if res == 'ERR' else bad('invalid configuration accepted')
        q3 = int(a[3]); l = b // 4
        pairs = scan_pairs(q3, a[4])
        if len(res) != 2 * len(pairs): return bad('malformed result')
        for k, (q1, q2) in enumerate(pairs):
            pop = l * ((q1 > 0) + (q2 > 0) + (q3 > 0) + 1)
            exp = '--' if R.too_few(b, pop) else '%02x' % (R.qratio(q1, q3) << 4 | R.qratio(q2, q3))
            if res[2 * k:2 * k + 2] != exp:
                return bad('Q byte %s for quartiles q1=%d q2=%d q3=%d, exact floor(100*q/q3)%%16 gives %s' % (res[2 * k:2 * k + 2], q1, q2, q3, exp))
        return None
    if op in ('tlsh', 'tlsh.rt'):
        if not ok: return None if res == 'ERR' else bad('invalid configuration accepted')
        force, d = unbo(a[3]), unhx(a[4])
        if res == 'ERR': return bad('exception instead of a digest or None')
        n = len(d)
        if n < 50 or (not force and n < 256):
            return None if res == 'none' else bad('input below the minimum length must give None')
        if res != 'none' and len(res) != 1 + 2 * dlen(b, c): return bad('digest length is not chklen+2+buckets/4')
        if n <= REF_MAX:
            exp = R.tlsh(b, w, c, d, force)
            exp = 'none' if exp is None else hx(exp)
            if res != exp: return bad('differs from the reference algorithm (%s)' % exp[:80])
        return None
    if op == 'tlsh.fromhash':
        x = unhx(a[3])
        if not ok or len(x) != dlen(b, c): return None if res == 'ERR' else bad('malformed digest / configuration accepted')
        exp = '%s;ck=%s;L=%d;q1=%d;q2=%d;code=%s' % (hx(x), hx(bytes(R.swap(v) for v in x[:c])), R.swap(x[c]), x[c + 1] >> 4, x[c + 1] & 15, hx(x[c + 2:][::-1]))
        return None if res == exp else bad('re-loaded fields / re-serialised digest differ: expected ' + exp[:120])
    if op == 'tlsh.dist':
        d1, d2, form, lv = unhx(a[3]), unhx(a[4]), a[5], unbo(a[6])
        groups = [g.split(':')[-1].split(';') for g in res.split('/')]
        wf = ok and len(d1) == dlen(b, c) and len(d2) == dlen(b, c)
        for g in groups:
            if len(g) != 3: return bad('malformed result')
            if g[0] != g[1]: return bad('d(x,y) != d(y,x): %s vs %s' % (g[0], g[1]))
        if wf:
            exp = str(R.tlsh_distance(c, d1, d2, lv))
            for g in groups:
                if not g[0].isdigit(): return bad('no distance for two well-formed digests: ' + g[0])
                if g[2] != '0': return bad('d(x,x) != 0')
                if g[0] != exp: return bad('differs from the reference distance %s (or forms disagree)' % exp)
        elif len(groups) == 4 and len(d1) == len(d2) and dlen(b, c) == len(d1):
            if len({g[0] for g in groups}) != 1: return bad('object/bytes forms disagree')
        return None
    if op == 'tlsh.ddist':
        if not ok: return None if res == 'ERR' else bad('invalid configuration accepted')
        if res == 'ERR': return bad('exception')
        f, m1, m2, lv = unbo(a[3]), unhx(a[4]), unhx(a[5]), unbo(a[6])
        if res == 'none':
            if max(len(m1), len(m2)) <= REF_MAX and R.tlsh(b, w, c, m1, f) is not None and R.tlsh(b, w, c, m2, f) is not None:
                return bad('None although both inputs have a reference digest')
            return None
        g = res.split(';')
        if len(g) != 6 or not all(x.isdigit() for x in g): return bad('distance is not a non-negative integer: ' + res)
        if len(set(g[:4])) != 1: return bad('object / bytes / mixed forms disagree: ' + res)
        if g[4] != g[0]: return bad('d(x,y) != d(y,x)')
        if g[5] != '0': return bad('d(x,x) != 0')
        if max(len(m1), len(m2)) <= REF_MAX:
            h1, h2 = R.tlsh(b, w, c, m1, f), R.tlsh(b, w, c, m2, f)
            if h1 is None or h2 is None: return bad('a distance although the reference has no digest')
            if g[0] != str(R.tlsh_distance(c, h1, h2, lv)): return bad('differs from the reference distance')
        return None
    return None


def nontrivial(line, res): return res not in ('ERR', 'none') and not res.startswith('none;')


# ---------------------------------------------------------------------------------------------
TEXT = b'etaoin shrdlu cmfwyp ETAOIN.,\n0123456789'


def gens(rng):
    rb = lambda n: bytes(rng.getrandbits(8) for _ in range(n))
    tx = lambda n: bytes(rng.choice(TEXT) for _ in range(n))
    few = lambda k, n: (lambda al: bytes(rng.choice(al) for _ in range(n)))(rb(k))
    return rb, tx, few


def L(op, cfg, *rest): return '%s %d %d %d %s' % (op, cfg[0], cfg[1], cfg[2], ' '.join(rest))


def gate_lines(cfg, rng, per_cfg):
    """prefixes of one stream whose populated-bucket count is just below / at / above the gate: a uniform run of the minimum
    length (50 with force, 256 without) populates only a handful of buckets, the varied bytes after it add a few per byte"""
    b, w, c = cfg
    rb, tx, few = gens(rng)
    thr = 18 if b == 48 else b // 2 + 1          # smallest populated count that is hashed
    tr = [t for t in R.TRIPLETS if t[2] < w]
    for pad, force in ((50, 'T'), (256, 'F')):
        d = bytes([rng.getrandbits(8)]) * pad + rng.choice([rb, tx, lambda n: few(rng.choice([6, 8, 12]), n)])(600)
        bk = [0] * 256; pop = 0; found = {}
        for e in range(w - 1, len(d)):
            for s, x, y in tr:
                v = R.bmap(s, d[e], d[e - x], d[e - y])
                if bk[v] == 0 and v < b: pop += 1
                bk[v] += 1
            n = e + 1
            if n >= pad and thr - 2 <= pop <= thr + 1 and pop not in found: found[pop] = n
            if pop > thr + 1: break
        for pop, n in sorted(found.items())[:per_cfg]:
            yield L('tlsh', cfg, force, hx(d[:n])), 'tlsh.gate'
            if force == 'F': yield L('tlsh', cfg, 'T', hx(d[:n])), 'tlsh.gate'


def tweak(x, pos, val): return x[:pos] + bytes([val]) + x[pos + 1:]


def dist_lines(cfg, rng, n_rand):
    b, w, c = cfg
    rb, tx, few = gens(rng)
    n = dlen(b, c)
    x = rb(n)
    for _ in range(n_rand):
        y = rb(n)
        for lv in 'TF': yield L('tlsh.dist', cfg, hx(x), hx(y), 'all', lv), 'dist.random'
        yield L('tlsh.dist', cfg, hx(y), hx(y), 'all', 'T'), 'dist.equal'
        x = y
    # header wrap-arounds: Lvalue (nibble-swapped byte at offset c) and the two q nibbles at offset c+1, checksum, one 2-bit code
    for dl in (1, 2, 127, 128, 129, 254, 255):
        lv0 = rng.randrange(256); lv1 = (lv0 + dl) % 256
        y = tweak(tweak(x, c, R.swap(lv0)), c, R.swap(lv1)); x0 = tweak(x, c, R.swap(lv0))
        yield L('tlsh.dist', cfg, hx(x0), hx(y), 'all', 'T'), 'dist.lvalue-wrap'
    for dq in (1, 2, 7, 8, 9, 14, 15):
        q = x[c + 1]; q1 = ((q >> 4) + dq) % 16; q2 = ((q & 15) + dq) % 16
        yield L('tlsh.dist', cfg, hx(x), hx(tweak(x, c + 1, (q1 << 4) | (q & 15))), 'all', 'T'), 'dist.q-wrap'
        yield L('tlsh.dist', cfg, hx(x), hx(tweak(x, c + 1, (q & 0xf0) | q2)), 'all', 'F'), 'dist.q-wrap'
    yield L('tlsh.dist', cfg, hx(x), hx(tweak(x, 0, x[0] ^ 0x10)), 'all', 'T'), 'dist.checksum'
    yield L('tlsh.dist', cfg, hx(x), hx(tweak(x, c - 1, x[c - 1] ^ 1)), 'all', 'T'), 'dist.checksum'
    for pos in (c + 2, n - 1):
        for v in (0x00, 0x03, 0xc0, 0xff, 0x55): yield L('tlsh.dist', cfg, hx(tweak(x, pos, v)), hx(tweak(x, pos, v ^ 0xff)), 'all', 'T'), 'dist.code'
    for f in ('oo', 'ob', 'bo', 'bb'): yield L('tlsh.dist', cfg, hx(x), hx(rb(n)), f, 'T'), 'dist.single-form'


def malformed_dist(rng):
    rb, tx, few = gens(rng)
    lens = [0, 1, 13, 14, 15, 16, 17, 18, 34, 35, 36, 37, 38, 66, 67, 68, 69, 70, 100]
    for l1 in lens:
        for l2 in (15, 17, 35, 37, 67, 69, l1):
            yield 'tlsh.dist 128 5 1 %s %s bb T' % (hx(rb(l1)), hx(rb(l2))), 'dist.lengths'
    for l1 in (15, 17, 35, 37, 67, 69):
        b = {15: 48, 17: 48, 35: 128, 37: 128, 67: 256, 69: 256}[l1]; c = 1 if l1 in (15, 35, 67) else 3
        for l2 in (15, 17, 35, 37, 67, 69):
            yield L('tlsh.dist', (b, 5, c), hx(rb(l1)), hx(rb(l2)), 'all', 'T'), 'dist.cross-config'
    yield 'tlsh.dist 64 5 1 %s %s all T' % (hx(rb(35)), hx(rb(35))), 'dist.bad-config'
    yield 'tlsh.dist 128 5 2 %s %s all T' % (hx(rb(36)), hx(rb(36))), 'dist.bad-config'


def mk_buckets(rng, b, q1, q2, q3, tight=False, top=None):
    """256 bucket counts whose first b entries have the order statistics sorted[b/4-1], [b/2-1], [3b/4-1] exactly (q1,q2,q3) (q1<=q2<=q3): a
    quarter each drawn from [0,q1], [q1,q2], [q2,q3] (each containing its upper end at least once), a quarter >= q3; shuffled; the entries
    beyond b (ignored by 48/128-bucket configurations) arbitrary"""
    l = b // 4
    pick = (lambda lo, hi: hi) if tight else (lambda lo, hi: rng.randint(lo, hi))
    top = top if top is not None else q3 + 1 + rng.choice([0, 1, 3, q3, 1000])
    first = [q1] + [pick(0, q1) for _ in range(l - 1)] + [q2] + [pick(q1, q2) for _ in range(l - 1)] + [q3] + [pick(q2, q3) for _ in range(l - 1)] \
        + [rng.choice([q3, q3 + 1, rng.randint(q3, top)]) for _ in range(l)]
    rng.shuffle(first)
    srt = sorted(first)
    assert (srt[l - 1], srt[2 * l - 1], srt[3 * l - 1]) == (q1, q2, q3)
    return first + [rng.randint(0, top + 5) for _ in range(256 - b)]


def FL(cfg, force, bk, n, ck): return L('tlsh.final', cfg, force, il(bk), str(n), hx(ck))


def exact_qs(q3):
    """the q <= q3 whose quotient 100*q/q3 is an integer: where a differently rounded float evaluation can flip the floor"""
    from math import gcd
    m = q3 // gcd(q3, 100)
    return list(range(m, q3 + 1, m))


def near_boundary_q(rng, q3):
    """q <= q3 with 100*q/q3 exactly an integer, or just above / just below one"""
    k = rng.randint(1, 100)
    q = -(-k * q3 // 100)                      # least q with floor(100q/q3) >= k
    return max(0, min(q3, q - rng.choice([0, 0, 1]))) if rng.random() < .7 else rng.choice(exact_qs(q3))


def final_lines(tier, rng):
    quick = tier == 'quick'
    rb = lambda n: bytes(rng.getrandbits(8) for _ in range(n))
    cfg_ = lambda: rng.choice(CFGS)
    dl = lambda: rng.choice([256, 257, 300, 655, 656, 657, 3199, 3200, rng.randrange(256, 1 << 20)])
    def one(tag, q1, q2, q3, **kw):
        cfg = cfg_()
        return FL(cfg, rng.choice('FFT'), mk_buckets(rng, cfg[0], q1, q2, q3, **kw), dl(), rb(cfg[2])), tag
    # ---- every pair (q,q3) with an exact quotient, as q1 and as q2
    for q3 in range(1, 201 if quick else 1001):
        E = exact_qs(q3)
        for i, q in enumerate(E):
            yield one('final.exact-quotient.q1', q, rng.choice([rng.choice(E[i:]), rng.randint(q, q3)]), q3, tight=rng.random() < .5)
            yield one('final.exact-quotient.q2', rng.choice([rng.choice(E[:i + 1]), rng.randint(0, q)]), q, q3, tight=rng.random() < .5)
    # ---- a seeded subset of all triples q1 <= q2 <= q3 <= 160 (thorough enumerates them all through tlsh.qscan)
    for _ in range(300 if quick else 6000):
        q3 = rng.randint(1, 160); q2 = rng.randint(0, q3); q1 = rng.randint(0, q2)
        yield one('final.triple<=160', q1, q2, q3)
    # ---- large counts, quotients at / just beside an integer
    for _ in range(150 if quick else 3000):
        q3 = rng.choice([rng.randint(161, 4096), rng.randint(4096, 1 << 20), 1 << rng.randint(8, 20), 100 * rng.randint(2, 10000), rng.randint(1 << 20, 1 << 46)])
        q2 = near_boundary_q(rng, q3); q1 = near_boundary_q(rng, q2) if q2 and rng.random() < .5 else min(q2, near_boundary_q(rng, q3))
        yield one('final.large' if q3 <= 1 << 20 else 'final.large>2^20', q1, q2, q3, top=q3 + rng.choice([1, 1 << 20, 1 << 46]))
    # ---- gates: data_len at the minimum lengths, populated buckets around the threshold; arrays update() cannot leave behind
    for cfg in CFGS:
        b, w, c = cfg
        if quick and w not in (4, 8): continue
        bk = mk_buckets(rng, b, 3, 5, 9)
        for n in (0, 1, 49, 50, 51, 255, 256, 257):
            for f in 'FT': yield FL(cfg, f, bk, n, rb(c)), 'final.len-gate'
        thr = 18 if b == 48 else b // 2 + 1
        for pop in (thr - 2, thr - 1, thr, thr + 1, b):
            first = [rng.randint(1, 9) for _ in range(pop)] + [0] * (b - pop); rng.shuffle(first)
            yield FL(cfg, 'F', first + [rng.randint(0, 9) for _ in range(256 - b)], 300, rb(c)), 'final.population-gate'
        if w == 4:
            for m in (0, 3 * (b // 4) - 1, 3 * (b // 4), b - 1, b, 255, 257):
                if m == 256: continue
                yield FL(cfg, 'F', [rng.randint(1, 9) for _ in range(m)], 300, rb(c)), 'final.array-length'
                yield FL(cfg, 'F', [0] * m, 300, rb(c)), 'final.array-length'
            yield FL(cfg, 'F', bk, 300, rb(c + 1)), 'final.checksum-length'
            yield FL(cfg, 'F', bk, 300, b''), 'final.checksum-length'
    for cfg in ((64, 5, 1), (128, 3, 1), (128, 5, 2)): yield FL(cfg, 'F', mk_buckets(rng, 128, 3, 5, 9), 300, rb(1)), 'final.bad-config'
    # ---- dense: the Q byte for all pairs q <= q3 <= 200 (both nibbles), thorough all triples <= 160 and pairs <= 1000.  The ratios do not depend on
    #      the configuration; most lines use 48 buckets because the order statistic of Spec.Tlsh is quadratic in the bucket count (driver time)
    scfg = lambda: rng.choice([c for c in CFGS if c[0] == 48]) if rng.random() < .85 else cfg_()
    for q3 in range(0, 201 if quick else 1001): yield L('tlsh.qscan', scfg() if q3 <= 200 else rng.choice(CFGS[:10]), str(q3), 'd'), 'qscan.all-pairs-q<=q3<=%d' % (200 if quick else 1000)
    if not quick:
        for q3 in range(0, 161): yield L('tlsh.qscan', cfg_() if q3 < 40 else rng.choice(CFGS[:10]), str(q3), 't'), 'qscan.all-triples-q1<=q2<=q3<=160'
    else:
        for q3 in rng.sample(range(1, 40), 3) + rng.sample(range(40, 161), 3): yield L('tlsh.qscan', rng.choice(CFGS[:10]), str(q3), 't'), 'qscan.triples'
    yield 'tlsh.qscan 64 5 1 10 d', 'qscan.bad-config'
    # ---- the float expressions of the source on every pair q <= q3 < top, on this interpreter
    top, step = (1024, 128) if quick else (4096, 64)
    for lo in range(0, top, step): yield 'tlsh.qexact %d %d' % (max(lo, 1), lo + step), 'qexact.all-float-pairs-q<=q3<%d' % top


def calls_lines(tier, rng):
    """histories on ONE object: what a call leaves behind (data_len / checksum of an input that gave no digest, the buckets of a
    dangling update, the fields of a reloaded digest, the half-done state of a call that raised) must not show in the next call"""
    rb, tx, few = gens(rng)
    quick = tier == 'quick'
    def tl(cfg, steps): return 'tlsh.calls %s %s %s %s' % (cfg[0], cfg[1], cfg[2], ' '.join(calls_tok(*st) for st in steps))
    def patterns(cfg, w):
        b = 128 if cfg[0] == 'S' else cfg[0]
        c = 1 if cfg[0] == 'S' else cfg[2]
        good = lambda: rng.choice([rb, tx])(rng.randrange(300, 520))
        short = lambda: rng.choice([rb, tx])(rng.randrange(50, 256))          # >= 50, < 256: None unless forced
        tiny = lambda: rb(rng.randrange(1, 50))
        uniform = lambda: bytes([rng.getrandbits(8)]) * rng.randrange(256, 400)  # long enough, too few buckets populated: None
        def poison():
            d = list(good()); d[rng.choice([len(d) - 1, len(d) - 2, rng.randrange(w, len(d))])] = rng.choice([256, 300, 1 << 20]); return d
        G = good()
        yield 'after-none-short', [('c', False, short()), ('c', False, G)]
        yield 'after-none-uniform', [('c', False, uniform()), ('c', False, G)]
        yield 'after-none-tiny-forced', [('c', True, tiny()), ('c', True, short()), ('c', False, G)]
        yield 'after-forced', [('c', True, short()), ('c', False, G), ('c', False, short()), ('c', True, short())]
        yield 'after-raise', [('cl', False, poison()), ('c', False, G)]
        yield 'after-raise-early', [('cl', False, [999] + list(good())), ('c', False, G), ('cl', True, list(G)), ('c', False, G)]
        yield 'after-update', [('u', None, rb(77)), ('c', False, G)]
        yield 'after-update-raise', [('ul', None, poison()), ('c', False, G)]
        yield 'after-long-update', [('u', None, good()), ('u', None, good()), ('c', False, G), ('c', True, short())]
        yield 'after-from_hash', [('h', None, rb(dlen(b, c))), ('c', False, G)]
        yield 'after-from_hash-malformed', [('h', None, rb(dlen(b, c) + rng.choice([-1, 1, -5]))), ('c', False, G)]
        yield 'after-final', [('f', False, good()), ('c', False, G)]
        yield 'after-final-none', [('f', False, short()), ('c', False, G), ('f', True, short()), ('c', False, G)]
        yield 'none-then-raise-then-normal', [('c', False, G), ('c', False, short()), ('u', None, rb(77)), ('cl', False, poison()), ('c', False, G)]
        yield 'everything', [('c', False, short()), ('c', True, short()), ('cl', False, poison()), ('u', None, rb(90)), ('h', None, rb(dlen(b, c))),
                             ('c', False, G), ('f', False, good()), ('c', False, good())]
        for _ in range(2 if quick else 6):
            steps = []
            for _ in range(rng.randrange(2, 7)):
                k = rng.choice(['c', 'c', 'c', 'cl', 'u', 'ul', 'f', 'h'])
                if k == 'c': steps.append(('c', rng.random() < .4, rng.choice([good, short, tiny, uniform])()))
                elif k == 'cl': steps.append(('cl', rng.random() < .4, rng.choice([poison, lambda: list(short())])()))
                elif k == 'u': steps.append(('u', None, rng.choice([good, short, tiny])()))
                elif k == 'ul': steps.append(('ul', None, poison()))
                elif k == 'f': steps.append(('f', rng.random() < .4, rng.choice([good, short])()))
                else: steps.append(('h', None, rb(dlen(b, c) + rng.choice([0, 0, 1]))))
            steps.append(('c', False, good()))
            yield 'random', steps
    cfgs = [('S', 5, 1)] + (rng.sample(CFGS, 5) + [(128, 5, 1), (256, 6, 3), (48, 4, 1)] if quick else CFGS)
    for cfg in cfgs:
        w = cfg[1]
        for name, steps in patterns(cfg, w):
            yield tl(cfg, steps), 'calls.%s.%s' % ('singleton' if cfg[0] == 'S' else 'object', name)
    yield 'tlsh.calls 64 5 1 c:F:%s' % hx(tx(300)), 'calls.bad-config'
    # ---- Nilsimsa
    def nl(t, steps): return 'nilsimsa.calls %d %s' % (t, ' '.join(calls_tok(*st) for st in steps))
    for t in [53] + [rng.randrange(256) for _ in range(1 if quick else 5)]:
        msg = lambda: rng.choice([rb, tx])(rng.choice([rng.randrange(0, 12), rng.randrange(12, 300)]))
        def poison():
            d = list(rb(rng.randrange(8, 200))); d[rng.randrange(1, len(d) - 1)] = rng.choice([256, 1000]); return d
        G = rb(150)
        for name, steps in [('after-update', [('u', None, msg()), ('c', False, G)]),
                            ('after-raise', [('cl', False, poison()), ('c', False, G)]),
                            ('after-update-raise', [('ul', None, poison()), ('c', False, G), ('c', False, msg())]),
                            ('after-calls', [('c', False, msg()), ('c', False, b''), ('c', False, G), ('cl', False, list(G))]),
                            ('everything', [('c', False, msg()), ('u', None, msg()), ('cl', False, poison()), ('ul', None, poison()), ('c', False, G), ('u', None, rb(3)),
                                            ('u', None, msg()), ('c', False, G), ('c', False, rb(4))])]:
            yield nl(t, steps), 'calls.nilsimsa.' + name
        for _ in range(4 if quick else 20):
            steps, dirty = [], False         # (the window of an update that raised holds the value > 255: only a call, which resets, may follow)
            for _ in range(rng.randrange(1, 6)):
                st = rng.choice([('c', False, msg()), ('cl', False, poison())] + ([] if dirty else [('u', None, msg()), ('ul', None, poison())]))
                dirty = st[0] in ('cl', 'ul'); steps.append(st)
            yield nl(t, steps + [('c', False, msg())]), 'calls.nilsimsa.random'


def cases(tier, rng):
    rb, tx, few = gens(rng)
    quick = tier == 'quick'
    if tier == 'search':
        while True:
            cfg = rng.choice(CFGS)
            n = rng.choice([rng.randrange(40, 70), rng.randrange(240, 300), rng.randrange(50, 1500)])
            d = rng.choice([rb, tx, lambda n: few(rng.randrange(1, 9), n)])(n)
            f = rng.choice('TF')
            yield L('tlsh', cfg, f, hx(d)), 'search'
            yield L('tlsh.rt', cfg, f, hx(d)), 'search'
            m = bytearray(d)
            for _ in range(rng.randrange(1, 30)): m[rng.randrange(len(m))] = rng.getrandbits(8)
            yield L('tlsh.ddist', cfg, 'T', hx(d), hx(bytes(m)), rng.choice('TF')), 'search'
            yield from dist_lines(cfg, rng, 1)
            yield L('tlsh.fromhash', cfg, hx(rb(dlen(cfg[0], cfg[2]) + rng.choice([0, 0, 0, 1, -1])))), 'search'
            q3 = rng.choice([rng.randint(1, 200), rng.randint(1, 5000), rng.randint(1, 1 << 30)])
            q2 = near_boundary_q(rng, q3); q1 = min(q2, near_boundary_q(rng, q3))
            yield FL(cfg, f, mk_buckets(rng, cfg[0], q1, q2, q3), rng.randrange(256, 1 << 16), rb(cfg[2])), 'search'
            yield L('tlsh.qscan', cfg, str(rng.randint(1, 3000)), 'd'), 'search'
            t = rng.choice([53, rng.randrange(256)])
            yield 'nilsimsa %d %s' % (t, hx(rng.choice([rb, tx])(rng.choice([rng.randrange(0, 12), rng.randrange(0, 400)])))), 'search'
            a = rb(32); bb = bytearray(a)
            for _ in range(rng.randrange(0, 4)): bb[rng.randrange(32)] ^= 1 << rng.randrange(8)
            yield 'nilsimsa.dist %s %s' % (hx(a), hx(bytes(bb))), 'search'
            for ln, tg in calls_lines('quick', rng):
                if rng.randrange(8) == 0: yield ln, 'search'
        return

    # ---- TLSH: the whole configuration grid at the length boundaries, both force flags
    for cfg in CFGS:
        b, w, c = cfg
        for n in (0, 1, w - 1, w, 48, 49, 50, 51, 52, 254, 255, 256, 257, 258):
            d = tx(n) if rng.random() < .5 else rb(n)
            for f in 'FT': yield L('tlsh', cfg, f, hx(d)), 'tlsh.grid.len%s' % ('<50' if n < 50 else '<256' if n < 256 else '>=256')
        yield from gate_lines(cfg, rng, 4)
        if not quick: yield from gate_lines(cfg, rng, 4)
        # too uniform: one symbol, few symbols
        for n in ((300,) if quick else (256, 300, 1000)):
            yield L('tlsh', cfg, 'F', hx(bytes([rng.getrandbits(8)]) * n)), 'tlsh.uniform'
            for k in (2, 3, 4, 6): yield L('tlsh', cfg, 'F', hx(few(k, n))), 'tlsh.few-symbols'
        yield L('tlsh', cfg, 'T', hx(bytes(60))), 'tlsh.uniform'
    # ---- random data, round trips
    for _ in range(250 if quick else 4000):
        cfg = rng.choice(CFGS)
        n = rng.choice([rng.randrange(50, 300), rng.randrange(256, 1100), rng.randrange(1100, 3000 if quick else 6000)])
        d = rng.choice([rb, tx])(n)
        f = rng.choice('TF')
        yield L('tlsh', cfg, f, hx(d)), 'tlsh.random'
        if rng.random() < .5: yield L('tlsh.rt', cfg, f, hx(d)), 'tlsh.roundtrip'
    for cfg in CFGS:
        yield L('tlsh.rt', cfg, 'F', hx(tx(400))), 'tlsh.roundtrip'
    # ---- invalid configurations
    d = hx(tx(300))
    for cfg in ((64, 5, 1), (0, 5, 1), (512, 5, 1), (128, 3, 1), (128, 9, 1), (128, 0, 1), (128, 5, 2), (128, 5, 0), (128, 5, 4), (47, 4, 3)):
        yield L('tlsh', cfg, 'F', d), 'tlsh.bad-config'
    # ---- ONE object through a history of calls
    yield from calls_lines(tier, rng)
    # ---- finalisation on explicit state
    yield from final_lines(tier, rng)
    # ---- l_capturing, densely (data_len set on the object)
    top = 1 << 17 if quick else 1 << 20
    for lo in range(0, top, 4096): yield 'tlsh.lcaprange %d %d' % (max(lo, 1), lo + 4096), 'lcap.dense'
    for n in (0, 1, 2, 655, 656, 657, 658, 3198, 3199, 3200, 3201, 10 ** 6, 10 ** 9, 2 ** 32, 2 ** 40): yield 'tlsh.lcap %d' % n, 'lcap.single'
    for _ in range(20 if quick else 200):
        n = rng.choice([rng.randrange(1 << 20, 1 << 32), rng.randrange(10 ** 13, 3 * 10 ** 13)])      # the & 0xff wraps above ~1.5e13
        yield 'tlsh.lcap %d' % n, 'lcap.large'
        yield 'tlsh.lcaprange %d %d' % (n, n + 300), 'lcap.large'
    # ---- from_hash on arbitrary bytes
    for cfg in CFGS:
        b, w, c = cfg; n = dlen(b, c)
        for x in [rb(n) for _ in range(2 if quick else 12)] + [bytes(n), b'\xff' * n]:
            yield L('tlsh.fromhash', cfg, hx(x)), 'fromhash.ok'
        for m in (0, 1, c, c + 1, c + 2, n - 1, n + 1, 2 * n): yield L('tlsh.fromhash', cfg, hx(rb(m))), 'fromhash.bad-length'
    yield 'tlsh.fromhash 64 5 1 ' + hx(rb(18)), 'fromhash.bad-config'
    # ---- distances
    for cfg in CFGS:
        if quick and cfg[1] not in (4, 5): continue        # the window size plays no role in distance()
        yield from dist_lines(cfg, rng, 2 if quick else 10)
    yield from malformed_dist(rng)
    for _ in range(60 if quick else 1000):
        cfg = rng.choice(CFGS)
        n = rng.choice([rng.randrange(50, 300), rng.randrange(256, 1400)])
        d = rng.choice([rb, tx])(n)
        m = bytearray(d)
        for _ in range(rng.choice([0, 1, 3, 30, 200])): m[rng.randrange(n)] = rng.getrandbits(8)
        m = bytes(m) + (tx(rng.randrange(0, 200)) if rng.random() < .3 else b'')
        yield L('tlsh.ddist', cfg, rng.choice('TTF'), hx(d), hx(m), rng.choice('TF')), 'ddist'
    yield L('tlsh.ddist', (128, 5, 1), 'T', hx(tx(300)), hx(tx(40)), 'T'), 'ddist.none'
    yield L('tlsh.ddist', (128, 5, 5), 'T', hx(tx(300)), hx(tx(300)), 'T'), 'ddist.bad-config'

    # ---- Nilsimsa
    for t in list(range(256)) + [256, 309, 1000, 2 ** 40 + 53]: yield 'nilsimsa.tran %d' % t, 'nilsimsa.tran'
    targets = [53] + [rng.randrange(256) for _ in range(3 if quick else 12)]
    for t in targets:
        for n in list(range(0, 13)) + [34, 35, 36, 37, 66, 67, 68, 69, 99, 100, 101]:
            yield 'nilsimsa %d %s' % (t, hx(rb(n) if n % 2 else tx(n))), 'nilsimsa.short'
        yield 'nilsimsa %d %s' % (t, hx(bytes([7]) * 50)), 'nilsimsa.uniform'
        yield 'nilsimsa %d %s' % (t, hx(few(2, 300))), 'nilsimsa.uniform'
    # long inputs: counters beyond 2^8 and 2^16 (a single repeated byte puts every trigram of a window into few buckets),
    # TLSH data lengths beyond 2^16 likewise
    yield 'nilsimsa 53 %s' % hx(b'A' * 300), 'nilsimsa.long'
    yield 'nilsimsa 53 %s' % hx(b'A' * 66000), 'nilsimsa.long'
    yield 'nilsimsa 17 %s' % hx((b'ab' * 35000)[:69001]), 'nilsimsa.long'
    if not quick:
        yield 'nilsimsa 200 %s' % hx(bytes([0]) * 140000), 'nilsimsa.long'
        yield 'nilsimsa 53 %s' % hx(rb(100000)), 'nilsimsa.long'
    yield 'tlsh 128 5 1 F %s' % hx(tx(70000)), 'tlsh.long'
    for _ in range(150 if quick else 3000):
        t = rng.choice([53, 53, rng.randrange(256), rng.randrange(256)])
        n = rng.choice([rng.randrange(0, 40), rng.randrange(40, 600), rng.randrange(600, 4000)])
        yield 'nilsimsa %d %s' % (t, hx(rng.choice([rb, tx])(n))), 'nilsimsa.random'
    for _ in range(60 if quick else 600):
        a = rb(32); bb = bytearray(a)
        for _ in range(rng.choice([0, 1, 2, 5, 100])): bb[rng.randrange(32)] ^= 1 << rng.randrange(8)
        yield 'nilsimsa.dist %s %s' % (hx(a), hx(bytes(bb))), 'nilsimsa.dist'
        yield 'nilsimsa.dist %s %s' % (hx(bytes(bb)), hx(a)), 'nilsimsa.dist'
    for la, lb in ((0, 0), (1, 1), (5, 5), (32, 31), (32, 33), (0, 32), (64, 64)):
        yield 'nilsimsa.dist %s %s' % (hx(rb(la)), hx(rb(lb))), 'nilsimsa.dist.lengths'
    yield 'nilsimsa.dist %s %s' % (hx(bytes(32)), hx(b'\xff' * 32)), 'nilsimsa.dist'
    yield 'nilsimsa.dist %s %s' % (hx(b'\x80' + bytes(31)), hx(b'\x01' + bytes(31))), 'nilsimsa.dist'


def shrink(line):
    t = line.split()
    if t[0] in ('tlsh.calls', 'nilsimsa.calls'):
        h = 4 if t[0] == 'tlsh.calls' else 2
        head, steps = t[:h], t[h:]
        for i in range(len(steps)):
            if len(steps) > 1: yield ' '.join(head + steps[:i] + steps[i + 1:])
        for i, st in enumerate(steps):                    # halve the data of a step (bytes or int list)
            pre, _, d = st.rpartition(':')
            if d[:1] == 'x' and len(d) > 9:
                hlf = (len(d) - 1) // 4 * 2
                for d2 in ('x' + d[1 + hlf:], d[:1 + hlf]): yield ' '.join(head + steps[:i] + [pre + ':' + d2] + steps[i + 1:])
            elif d[:1] == 'l' and d.count(',') > 3:
                v = d[1:].split(',')
                for v2 in (v[len(v) // 2:], v[:len(v) // 2]): yield ' '.join(head + steps[:i] + [pre + ':l' + ','.join(v2)] + steps[i + 1:])
        return
    if t[0] == 'tlsh.final' and len(t) == 8:
        try:
            b, c = int(t[1]), int(t[3]); bk = unil(t[5])
            if b in (48, 128, 256) and len(bk) >= b:
                srt = sorted(bk[:b]); l = b // 4
                q1, q2, q3 = srt[l - 1], srt[2 * l - 1], srt[3 * l - 1]
                canon = [q1] * l + [q2] * l + [q3] * l + [q3 + 1] * l + [0] * (256 - b)      # same quartiles, plain layout
                for bk2 in (canon, [q1] * (2 * l) + [q3] * l + [q3 + 1] * l + [0] * (256 - b), [q2] * (2 * l) + [q3] * l + [q3 + 1] * l + [0] * (256 - b), bk[:b] + [0] * (256 - b)):
                    yield ' '.join(t[:4] + ['F', il(bk2), '256', hx(bytes(c))])
                    yield ' '.join(t[:5] + [il(bk2)] + t[6:])
                yield ' '.join(t[:6] + ['256', t[7]])
        except ValueError:
            pass
        return
    for i, tok in enumerate(t[1:], 1):
        if tok[0] == 'x' and len(tok) > 3:
            yield ' '.join(t[:i] + ['x' + tok[3:]] + t[i + 1:])
            yield ' '.join(t[:i] + [tok[:-2]] + t[i + 1:])
            if len(tok) > 40:
                h = (len(tok) - 1) // 4 * 2
                yield ' '.join(t[:i] + ['x' + tok[1 + h:]] + t[i + 1:])
                yield ' '.join(t[:i] + [tok[:1 + h]] + t[i + 1:])


LEVEL_TEXT = ('Lean 4 theorems about Model.Tlsh / Model.Nilsimsa (hand-written mirrors of crysp/tlsh.py and crysp/nilsimsa.py) for every configuration, '
              'input, force flag and digest pair, with l_capturing an uninterpreted parameter; the models are tied to the current source by the translator '
              '(Pearson table, probed triplet generator, probed body-scoring table, minimum lengths, Nilsimsa table) and by a boundary-directed correspondence '
              'stream that also evaluates independent positional references of both algorithms and the distance laws on the real code. A call on a '
              'USED object: in the object model Model.Objects.TlshO the result of __call__ and the state it leaves are those of the first call on a new '
              'object, from any state / after any history (tlsh_call_ignores_state, tlsh_call_ignores_history; Nilsimsa: nilsimsa_call_ignores_history), '
              'and equal the one-shot function Model.Tlsh.tlsh of the call\'s own arguments (tlsh_call_is_oneshot); '
              'the tlsh.calls / nilsimsa.calls lines drive ONE real object (and the module singleton) through histories and compare every call with '
              'the one-shot model, spec and reference digest of its own arguments.')
LEVEL_NOTE = ('Trusted: Lean kernel; axioms ⊆ {propext, Classical.choice, Quot.sound}; extract.py/runcheck.py/props/C19.py. There is NO executable reference '
              'implementation of TLSH or Nilsimsa in this image: Spec.Tlsh/Spec.Nilsimsa (and the Python references of the predicate) rest on the paper / '
              'nilsimsa.c text and are validated only against the known answers of /repo/tests/test_tlsh.py and test_nilsimsa.py (kept in corpus/C19.ops). '
              'libm log is not modelled in theorems (parameter lcap); float quartile ratios are modelled by integer division (exactness argument in '
              'lean/Model/Tlsh.lean; checked on the real interpreter densely over quartile pairs by the ops tlsh.final / tlsh.qscan / tlsh.qexact). Theorem list: evidence/C19.json coverage.theorems.')
TECHNIQUE = 'Lean 4 proof (induction over the byte stream / kernel enumeration of complete table domains) + correspondence check'
