"""C14 — hashing a message piecewise gives the same digest as hashing it at once.
Aggregated from parts (tools/props/parts/c14_*.py): the MD/SHA family here; BLAKE/BLAKE2 and Nilsimsa add their parts."""
from props.common import aggregate
from props.parts import c14_mdsha

ID = 'C14'
aggregate(globals(), [c14_mdsha])
RULE = ('op lines `hashseq <alg> | upd … | fin …`: every set of block-aligned cut points (empty and multi-block pieces included) of messages of 0..4 '
        'blocks plus a tail, longer messages sampled, refused sequences; distinct lines; non-trivial = the final step returned a digest')
LEVEL_TEXT = ('Lean 4 theorems, generic in the compression function, about the update/initstate skeleton shared by the MD/SHA classes (Model.HashObj over '
              'Model.Padding): block-aligned pieces followed by a final piece give the one-shot result on the concatenation and the bit counter after each piece '
              'is the number of bits fed; tied to the code by a correspondence stream enumerating all cut-point sets up to 4 blocks.')
LEVEL_NOTE = ('Trusted: Lean kernel; axioms ⊆ {propext, Classical.choice, Quot.sound}; runcheck.py/props. BLAKE/BLAKE2/Nilsimsa parts are owned by other builders. '
              'Theorem list with full/partial status: evidence/C14.json coverage.theorems.')
TECHNIQUE = 'Lean 4 proof (continuation property of the padding iterator + fold append) + correspondence check'
def nontrivial(line, impl): return not impl.split(';')[-1].startswith('ERR')
