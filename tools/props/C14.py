"""C14 — hashing a message piecewise gives the same digest as hashing it at once.
Aggregated from parts (tools/props/parts/c14_*.py): the MD/SHA family here; BLAKE/BLAKE2 and Nilsimsa add their parts."""
import importlib, os
from props.common import aggregate
_here = os.path.join(os.path.dirname(__file__), 'parts')
PARTS = [importlib.import_module('props.parts.' + n) for n in ('c14_mdsha', 'c14_blake', 'c14_nilsimsa')
         if os.path.exists(os.path.join(_here, n + '.py'))]

ID = 'C14'
aggregate(globals(), PARTS)
RULE = ' || '.join('[%s] %s' % (p.__name__.split('.')[-1], getattr(p, 'RULE', '')) for p in PARTS) + ' || ' + ('op lines `hashseq <alg> | upd … | fin …`: every set of block-aligned cut points (empty and multi-block pieces included) of messages of 0..4 '
        'blocks plus a tail, longer messages sampled, refused sequences; distinct lines; non-trivial = the final step returned a digest')
LEVEL_TEXT = ('Parts present: ' + ', '.join(p.__name__.split('.')[-1] for p in PARTS) + '. Lean 4 theorems, generic in the compression function, about the update/initstate skeleton shared by the MD/SHA classes (Model.HashObj over '
              'Model.Padding): block-aligned pieces followed by a final piece give the one-shot result on the concatenation and the bit counter after each piece '
              'is the number of bits fed; pieces given with their bit length (0 bits of a non-empty buffer, 8n bits of a longer one) count their first L bits (feed_bitlen, update_pieces_bitlen, blake_update_bitlen); initstate() forgets any earlier history and a one-shot call does not look at the object (call_forgets_history); BLAKE: initstate() with no keyword after a salted life is unsalted (blake_pieces_after_default_init); Nilsimsa: digest() leaves a new object, so an object reused for several messages gives the one-shot digest of each (digest_resets, reuse_eq_oneshot); several objects alive at once are values in a list, a step rewrites its own entry only (siblings_do_not_interfere, for every step function: the run projected on one object is the run of its own steps) — that the PYTHON objects share nothing is tested by the hashseqs / blakeseqs / nilsimsa.seqs lines; tied to the code by a correspondence stream enumerating all cut-point sets up to 4 blocks.')
LEVEL_NOTE = ('Trusted: Lean kernel; axioms ⊆ {propext, Classical.choice, Quot.sound}; runcheck.py/props. Parts: MD/SHA (Proofs.C14), BLAKE/BLAKE2 (Proofs.C14_Blake; BLAKE2 with an EMPTY final piece after data is a recorded known finding), Nilsimsa (Proofs.C14_Nilsimsa). '
              'Theorem list with full/partial status: evidence/C14.json coverage.theorems.')
TECHNIQUE = 'Lean 4 proof (continuation property of the padding iterator + fold append) + correspondence check'
def nontrivial(line, impl): return not impl.split(';')[-1].startswith('ERR')
