"""C04 — Keccak sponge, SHA-3 and SHAKE equal FIPS 202 for every input and configuration; duplex.

run_impl executes one op line on the real crysp.keccak / crysp.sha objects (a fresh object per line).
check_impl is the property's own predicate on the implementation's answer:
  * an independent compact Keccak reference written here on Python ints (LFSR round constants, rho offsets by the
    walk, lanes as ints; shares no code with crysp nor with the Lean files) for every width, rate, bit length, output
    length and both bit orders,
  * hashlib sha3_* / shake_* as a secondary oracle wherever a b=1600 case is a SHA-3 / SHAKE instance,
  * the published vectors of tests/test_keccak.py (KAT),
  * per-call rate (`k(M,bitlen,r=rc)`), `setrate` and the module-level objects keccak_224…512: the result must be the
    reference sponge at the rate in force for THAT call (absorbing, padding and squeezing), hashlib when that makes the
    call a SHA3/SHAKE instance (prefix of the digest), and the object's r,c afterwards must be what the constructor /
    setrate gave it,
  * the output length law (ceil(d/8) bytes, unused high bits zero) and the extra-block-not-failure law
    (in-domain input => a value; blocks: floor(L/r)+1 blocks of r bits = N || 1 0* 1),
  * `fips202.sha3 / fips202.shake / fips202.f`: a handful of short lines per run whose specification column is computed
    by the driver from the LITERAL bit-level transcription of FIPS 202 (lean/Spec/Fips202.lean through its evaluator,
    proved equal in Proofs.C04_Fips202) — slow by construction; compared here with hashlib / the reference permutation.
"""
import hashlib
from props.common import *

ID = 'C04'
LEAN_PROOFS = ['Proofs.C04', 'Proofs.C04.SpecKat', 'Proofs.C04_Fips202', 'Proofs.C04.Fips202Kat']
GEN_ITEMS = ['KeccakG']
RULE = ('op lines = (op, width b, rate r, bit-order mode, message, bit length L, output length d); rates incl. r<8 and r not a '
        'multiple of 8, L over {0,1,r-2,r-1,r,r+1,2r-2,2r-1,2r,2r+1,..} x L mod 8, d over {1,r,r+1,3r}; distinct lines; '
        'per-call rate lines (r=<rc>, setrate=<r1>, module-level objects): rc equal/smaller/larger than the object rate, odd, <8, 0, >=b, >1536, L on the block boundaries of both rates; '
        '`keccak.seq <cfg> | duplex … | call … | hash …` lines: ONE object (every SHA3(n), SHAKE-style Keccak objects with duplexing=True, plain Keccak objects of every width in both bit orders, the module-level '
        'objects) runs one or several duplex() calls (valid, refused, every kind of outlen) before and between one-shot calls; every one-shot call is compared with the reference sponge / hashlib of its own '
        'arguments in the bit order the object was configured with (ragged L, SHA-3 and SHAKE suffixes), every duplex() with the reference duplex threaded through the line; '
        'non-trivial = the implementation returned a value')
TRUSTED = ['Spec/Fips202.lean is a faithful transcription of the printed FIPS 202 (bit strings, the state array of bits A[x,y,z], Algorithms 1-11, '
           'sections 5.2 and 6, h2b/b2h; written to be compared with the standard line by line). The lane-level Spec/Keccak.lean the C04 theorems '
           'are stated against is NO LONGER trusted for SHA-3/SHAKE/the sponge/the permutations: Proofs.C04_Fips202 proves it equal to the '
           'transcription under the lane/bit correspondence (every lane size, state, round index, rate, message, output length) and re-states '
           'sponge_refines / sha3_refines / shake_refines against Spec.Fips202',
           'still read from Spec/Keccak.lean only: the duplex construction (CSF Algorithm 4, not part of FIPS 202) and the NIST-competition bit order '
           'of a final partial byte (msgBitsNIST, Keccak submission section 6.1); in the native LSB-first mode the message bits are h2b(M, L) of FIPS 202 B.1',
           'validated (supporting only) against hashlib sha3/shake, the vectors of tests/test_keccak.py, an independent Python '
           'reference for b < 1600, and kernel-evaluated known answers of both specifications (Proofs/C04/SpecKat.lean, Proofs/C04/Fips202Kat.lean)',
           'CPython int/bytes/BytesIO semantics are modelled (Model.Py), validated by this stream']
ASSUMPTIONS = ['python -O (asserts stripped) is out of scope', 'rate 0 makes Keccak.duplex/iterblocks loop forever in Python: outside the domain 0 < r',
               'a per-call rate 0 never returns (iterblocks yields empty blocks for ever): reported as HANG by a yield counter put on that one '
               'object, outside the domain; histories that mix duplex() with one-shot calls on one object are checked here (keccak.seq); '
               'arbitrary histories over the whole operation alphabet (setrate, …) belong to C10']
LINE_TIMEOUT = 120

WIDTHS = (25, 50, 100, 200, 400, 800, 1600)
SHA3_RATE = {224: 1152, 256: 1088, 384: 832, 512: 576}


# ---------------------------------------------------------------------------------------------
def run_impl(line):
    from crysp import keccak as K
    from crysp import sha as S
    from crysp.bits import Bits
    t = line.split()
    op, a = t[0], t[1:]
    def state(w, tok):
        st = K.State(w)
        st.lanes = [Bits(v, w) for v in unil(tok)]
        assert len(st.lanes) == 25
        return st
    def go():
        if op == 'keccak' and len(a) > 6:
            sr, rc = opts_of(a[6:])
            k = K.Keccak(b=int(a[0]), r=int(a[1]), len=int(a[5]))
            if a[2] == 'L': k.duplexing = True
            return rate_call(k, sr, rc, unhx(a[3]), unoi(a[4]))
        if op == 'keccak':
            k = K.Keccak(b=int(a[0]), r=int(a[1]), len=int(a[5]))
            if a[2] == 'L': k.duplexing = True
            return hx(k(unhx(a[3]), bitlen=unoi(a[4])))
        if op == 'keccak.single':
            sr, rc = opts_of(a[4:])
            if sr is not None: raise RuntimeError('keccak.single takes no setrate=')
            k = getattr(K, 'keccak_' + a[0])          # the shared module-level object itself
            saved = dict(vars(k))
            try:
                k.duplexing = (a[1] == 'L')
                return rate_call(k, None, rc, unhx(a[2]), unoi(a[3]))
            finally:                                  # later lines of this worker see the object as the module built it
                vars(k).clear(); vars(k).update(saved)
        if op == 'keccak.blocks':
            k = K.Keccak(b=1600, r=int(a[0]))
            if a[1] == 'L': k.duplexing = True
            return ';'.join(fb(x) for x in k.iterblocks(unhx(a[2]), unoi(a[3])))
        if op == 'keccak.f':
            w = int(a[0]); k = K.Keccak(b=25 * w, r=8)
            return il(l.ival for l in k.f(state(w, a[1])).lanes)
        if op == 'keccak.round':
            w = int(a[0])
            return il(l.ival for l in K.Round(state(w, a[2]), K.RC[int(a[1])][:w]).lanes)
        if op == 'keccak.loaddump':
            w = int(a[0]); st = K.State(w).load(mkbits(a[1]))
            return il(l.ival for l in st.lanes) + ';' + guarded(lambda: fb(st.dump(int(a[2]))))
        if op in ('sha3', 'fips202.sha3'): return hx(S.SHA3(int(a[0]))(unhx(a[1])))
        if op == 'fips202.f':
            w = int(a[0]); k = K.Keccak(b=25 * w, r=8)
            return il(l.ival for l in k.f(state(w, a[1])).lanes)
        if op in ('shake', 'fips202.shake'):
            f = {128: S.SHAKE128, 256: S.SHAKE256}[int(a[0])]
            return hx(f(unhx(a[1]), int(a[2])))
        if op == 'keccak.duplex':
            k = K.Keccak(b=int(a[0]), r=int(a[1]))
            out = []
            for st in steps_of(a[3:]):
                out.append(guarded(lambda: hx(k.duplex(unhx(st[0]), unoi(st[1]), unoi(st[2])))))
            return ';'.join(out)
        if op == 'keccak.seq': return run_seq(K, S, steps_of(a))
        raise RuntimeError('unknown op ' + op)
    return guarded(go)


def run_seq(K, S, parts):
    """keccak.seq <cfg> | step | …  — ONE object of the library through a history of duplex() and one-shot calls"""
    cfg, steps = parts[0], parts[1:]
    saved = None
    if cfg[0] == 'keccak':
        k = K.Keccak(b=int(cfg[1]), r=int(cfg[2]), len=int(cfg[4]))
        if cfg[3] == 'L': k.duplexing = True
    elif cfg[0] == 'sha3':
        k = S.SHA3(int(cfg[1]))
    elif cfg[0] == 'single':
        k = getattr(K, 'keccak_' + cfg[1])            # the shared module-level object itself
        saved = dict(vars(k))
        k.duplexing = (cfg[2] == 'L')
    else: raise RuntimeError('bad keccak.seq configuration %r' % cfg)
    out = []
    try:
        for st in steps:
            if st[0] == 'duplex':
                out.append(guarded(lambda: hx(k.duplex(unhx(st[1]), unoi(st[2]), unoi(st[3])))))
            elif st[0] == 'call':
                sr, rc = opts_of(st[3:])
                kw = {} if rc is None else {'r': rc}
                out.append(guarded(lambda: hx(K.Keccak.__call__(k, unhx(st[1]), bitlen=unoi(st[2]), **kw))))
            elif st[0] == 'hash':
                out.append(guarded(lambda: hx(k(unhx(st[1]))) if cfg[0] == 'sha3' else
                                   hx(k(unhx(st[1]) + b'\x02', bitlen=8 * len(unhx(st[1])) + 2))))
            else: raise RuntimeError('bad keccak.seq step %r' % st)
    finally:
        if saved is not None:                         # later lines of this worker see the object as the module built it
            vars(k).clear(); vars(k).update(saved)
    return ';'.join(out)


class _Hang(Exception): pass


def opts_of(toks):
    """trailing options of a sponge line: setrate=<n> (on the object, before the call) and r=<n> (per-call rate)"""
    sr = rc = None
    for t in toks:
        k, v = t.split('=')
        if k == 'setrate' and sr is None: sr = int(v)
        elif k == 'r' and rc is None: rc = int(v)
        else: raise RuntimeError('bad option ' + t)
    return sr, rc


def rate_call(k, sr, rc, M, L):
    """k.setrate(sr); k(M,bitlen=L,r=rc) -> '<result>|<k.r>,<k.c>' (attributes of the object AFTER the call, raised or not)"""
    attrs = lambda: '%d,%d' % (k.r, k.c)
    if sr is not None:
        if guarded(lambda: (k.setrate(sr), 'ok')[1]) == 'ERR': return 'ERR|' + attrs()
    kw = {} if rc is None else {'r': rc}
    if rc == 0 or k.r == 0:
        # rate 0 handed to iterblocks yields empty blocks for ever: count the yields of this one object
        orig, limit = k.iterblocks, 8 * len(M) + 64
        def counted(*args, **kargs):
            for i, x in enumerate(orig(*args, **kargs)):
                if i > limit: raise _Hang()
                yield x
        k.iterblocks = counted
        # any other way of never returning at rate 0 is cut short (the per-line alarm of runcheck, re-armed; SIGALRM
        # is only touched when runcheck's handler is installed)
        import signal
        if callable(signal.getsignal(signal.SIGALRM)): signal.alarm(4)
    def go():
        try: return hx(k(M, bitlen=L, **kw))
        except _Hang: return 'HANG'
    return guarded(go) + '|' + attrs()


def steps_of(toks):
    out, cur = [], []
    for x in toks:
        if x == '|': out.append(cur); cur = []
        else: cur.append(x)
    out.append(cur)
    return out


# ---------------------------------------------------------------------------------------------
# independent reference (compact, on Python ints)
def ref_f(S, w):
    """Keccak-f[25w] on the state as one int of 25w bits (bit w(5y+x)+z = A[x,y,z])"""
    mask = (1 << w) - 1
    A = [[(S >> (w * (5 * y + x))) & mask for y in range(5)] for x in range(5)]
    rol = lambda v, n: ((v << (n % w)) | (v >> (w - n % w))) & mask
    R = 1
    for rnd in range(12 + 2 * (w.bit_length() - 1)):
        C = [A[x][0] ^ A[x][1] ^ A[x][2] ^ A[x][3] ^ A[x][4] for x in range(5)]
        D = [C[(x + 4) % 5] ^ rol(C[(x + 1) % 5], 1) for x in range(5)]
        A = [[A[x][y] ^ D[x] for y in range(5)] for x in range(5)]
        x, y = 1, 0; cur = A[x][y]
        for t in range(24):
            x, y = y, (2 * x + 3 * y) % 5
            cur, A[x][y] = A[x][y], rol(cur, (t + 1) * (t + 2) // 2)
        for y in range(5):
            T = [A[x][y] for x in range(5)]
            for x in range(5): A[x][y] = T[x] ^ ((~T[(x + 1) % 5]) & T[(x + 2) % 5] & mask)
        for j in range(7):
            R = ((R << 1) ^ ((R >> 7) * 0x71)) % 256
            if (R & 2) and (1 << j) - 1 < w: A[0][0] ^= 1 << ((1 << j) - 1)
    return sum(A[x][y] << (w * (5 * y + x)) for x in range(5) for y in range(5))


def ref_bits(mode, M, L):
    """the L message bits as an int (bit 0 first)"""
    if mode == 'L': return int.from_bytes(M, 'little') & ((1 << L) - 1)
    q, k = divmod(L, 8)
    N = int.from_bytes(M[:q], 'little')
    if k: N |= (M[q] >> (8 - k)) << (8 * q)
    return N


def ref_padded(N, L, r):
    n = (L + 2 + r - 1) // r
    return N | (1 << L) | (1 << (n * r - 1)), n


def ref_sponge(b, r, N, L, d):
    w = b // 25
    P, n = ref_padded(N, L, r)
    S = 0
    for i in range(n):
        S = ref_f(S ^ ((P >> (i * r)) & ((1 << r) - 1)), w)
    Z, got = 0, 0
    while True:
        Z |= (S & ((1 << r) - 1)) << got; got += r
        if got >= d: break
        S = ref_f(S, w)
    Z &= (1 << d) - 1
    return Z.to_bytes((d + 7) // 8, 'little')


KAT = {}   # op line -> expected canonical result (vectors of /repo/tests/test_keccak.py), filled below


def in_domain(b, r): return b in WIDTHS and 0 < r < b and r <= 1536


def hashlib_oracle(r, M, N, L, d, out):
    """b=1600: when the message bits end in a SHA-3 / SHAKE suffix and r is the rate of an instance, every whole byte of
    the first min(d, n) output bits is the hashlib digest (the sponge output is prefix-consistent in d)"""
    if L >= 2 and L % 8 == 2 and (N >> (L - 2)) == 2:
        for n, rate in SHA3_RATE.items():
            k = min(d, n) // 8
            if rate == r and k and out[:k] != hashlib.new('sha3_%d' % n, M[:L // 8]).digest()[:k]:
                return 'differs from hashlib sha3_%d' % n
    if L >= 4 and L % 8 == 4 and (N >> (L - 4)) == 15 and d >= 8 and r in (1344, 1088):
        if out[:d // 8] != hashlib.new('shake_128' if r == 1344 else 'shake_256', M[:L // 8]).digest(d // 8):
            return 'differs from hashlib shake'
    return None


def check_rate_call(bad, res, b, r0, sr, rc, mode, M, L, d):
    """the predicate of `keccak … setrate= r=` and `keccak.single`: res = '<result>|<r>,<c>'"""
    if b not in WIDTHS or r0 > 1536: return None            # the constructor refuses: no object
    if '|' not in res: return bad('the constructor raised for b=%d r=%d' % (b, r0))
    out, attrs = res.split('|')
    robj = r0
    if sr is not None:
        if sr > 1536:
            if out != 'ERR': return bad('setrate(%d) must be refused' % sr)
        else: robj = sr
    if attrs != '%d,%d' % (robj, b - robj):
        return bad('the object holds r,c=%s after the call, expected %d,%d (a per-call rate must leave no trace)' % (attrs, robj, b - robj))
    if sr is not None and sr > 1536: return None
    re = robj if rc is None else rc                           # the rate in force for this call
    if not in_domain(b, re): return None
    if L is None: L = 8 * len(M)
    if L > 8 * len(M): return None if out == 'ERR' else bad('bit length beyond the data must be refused')
    if out in ('ERR', 'HANG'): return bad('in-domain call raised/hung (object rate %d, call rate %d, L=%d, L mod r=%d)' % (robj, re, L, L % re))
    out = unhx(out)
    if len(out) != (d + 7) // 8: return bad('output has %d bytes for d=%d' % (len(out), d))
    if d % 8 and out[-1] >> (d % 8): return bad('bits beyond d are set')
    N = ref_bits(mode, M, L)
    exp = ref_sponge(b, re, N, L, d)
    if out != exp: return bad('differs from the reference sponge at the rate of this call, %d (expected %s)' % (re, exp.hex()[:64]))
    if b == 1600:
        why = hashlib_oracle(re, M, N, L, d, out)
        if why: return bad(why)
    return None


def check_impl(line, res):
    t = line.split(); op, a = t[0], t[1:]
    bad = lambda why: '%s: %s' % (op, why)
    if line in KAT and res != KAT[line]: return bad('differs from the published vector')
    if op == 'keccak' and len(a) > 6:
        sr, rc = opts_of(a[6:])
        return check_rate_call(bad, res, int(a[0]), int(a[1]), sr, rc, a[2], unhx(a[3]), unoi(a[4]), int(a[5]))
    if op == 'keccak.single':
        n = int(a[0])
        if n not in SHA3_RATE: return None if res == 'ERR' else bad('there is no such module-level object')
        sr, rc = opts_of(a[4:])
        return check_rate_call(bad, res, 1600, 1600 - 2 * n, None, rc, a[1], unhx(a[2]), unoi(a[3]), n)
    if op == 'keccak':
        b, r, mode, M, L, d = int(a[0]), int(a[1]), a[2], unhx(a[3]), unoi(a[4]), int(a[5])
        if not in_domain(b, r): return None
        if L is None: L = 8 * len(M)
        if L > 8 * len(M): return None if res == 'ERR' else bad('bit length beyond the data must be refused')
        if res == 'ERR': return bad('in-domain input raised (r=%d, L=%d, L mod r=%d)' % (r, L, L % r))
        out = unhx(res)
        if len(out) != (d + 7) // 8: return bad('output has %d bytes for d=%d' % (len(out), d))
        if d % 8 and out[-1] >> (d % 8): return bad('bits beyond d are set')
        N = ref_bits(mode, M, L)
        exp = ref_sponge(b, r, N, L, d)
        if out != exp: return bad('differs from the reference sponge (expected %s)' % exp.hex()[:64])
        # secondary oracle: b=1600 and the message ends in a SHA-3 / SHAKE suffix
        if b == 1600:
            why = hashlib_oracle(r, M, N, L, d, out)
            if why: return bad(why)
        return None
    if op == 'keccak.blocks':
        r, mode, M, L = int(a[0]), a[1], unhx(a[2]), unoi(a[3])
        if L is None: L = 8 * len(M)
        if L > 8 * len(M): return None if res == 'ERR' else bad('bit length beyond the data must be refused')
        if res == 'ERR': return bad('in-domain input raised (r=%d, L=%d, L mod r=%d)' % (r, L, L % r))
        blks = [tuple(map(int, x.split(':'))) for x in res.split(';')]
        if any(s != r for s, _ in blks): return bad('a block is not r bits long')
        P, n = ref_padded(ref_bits(mode, M, L), L, r)
        if len(blks) != n: return bad('%d blocks, expected %d' % (len(blks), n))
        got = sum(v << (i * r) for i, (_, v) in enumerate(blks))
        if got != P: return bad('blocks are not N || pad10*1')
        return None
    if op in ('keccak.f', 'fips202.f'):
        w = int(a[0]); lanes = unil(a[1])
        S = sum(v << (w * i) for i, v in enumerate(lanes))
        T = ref_f(S, w)
        exp = il((T >> (w * i)) & ((1 << w) - 1) for i in range(25))
        return None if res == exp else bad('differs from the reference permutation')
    if op in ('sha3', 'fips202.sha3'):
        n = int(a[0]); M = unhx(a[1])
        if n not in SHA3_RATE: return None if res == 'ERR' else bad('unsupported size must be refused')
        return None if res == hx(hashlib.new('sha3_%d' % n, M).digest()) else bad('differs from hashlib')
    if op in ('shake', 'fips202.shake'):
        n, M, d = int(a[0]), unhx(a[1]), int(a[2])
        if res == 'ERR': return bad('raised')
        out = unhx(res)
        if len(out) != (d + 7) // 8: return bad('output has %d bytes for d=%d' % (len(out), d))
        h = bytearray(hashlib.new('shake_%d' % n, M).digest((d + 7) // 8))
        if d % 8: h[-1] &= (1 << (d % 8)) - 1
        return None if out == bytes(h) else bad('differs from hashlib')
    if op == 'keccak.seq': return check_seq(bad, steps_of(a), res)
    if op == 'keccak.duplex':
        b, r = int(a[0]), int(a[1])
        if not in_domain(b, r): return None
        w = b // 25
        S = 0
        outs = res.split(';')
        sts = steps_of(a[3:])
        if len(outs) != len(sts): return bad('wrong number of results')
        for st, o in zip(sts, outs):
            M, L, ol = unhx(st[0]), unoi(st[1]), unoi(st[2])
            if L is None: L = 8 * len(M)
            if ol is None: ol = r
            if ol > r: return None                      # outside the reference's domain from here on
            if L > 8 * len(M) or L + 2 > r:
                if o != 'ERR': return bad('input longer than r-2 bits (or than the data) must be refused')
                continue
            if o == 'ERR': return bad('in-domain duplexing call raised')
            P, n = ref_padded(ref_bits('L', M, L), L, r)
            S = ref_f(S ^ P, w)
            exp = (S & ((1 << ol) - 1)).to_bytes((ol + 7) // 8, 'little')
            if unhx(o) != exp: return bad('differs from the reference duplex')
        return None
    return None


def check_seq(bad, parts, res):
    """ONE object, a history: every one-shot call must return the reference sponge (hashlib for a SHA3 object / a SHA-3 or
    SHAKE suffix) of ITS OWN arguments in the bit order the object was configured with, whatever duplex() calls came
    before; the duplex() calls return the reference duplex outputs of the duplex steps of the line, whatever one-shot
    calls came in between"""
    cfg, steps = parts[0], parts[1:]
    if cfg[0] == 'keccak': b, r, mode, d = int(cfg[1]), int(cfg[2]), cfg[3], int(cfg[4])
    else:
        n = int(cfg[1])
        if n not in SHA3_RATE: return None if res == 'ERR' else bad('there is no such object')
        b, r, mode, d = 1600, 1600 - 2 * n, ('L' if cfg[0] == 'sha3' else cfg[2]), n
    if not in_domain(b, r) or d < 1: return None
    outs = res.split(';')
    if len(outs) != len(steps): return bad('%d results for %d steps' % (len(outs), len(steps)))
    w = b // 25
    S = 0                                     # the reference duplex state; None: no longer followed (an output longer than the rate was asked)
    seen = []
    for i, (st, o) in enumerate(zip(steps, outs)):
        hist = 'step #%d (%s) after [%s]' % (i, st[0], ','.join(seen))
        seen.append(st[0])
        if st[0] == 'duplex':
            M, L, ol = unhx(st[1]), unoi(st[2]), unoi(st[3])
            if L is None: L = 8 * len(M)
            if ol is None: ol = r
            if S is None: continue
            if ol > r: S = None; continue               # outside the reference duplex's domain: the one-shot calls are still checked
            if L > 8 * len(M) or L + 2 > r:
                if o != 'ERR': return bad(hist + ': input longer than r-2 bits (or than the data) must be refused')
                continue
            if o == 'ERR': return bad(hist + ': in-domain duplexing call raised')
            P, _ = ref_padded(ref_bits('L', M, L), L, r)
            S = ref_f(S ^ P, w)
            if unhx(o) != (S & ((1 << ol) - 1)).to_bytes((ol + 7) // 8, 'little'): return bad(hist + ': differs from the reference duplex')
            continue
        if st[0] == 'hash':
            M0 = unhx(st[1]); M, L, re = M0 + b'\x02', 8 * len(M0) + 2, r
            if cfg[0] == 'sha3' and o != hx(hashlib.new('sha3_%d' % d, M0).digest()):
                return bad(hist + ': SHA3-%d of this message differs from hashlib (got %s)' % (d, o[:33]))
        else:
            sr, rc = opts_of(st[3:])
            M, L = unhx(st[1]), unoi(st[2])
            re = r if rc is None else rc
            if not in_domain(b, re): continue
            if L is None: L = 8 * len(M)
        if L > 8 * len(M):
            if o != 'ERR': return bad(hist + ': bit length beyond the data must be refused')
            continue
        if o in ('ERR', 'HANG'): return bad(hist + ': in-domain call raised')
        out = unhx(o)
        if len(out) != (d + 7) // 8: return bad(hist + ': output has %d bytes for d=%d' % (len(out), d))
        N = ref_bits(mode, M, L)
        exp = ref_sponge(b, re, N, L, d)
        if out != exp:
            return bad(hist + ': differs from the reference sponge of this call\'s own arguments in the object\'s bit order %s (expected %s)' % (mode, exp.hex()[:32]))
        if b == 1600:
            why = hashlib_oracle(re, M, N, L, d, out)
            if why: return bad(hist + ': ' + why)
    return None


# ---------------------------------------------------------------------------------------------
def rbytes(rng, n): return bytes(rng.getrandbits(8) for _ in range(n))

def msg_for(rng, L, extra=0):
    """a message holding at least L bits; the last (partial) byte has all its bits random so both modes differ"""
    return rbytes(rng, (L + 7) // 8 + extra)

def lengths(r, upto=3):
    s = {0, 1, 2, 7, 8, 9}
    for k in range(1, upto + 1):
        s |= {k * r - 2, k * r - 1, k * r, k * r + 1}
    return sorted(x for x in s if x >= 0)

def sponge_line(b, r, mode, M, L, d): return 'keccak %d %d %s %s %s %d' % (b, r, mode, hx(M), oi(L), d)
def blocks_line(r, mode, M, L): return 'keccak.blocks %d %s %s %s' % (r, mode, hx(M), oi(L))

def rates_for(b, tier):
    s = {1, 2, 3, 5, 7, 8, 9, 12, 16, 17, b // 2, b // 2 + 1, b - 9, b - 8, b - 7, b - 1}
    if b == 1600: s |= {576, 832, 1024, 1088, 1152, 1344, 1027, 1536, 1535}
    if b == 200: s |= {40, 72, 136, 144}
    if tier != 'quick': s |= {4, 6, 10, 15, 23, 24, 25, 31, 32, 33, b // 3, 2 * b // 3}
    elif b not in (25, 200, 1600): s = {1, 7, 8, 9, 17, b // 2 + 1, b - 8, b - 1}
    return sorted(x for x in s if 0 < x < b and x <= 1536)

def state_tok(rng, w, kind, i=0):
    if kind == 'zero': l = [0] * 25
    elif kind == 'ones': l = [(1 << w) - 1] * 25
    elif kind == 'unit': l = [0] * 25; l[i % 25] = 1 << (i // 25 % w)
    else: l = [rng.getrandbits(w) for _ in range(25)]
    return il(l)


def blocks_cases(tier, rng):
    rates = [1, 2, 3, 4, 5, 6, 7, 8, 9, 10, 12, 15, 16, 17, 23, 24, 25, 31, 32, 33, 40, 63, 64, 65, 72, 100, 136, 576, 1027, 1088, 1344, 1535, 1536]
    if tier != 'quick': rates += [11, 13, 14, 20, 39, 41, 47, 48, 49, 127, 128, 129, 255, 256, 257, 832, 1024, 1152]
    for r in rates:
        Ls = set(lengths(r, 3 if r < 200 else 2))
        # every L mod 8 around the block boundaries
        for k in (1, 2):
            for dlt in range(-9, 3): Ls.add(max(k * r + dlt, 0))
        if tier != 'quick': Ls |= set(range(0, min(4 * r + 3, 80)))
        for L in sorted(Ls):
            for mode in 'NL':
                M = msg_for(rng, L)
                yield blocks_line(r, mode, M, L), 'blocks:L%%r=%s' % lclass(L, r)
                if L % 8 == 0: yield blocks_line(r, mode, M, None), 'blocks:bitlen=None'
                # trailing data beyond bitlen (the re-alignment must read the byte holding bit L)
                yield blocks_line(r, mode, M + rbytes(rng, 1 + L % 3), L), 'blocks:trailing-data'

def lclass(L, r):
    m = L % r
    if r > 3 and m == r - 1: return 'r-1'
    if r > 3 and m == r - 2: return 'r-2'
    if m in (0, 1): return str(m)
    return 'mid'


def sponge_cases(tier, rng):
    for b in WIDTHS:
        for r in rates_for(b, tier):
            ds = [1, r, r + 1, 3 * r]
            Ls = lengths(r, 2)
            if r <= 16: Ls = sorted(set(Ls) | set(range(0, 20)))
            if tier == 'quick' and r > 64: Ls = [L for L in Ls if L in (0, 1, 9, r - 2, r - 1, r, r + 1, 2 * r - 1, 2 * r)]
            k = 0
            for L in Ls:
                for mode in 'NL':
                    if tier == 'quick' and mode == 'L' and L % 8 == 0 and L not in (0, r): continue   # same bits in both modes
                    d = ds[k % 4]; k += 1
                    M = msg_for(rng, L, extra=k % 2)
                    yield sponge_line(b, r, mode, M, L, d), 'sponge:b%d:L%%r=%s:d=%s' % (b, lclass(L, r), ['1', 'r', 'r+1', '3r'][(k - 1) % 4])
            # every d on one mid-size message, and bitlen=None
            for d in ds + [8, 5 * r + 3]:
                M = rbytes(rng, (r + 9) // 8)
                yield sponge_line(b, r, 'N', M, None, d), 'sponge:b%d:bitlen=None' % b
            if tier != 'quick':
                for _ in range(8):
                    L = rng.randrange(0, 6 * r + 8)
                    yield sponge_line(b, r, rng.choice('NL'), msg_for(rng, L, rng.randrange(3)), L, rng.choice(ds + [rng.randrange(1, 4 * r)])), 'sponge:random'
    # b=1600 instances that are SHA-3 / SHAKE in disguise (hashlib secondary oracle inside check_impl)
    for n, r in SHA3_RATE.items():
        for nb in (0, 1, r // 8 - 1, r // 8, r // 8 + 1):
            M = rbytes(rng, nb)
            yield sponge_line(1600, r, 'L', M + bytes([0x02 | (rng.getrandbits(6) << 2)]), 8 * nb + 2, n), 'sponge:sha3-suffix'
            yield sponge_line(1600, r, 'N', M + bytes([0x80 | rng.getrandbits(6)]), 8 * nb + 2, n), 'sponge:sha3-suffix'
    for r in (1344, 1088):
        for nb in (0, r // 8 - 1, r // 8):
            M = rbytes(rng, nb)
            yield sponge_line(1600, r, 'L', M + bytes([0x0f | (rng.getrandbits(4) << 4)]), 8 * nb + 4, 2 * r + 8), 'sponge:shake-suffix'
            yield sponge_line(1600, r, 'N', M + bytes([0xf0 | rng.getrandbits(4)]), 8 * nb + 4, 264), 'sponge:shake-suffix'


def sha_cases(tier, rng):
    for n, r in SHA3_RATE.items():
        q = r // 8
        ls = {0, 1, 2, q - 2, q - 1, q, q + 1, 2 * q - 1, 2 * q, 2 * q + 1}
        if tier != 'quick': ls |= {3 * q - 1, 3 * q, 200, 3 * q + 1} | {rng.randrange(0, 4 * q) for _ in range(6)}
        for l in sorted(ls): yield 'sha3 %d %s' % (n, hx(rbytes(rng, l))), 'sha3-%d' % n
    for n, r in ((128, 1344), (256, 1088)):
        q = r // 8
        ls = [0, 1, q - 2, q - 1, q, q + 1, 2 * q - 1, 2 * q]
        ds = [8, 256, r, r + 8, 2 * r + 16, 5, r - 1, r + 1]
        if tier != 'quick': ls += [2 * q + 1, 3 * q, 3 * q - 1] + [rng.randrange(0, 4 * q) for _ in range(6)]; ds += [1, 7, 9, 3 * r, 4 * r + 8, 1000]
        for i, l in enumerate(ls):
            for j, d in enumerate(ds):
                if tier == 'quick' and (i + j) % 2: continue
                yield 'shake %d %s %d' % (n, hx(rbytes(rng, l)), d), 'shake%d' % n
    yield 'sha3 128 x616263', 'malformed'
    yield 'sha3 0 x', 'malformed'


def fips202_cases(tier, rng):
    """a handful of short lines answered from the literal bit-level transcription (about 1 s of driver time per
    KECCAK-p[1600,24] call): every SHA3 size, the one-block / two-block boundary, SHAKE with one and two squeezes, and
    KECCAK-f[25w] for every lane size"""
    quick = tier == 'quick'
    yield 'fips202.sha3 256 x', 'fips202:sha3'
    yield 'fips202.sha3 224 %s' % hx(rbytes(rng, 1)), 'fips202:sha3'
    yield 'fips202.sha3 384 x616263', 'fips202:sha3'
    yield 'fips202.sha3 512 %s' % hx(rbytes(rng, 71)), 'fips202:sha3'                # 72-byte rate: pad byte 0x86
    yield 'fips202.sha3 256 %s' % hx(rbytes(rng, rng.choice([135, 136]))), 'fips202:sha3'   # last byte of block one / a second block
    yield 'fips202.shake 128 %s 264' % hx(rbytes(rng, 3)), 'fips202:shake'
    yield 'fips202.shake 256 %s %d' % (hx(rbytes(rng, rng.randrange(0, 8))), rng.choice([5, 1088 + 3])), 'fips202:shake'
    for w in (1, 2, 4, 8, 16, 32, 64):
        if quick and w in (16, 32): continue
        yield 'fips202.f %d %s' % (w, state_tok(rng, w, 'rand')), 'fips202:f'
    if not quick:
        for n, r in SHA3_RATE.items():
            for l in (r // 8 - 1, r // 8, r // 8 + 1, rng.randrange(0, 3 * r // 8)):
                yield 'fips202.sha3 %d %s' % (n, hx(rbytes(rng, l))), 'fips202:sha3'
        for n, r in ((128, 1344), (256, 1088)):
            for l, d in ((0, 8), (r // 8 - 1, r), (r // 8, r + 1), (rng.randrange(0, 200), rng.randrange(1, 2 * r))):
                yield 'fips202.shake %d %s %d' % (n, hx(rbytes(rng, l)), d), 'fips202:shake'
        for w in (1, 8, 64):
            for kind in ('zero', 'ones'): yield 'fips202.f %d %s' % (w, state_tok(rng, w, kind)), 'fips202:f'
    yield 'fips202.sha3 128 x616263', 'malformed'


def perm_cases(tier, rng):
    nrand = 6 if tier == 'quick' else 40
    for b in WIDTHS:
        w = b // 25
        for i in range(24):
            yield 'keccak.round %d %d %s' % (w, i, state_tok(rng, w, 'zero')), 'round:zero'
            yield 'keccak.round %d %d %s' % (w, i, state_tok(rng, w, 'rand')), 'round:rand'
        for i in range(25 * min(w, 2 if tier == 'quick' else 64)):
            yield 'keccak.round %d 0 %s' % (w, state_tok(rng, w, 'unit', i)), 'round:unit'
        yield 'keccak.round %d 5 %s' % (w, state_tok(rng, w, 'ones')), 'round:ones'
        for kind in ('zero', 'ones'): yield 'keccak.f %d %s' % (w, state_tok(rng, w, kind)), 'f:' + kind
        for i in range(nrand): yield 'keccak.f %d %s' % (w, state_tok(rng, w, 'rand')), 'f:rand'
        for i in range(0, 25 * w, max(1, (25 * w) // (10 if tier == 'quick' else 60))):
            yield 'keccak.f %d %s' % (w, state_tok(rng, w, 'unit', (i % 25) + 25 * (i // 25))), 'f:unit'
        sizes = sorted({0, 1, w - 1, w, w + 1, 5 * w, 5 * w + 1, 24 * w + 1, 25 * w - 1, 25 * w, 25 * w + 1, 26 * w} - {-1})
        for s in sizes:
            for r in sizes:
                if tier == 'quick' and (s + r) % 3 == 1: continue
                yield 'keccak.loaddump %d %s %d' % (w, bt(s, rng.getrandbits(s) | (1 << (s - 1)) if s else 0), r), 'loaddump'


def duplex_cases(tier, rng):
    # the vector of tests/test_keccak.py (three successive calls on one object)
    yield KAT_DUPLEX, 'duplex:kat'
    cfgs = [(25, 8), (25, 24), (50, 3), (200, 40), (200, 165), (400, 144), (1600, 1027), (1600, 1088)]
    if tier != 'quick': cfgs += [(100, 9), (100, 64), (800, 512), (800, 777), (1600, 8), (1600, 1536), (50, 2)]
    for b, r in cfgs:
        nseq = 4 if tier == 'quick' else 16
        for s in range(nseq):
            steps = []
            for k in range(1 + (s % 4)):
                L = rng.choice([0, 1, max(r - 3, 0), max(r - 2, 0), max(r - 2, 0), r - 1, rng.randrange(0, r)])
                if r >= 2 and s % 4 != 3: L = min(L, r - 2) if rng.random() < 0.8 else L
                M = msg_for(rng, L, rng.randrange(2))
                ol = rng.choice([None, None, 1, r, max(r - 1, 1), 8, min(r, 9)])
                if ol is not None and ol > r: ol = r
                bl = None if (8 * len(M) == L and rng.random() < 0.5) else L
                steps.append('%s %s %s' % (hx(M), oi(bl), oi(ol)))
            yield 'keccak.duplex %d %d | %s' % (b, r, ' | '.join(steps)), 'duplex:b%d' % b
        # out-of-domain steps in the middle of a sequence: too long an input (refused, state kept), output beyond the rate
        M = msg_for(rng, r)
        yield 'keccak.duplex %d %d | x01 1 None | %s %d None | x00 1 None' % (b, r, hx(M), r - 1), 'duplex:refused-step'
        yield 'keccak.duplex %d %d | x01 1 None | x01 9 None | x00 1 None' % (b, r), 'duplex:refused-step'
        yield 'keccak.duplex %d %d | x01 1 %d | x00 1 None' % (b, r, b + 1), 'duplex:outlen>b'
        yield 'keccak.duplex %d %d | x01 1 %d | x00 1 None' % (b, r, min(r + 1, b)), 'duplex:outlen>r'


def seq_line(cfg, *steps): return 'keccak.seq %s | %s' % (cfg, ' | '.join(steps))
def dstep(M, L=None, ol=None): return 'duplex %s %s %s' % (hx(M), oi(L), oi(ol))
def cstep(M, L=None, rc=None): return 'call %s %s' % (hx(M), oi(L)) + ('' if rc is None else ' r=%d' % rc)

def seq_cases(tier, rng):
    """ONE object: duplex() calls (one, several, refused ones, with every kind of outlen) followed by / interleaved with
    one-shot calls — SHA3(n) instances, SHAKE-style objects (Keccak + duplexing=True), plain Keccak objects in both bit
    orders and every width, the module-level objects.  Bit lengths with L mod 8 != 0 (there the two bit orders differ)
    and the SHA-3 / SHAKE suffixes (hashlib inside check_impl)."""
    quick = tier == 'quick'
    def dsteps(r, k):
        out = []
        for _ in range(k):
            L = rng.choice([0, 1, max(r - 2, 0), rng.randrange(0, max(r - 1, 1))])
            L = min(L, max(r - 2, 0))
            out.append(dstep(msg_for(rng, L, rng.randrange(2)), L, rng.choice([None, None, 1, min(r, 8), r])))
        return out
    # SHA3 instances: one duplex / several / a refused duplex / duplex between two hashes
    for n, r in SHA3_RATE.items():
        q = r // 8
        for nb in ((0, 3, q - 1, q) if quick else (0, 1, 3, q - 2, q - 1, q, q + 1, 2 * q)):
            M = rbytes(rng, nb)
            yield seq_line('sha3 %d' % n, dsteps(r, 1)[0], 'hash ' + hx(M)), 'seq:sha3:duplex,hash'
            yield seq_line('sha3 %d' % n, 'hash ' + hx(M), *dsteps(r, 2), 'hash ' + hx(M), 'hash ' + hx(rbytes(rng, 5))), 'seq:sha3:hash,duplex*,hash'
        yield seq_line('sha3 %d' % n, dstep(rbytes(rng, q), 8 * q), 'hash ' + hx(rbytes(rng, 9))), 'seq:sha3:refused duplex,hash'
        yield seq_line('sha3 %d' % n, dstep(b'ab', 17), 'hash x', dstep(rbytes(rng, q - 1), 8 * q - 9), 'hash x61'), 'seq:sha3:refused duplex,hash'
        yield seq_line('sha3 %d' % n, dstep(b'\x01', 1, 1601), 'hash x', dstep(b'\x01', 1, r + 1), 'hash x61'), 'seq:sha3:duplex outlen>r,hash'
        M = rbytes(rng, 7)
        yield seq_line('sha3 %d' % n, *dsteps(r, 3), cstep(M + b'\x02', 58), cstep(M + b'\x0f', 60, 1344), 'hash ' + hx(M)), 'seq:sha3:duplex*,call'
    # SHAKE-style objects (what SHAKE128/256 build) and the other b=1600 splits in the native order, SHA-3/SHAKE suffixes
    for r, d in ((1344, 264), (1088, 512), (1344, 3000 if not quick else 1400), (576, 512), (1027, 64)):
        for nb in (0, r // 8 - 1, r // 8):
            M = rbytes(rng, nb)
            yield seq_line('keccak 1600 %d L %d' % (r, d), *dsteps(r, 1 + nb % 2), cstep(M + bytes([0x0f | (rng.getrandbits(4) << 4)]), 8 * nb + 4)), 'seq:shake-style:duplex,call'
            yield seq_line('keccak 1600 %d L %d' % (r, d), cstep(M + b'\x1f', 8 * nb + 4), *dsteps(r, 2),
                           cstep(M + b'\x1f', 8 * nb + 4), cstep(M + bytes([0x02 | (rng.getrandbits(6) << 2)]), 8 * nb + 2, rng.choice(list(SHA3_RATE.values())))), 'seq:shake-style:call,duplex*,call'
    # plain Keccak objects, both bit orders, every width; ragged bit lengths
    cfgs = [(25, 8), (50, 3), (200, 40), (200, 165), (400, 144), (800, 512), (1600, 1088), (1600, 1027)]
    if not quick: cfgs += [(25, 24), (100, 9), (100, 64), (800, 777), (1600, 8), (1600, 1536), (1600, 576)]
    for b, r in cfgs:
        for mode in 'NL':
            for k in range(3 if quick else 10):
                d = rng.choice([1, 8, r, r + 1, 2 * r + 3])
                L1 = rng.choice([1, 3, 7, 9, r - 1, r + 5, 2 * r + 1]); L2 = rng.randrange(0, 3 * r + 9)
                M1, M2 = msg_for(rng, L1, 1), msg_for(rng, L2, rng.randrange(2))
                cfg = 'keccak %d %d %s %d' % (b, r, mode, d)
                if k % 3 == 0: yield seq_line(cfg, *dsteps(r, 1), cstep(M1, L1)), 'seq:b%d:%s:duplex,call' % (b, mode)
                elif k % 3 == 1: yield seq_line(cfg, cstep(M1, L1), *dsteps(r, 1 + k % 2), cstep(M1, L1), cstep(M2, L2), *dsteps(r, 1), cstep(M2, L2)), 'seq:b%d:%s:interleaved' % (b, mode)
                else:
                    rc = rng.choice([1, 7, max(r // 2, 1), min(r + 8, b - 1, 1536)])
                    yield seq_line(cfg, *dsteps(r, 2), cstep(M1, L1, rc), dstep(msg_for(rng, r), r - 1), cstep(M2, L2), cstep(M1, 8 * len(M1) + 1)), 'seq:b%d:%s:duplex,refused duplex,call r=' % (b, mode)
    # the module-level objects: a duplex() on the shared object, then calls in both orders
    for n, r in SHA3_RATE.items():
        for mode in 'NL':
            M = rbytes(rng, rng.randrange(0, 40))
            yield seq_line('single %d %s' % (n, mode), *dsteps(r, 1 + n % 2), cstep(M + bytes([0x02 | (rng.getrandbits(6) << 2)]), 8 * len(M) + 2), cstep(M + b'\xff', 8 * len(M) + 3)), 'seq:single:%s' % mode
    yield seq_line('sha3 128', dstep(b'', 0), 'hash x'), 'malformed'
    yield seq_line('keccak 1600 1600 N 8', dstep(b'', 0), cstep(b'', 0)), 'malformed'


def rate_line(b, r0, mode, M, L, d, sr=None, rc=None):
    return sponge_line(b, r0, mode, M, L, d) + ('' if sr is None else ' setrate=%d' % sr) + ('' if rc is None else ' r=%d' % rc)

def single_line(n, mode, M, L, rc=None):
    return 'keccak.single %d %s %s %s' % (n, mode, hx(M), oi(L)) + ('' if rc is None else ' r=%d' % rc)

def rc_class(b, r0, rc):
    if rc is None: return 'none'
    if rc == 0 or rc >= b or rc > 1536: return 'invalid'
    return ('=' if rc == r0 else '<' if rc < r0 else '>') + ('' if rc % 8 == 0 else ':odd')

def rate_cases(tier, rng):
    """per-call rate r=, setrate() and the module-level objects: the rate of THIS call must be the rate of absorbing,
    padding and squeezing alike.  Lengths sit on the block boundaries of BOTH the per-call and the object rate, d runs
    over one and several squeezes."""
    quick = tier == 'quick'
    cfgs = [(1600, 576), (1600, 1088), (200, 40), (25, 8), (100, 36), (800, 512)]
    if not quick: cfgs += [(1600, 1344), (1600, 1027), (1600, 1536), (50, 3), (400, 144), (200, 165), (200, 0), (200, 300)]
    for b, r0 in cfgs:
        top = min(b - 1, 1536)
        rcs = {r0, r0 // 2, r0 // 2 + 1, r0 - 8, r0 - 1, r0 + 1, r0 + 8, 1, 3, 7, 8, 13, top, top - 7, (r0 + top) // 2}
        if b == 1600: rcs |= {576, 832, 1088, 1152, 1344, 1027}
        if b == 200: rcs |= {40, 72, 136}
        if quick and b not in (1600, 200): rcs = {r0, r0 // 2 + 1, r0 - 1, r0 + 8, 3, 13, top}
        if quick and (b, r0) == (1600, 1088): rcs = {r0, r0 // 2 + 1, r0 - 1, r0 + 8, 3, 13, top, 576, 1344}
        valid = sorted(x for x in rcs if 0 < x <= top)
        invalid = sorted({0, b, b + 1, 1536 if b < 1536 else 1599, 1537, 1600})
        for rc in valid:
            Ls = {0, 1, 9, rc - 2, rc - 1, rc, rc + 1, 2 * rc - 1, 2 * rc, 2 * rc + 1}
            if r0 <= 6 * rc: Ls |= {r0 - 2, r0 - 1, r0, r0 + 1}
            if r0 <= 3 * rc: Ls |= {2 * r0 - 1, 2 * r0}
            Ls = sorted(x for x in Ls if x >= 0)
            if quick and len(Ls) > 7: Ls = [0] + rng.sample(Ls[1:], 6)
            ds = [1, rc, rc + 1, 3 * rc, min(2 * r0 + 8, 6 * rc) or 8, 8 * ((rc + 15) // 8)]
            for k, L in enumerate(Ls):
                mode = 'NL'[k % 2]
                d = ds[(k + rc) % len(ds)]
                M = msg_for(rng, L, extra=k % 2)
                yield rate_line(b, r0, mode, M, L, d, rc=rc), 'rate:b%d:rc%s:L%%rc=%s' % (b, rc_class(b, r0, rc), lclass(L, rc))
            M = rbytes(rng, (rc + 9) // 8)
            yield rate_line(b, r0, 'N', M, None, ds[rc % len(ds)], rc=rc), 'rate:b%d:rc%s:bitlen=None' % (b, rc_class(b, r0, rc))
            yield rate_line(b, r0, 'L', M, 8 * len(M) + 1, 8, rc=rc), 'rate:bitlen-too-large'
        for rc in invalid:
            for M in (b'', rbytes(rng, 3)):
                yield rate_line(b, r0, 'N', M, None, 16, rc=rc), 'rate:b%d:rc-invalid' % b
            yield rate_line(b, r0, 'L', rbytes(rng, 2), 9, 16, rc=rc), 'rate:b%d:rc-invalid' % b
            yield rate_line(b, r0, 'N', b'ab', 17, 16, rc=rc), 'rate:b%d:rc-invalid' % b
        # setrate(): the new rate is the rate of every later call; a refused setrate leaves the object alone;
        # setrate followed by a per-call rate: the call uses the per-call rate, the object keeps the setrate one
        for sr in sorted({r0, r0 // 2 + 1, min(r0 + 8, top), 13 if b > 13 else 3, top, 0, b, 1536, 1537}):
            for rc in (None, r0, max(r0 // 2, 1), 13 if b > 13 else 5):
                if quick and rc not in (None, r0) and sr not in (r0 // 2 + 1, top, 1537): continue
                re = sr if rc is None else rc
                L = rng.choice([0, 1, max(re - 1, 0), re, re + 1, 2 * re + 3, max(r0 - 1, 0)])
                M = msg_for(rng, L, rng.randrange(2))
                yield rate_line(b, r0, rng.choice('NL'), M, L, rng.choice([8, re + 1, 2 * re + 8]), sr=sr, rc=rc), 'setrate:b%d' % b
    # SHA-3 / SHAKE in disguise through the per-call rate (hashlib inside check_impl): an object with another split
    # (the SHA3-512 one, the SHAKE128 one, an odd one) called with the rate of the instance
    for r0 in (576, 1344, 1027):
        for n, r in SHA3_RATE.items():
            if r == r0: continue
            for nb in (0, 1, r // 8 - 1, r // 8, r0 // 8, 200):
                if quick and nb in (1, r0 // 8) and r0 != 576: continue
                M = rbytes(rng, nb)
                yield rate_line(1600, r0, 'L', M + bytes([0x02 | (rng.getrandbits(6) << 2)]), 8 * nb + 2, rng.choice([n, n, 512, 8 * 300]), rc=r), 'rate:sha3-suffix'
                yield rate_line(1600, r0, 'N', M + bytes([0x80 | rng.getrandbits(6)]), 8 * nb + 2, n, rc=r), 'rate:sha3-suffix'
        for r in (1344, 1088):
            if r == r0: continue
            for nb in (0, r // 8 - 1, r // 8, r0 // 8, 300):
                M = rbytes(rng, nb)
                yield rate_line(1600, r0, 'L', M + bytes([0x0f | (rng.getrandbits(4) << 4)]), 8 * nb + 4, rng.choice([264, 2 * r + 8, 8 * 400]), rc=r), 'rate:shake-suffix'
    # the module-level objects keccak_224 … keccak_512 (shared by every caller) with and without a per-call rate
    for n, r0 in SHA3_RATE.items():
        rcs = [None, r0, 1088 if r0 != 1088 else 576, 1344, 13, 1535, 0, 1537, 1600]
        if not quick: rcs += [1, 7, 8, 1027, 1536, 832 if r0 != 832 else 1152, r0 - 1, r0 + 1]
        for rc in rcs:
            re = r0 if rc is None else rc
            lens = [0, max(re - 2, 0), re - 1 if re else 1, re + 1, r0] if (rc is None or 0 < rc <= 1536) else [0, 8]
            if quick and len(lens) > 3: lens = [lens[0]] + rng.sample(lens[1:], 2)
            for k, L in enumerate(lens):
                M = msg_for(rng, L, k % 2)
                yield single_line(n, 'NL'[k % 2], M, L, rc), 'single:%d:rc%s' % (n, rc_class(1600, r0, rc))
            yield single_line(n, 'N', rbytes(rng, 5), None, rc), 'single:%d:bitlen=None' % n
            if rc is None or 8 <= rc <= 1536:
                for nb in (0, re // 8 - 1, re // 8):
                    M = rbytes(rng, nb)
                    yield single_line(n, 'L', M + bytes([0x02 | (rng.getrandbits(6) << 2)]), 8 * nb + 2, rc), 'single:sha3-suffix'
                    if not quick: yield single_line(n, 'L', M + bytes([0x0f | (rng.getrandbits(4) << 4)]), 8 * nb + 4, rc), 'single:shake-suffix'
        yield single_line(n, 'N', b'ab', 17, None), 'single:bitlen-too-large'
        yield single_line(n, 'N', b'ab', 17, 1088), 'single:bitlen-too-large'
    yield single_line(128, 'N', b'abc', None, None), 'malformed'


def malformed_cases(tier, rng):
    yield sponge_line(1600, 1088, 'N', b'abc', 25, 256), 'malformed'
    yield sponge_line(1600, 1088, 'L', b'', 1, 256), 'malformed'
    yield sponge_line(1600, 0, 'N', b'abc', None, 256), 'malformed'
    yield sponge_line(1600, 1537, 'N', b'abc', None, 256), 'malformed'
    yield sponge_line(1600, 1600, 'N', b'abc', None, 256), 'malformed'
    yield sponge_line(200, 200, 'N', b'abc', None, 16), 'malformed'
    yield sponge_line(200, 201, 'N', b'abc', None, 16), 'malformed'
    yield sponge_line(300, 100, 'N', b'abc', None, 16), 'malformed'
    yield sponge_line(24, 8, 'N', b'abc', None, 16), 'malformed'
    yield sponge_line(200, 40, 'N', b'abc', None, 0), 'malformed'
    yield blocks_line(8, 'N', b'ab', 17), 'malformed'
    yield blocks_line(8, 'L', b'', 1), 'malformed'


def cases(tier, rng):
    if tier == 'search':
        while True:
            b = rng.choice(WIDTHS)
            r = rng.choice([rng.randrange(1, min(b, 1537)), rng.randrange(1, min(b, 20)), max(1, min(b - 1, 1536) - rng.randrange(0, 9))])
            L = rng.choice([rng.randrange(0, 3 * r + 9), max(0, rng.randrange(1, 4) * r - rng.randrange(0, 3))])
            mode = rng.choice('NL')
            M = msg_for(rng, L, rng.randrange(3))
            yield blocks_line(r, mode, M, L), 'search'
            yield sponge_line(b, r, mode, M, L, rng.choice([1, r, r + 1, 2 * r + 3, rng.randrange(1, 3 * r + 2)])), 'search'
            rc = rng.choice([rng.randrange(1, min(b, 1537)), rng.randrange(1, min(b, 20)), r + rng.choice([-8, -1, 1, 8])])
            if 0 < rc < b and rc <= 1536:
                L2 = rng.choice([L, max(0, rng.randrange(1, 4) * rc - rng.randrange(0, 3))])
                yield rate_line(b, r, mode, msg_for(rng, L2, 1), L2, rng.choice([1, rc, rc + 1, 2 * rc + 3]), rc=rc), 'search'
                yield rate_line(b, r, mode, msg_for(rng, L2, 1), L2, rng.choice([1, rc, rc + 1, 2 * rc + 3]), sr=rc), 'search'
                if b == 1600: yield single_line(rng.choice(list(SHA3_RATE)), mode, msg_for(rng, L2, 1), L2, rc), 'search'
            if r >= 3:
                hist = [dstep(msg_for(rng, Ld), Ld, rng.choice([None, 1, r])) for Ld in [rng.randrange(0, r - 1) for _ in range(rng.randrange(1, 4))]]
                d_ = rng.choice([1, r, r + 1, 2 * r + 3])
                yield seq_line('keccak %d %d %s %d' % (b, r, mode, d_), *hist, cstep(M, L)), 'search'
                n_ = rng.choice(list(SHA3_RATE)); Ld = rng.randrange(0, 500)
                yield seq_line('sha3 %d' % n_, dstep(msg_for(rng, Ld), Ld), 'hash ' + hx(rbytes(rng, rng.randrange(0, 300)))), 'search'
            w = b // 25
            yield 'keccak.f %d %s' % (w, state_tok(rng, w, 'rand')), 'search'
            yield 'keccak.round %d %d %s' % (w, rng.randrange(24), state_tok(rng, w, 'rand')), 'search'
            l = rng.randrange(0, 300)
            yield 'sha3 %d %s' % (rng.choice(list(SHA3_RATE)), hx(rbytes(rng, l))), 'search'
            yield 'shake %d %s %d' % (rng.choice([128, 256]), hx(rbytes(rng, l)), rng.randrange(1, 3000)), 'search'
        return
    for l in KAT: yield l, 'kat'
    yield from malformed_cases(tier, rng)
    yield from blocks_cases(tier, rng)
    yield from perm_cases(tier, rng)
    yield from sha_cases(tier, rng)
    yield from duplex_cases(tier, rng)
    yield from rate_cases(tier, rng)
    yield from sponge_cases(tier, rng)
    yield from seq_cases(tier, rng)
    yield from fips202_cases(tier, rng)          # last: the earlier streams keep their lines for a given seed


def shrink(line):
    t = line.split()
    if t[0] == 'keccak.seq':
        parts = steps_of(t[1:])
        cfg, steps = parts[0], parts[1:]
        for i in range(len(steps) - 1):                 # fewer steps, the last one kept
            if len(steps) > 2: yield seq_line(' '.join(cfg), *[' '.join(x) for j, x in enumerate(steps) if j != i])
        for i, st in enumerate(steps):                  # an empty duplex input
            if st[0] == 'duplex' and st[1:] != ['x', '0', 'None']:
                yield seq_line(' '.join(cfg), *[' '.join(x if j != i else ['duplex', 'x', '0', 'None']) for j, x in enumerate(steps)])
        return
    if t[0] in ('sha3', 'shake'):
        tok = t[2]
        if len(tok) > 3:
            yield ' '.join(t[:2] + ['x' + tok[3:]] + t[3:])
            yield ' '.join(t[:2] + [tok[:-2]] + t[3:])
    if t[0] == 'keccak' and t[5] != 'None':
        # drop whole bytes from the front while keeping bitlen consistent
        M = unhx(t[4]); L = int(t[5])
        if L >= 8 and len(M) > 1:
            yield ' '.join(t[:4] + [hx(M[1:]), str(L - 8)] + t[6:])


# ---------------------------------------------------------------------------------------------
# published vectors (tests/test_keccak.py of the library; KeccakReferenceAndOptimized intermediate values)
def _kat():
    import os, re, sys
    repo = os.environ.get('VERIF_REPO', '/repo')
    try:
        src = open(os.path.join(repo, 'tests', 'test_keccak.py')).read()
    except OSError:
        return
    hexes = re.findall(r'decode\(b?"([0-9A-Fa-f]+)",\'hex\'\)', src)
    H = {len(h): h for h in hexes}
    def out(n): return [h for h in hexes if len(h) == n]
    big = [h for h in hexes if len(h) == 1024]          # the four 4096-bit outputs in file order: 002,003,004,005
    m2 = [h for h in hexes if len(h) == 502]
    if len(big) == 4 and m2:
        KAT[sponge_line(1600, 1024, 'N', b'\xc0', 2, 4096)] = 'x' + big[0].lower()
        KAT[sponge_line(1600, 1024, 'N', b'\x53\x58\x7b\xc8', 29, 4096)] = 'x' + big[1].lower()
        KAT[sponge_line(1600, 1024, 'N', bytes.fromhex(m2[0]), 2008, 4096)] = 'x' + big[2].lower()
        KAT[sponge_line(1600, 1344, 'N', b'', 0, 4096)] = 'x' + big[3].lower()
    KAT[sponge_line(800, 512, 'N', b'\x48', 5, 512)] = 'xbf4d7e53d63d9feb016fcd2fe2f38deb3a1435fe40c226c495c28820f82be568b7abc7ff750571b23e714b66bd1dfa4b0d0e23856d40875c6e5be50831f6bb35'
    KAT[sponge_line(200, 40, 'N', bytes.fromhex('F219BD629820'), 43, 160)] = 'xc8f9476dbf0b0fe01f80629fd5689097aaac6732'
    m2111 = [h for h in hexes if len(h) == 528]
    if m2111:
        KAT[sponge_line(1600, 576, 'N', bytes.fromhex(m2111[0]), 2111, 512)] = 'x4a1b83f269251d71e1b4d65533795992cbe4f2501ae84901f41e9325492f962fa95d49d8676b017fc7c3711775ecdeea8b22e0d7dda67bc926b83d9dc425ce30'
    d = [h for h in re.findall(r'decode\("([0-9A-Fa-f]+)",\'hex\'\)', src) if len(h) == 258]
    if len(d) == 3:
        KAT[KAT_DUPLEX] = ';'.join('x' + h.lower() for h in d)

KAT_DUPLEX = 'keccak.duplex 1600 1027 | x 0 None | x00 1 None | x03 2 None'
_kat()

LEVEL_TEXT = ('Lean 4 theorems about Model.Keccak / Model.Sha3 (hand-written mirrors of crysp/keccak.py and the SHA3/SHAKE wrappers of '
              'crysp/sha.py) against Spec.Keccak (FIPS 202 / Keccak reference at lane level, constants and offsets by their generating rules), and '
              'Lean 4 theorems (Proofs.C04_Fips202) that Spec.Keccak equals Spec.Fips202 — FIPS 202 transcribed literally on bit strings and the '
              'state array of bits A[x,y,z] — step mapping by step mapping (theta rho pi chi iota, rc, RC), for Rnd, KECCAK-p[b,nr], KECCAK-f[b], '
              'pad10*1, SPONGE, h2b/b2h, KECCAK[c], SHA3-n, SHAKEn, for every lane size; so the model of the code equals the literal transcription '
              '(sponge_refines_fips202, sha3_refines_fips202, shake_refines_fips202); '
              'the model is tied to the current source by the translator (round constants, rho-offset dict, pi destinations, width table) and by '
              'a boundary-directed correspondence stream that also evaluates an independent Python reference and hashlib on the real code.')
LEVEL_NOTE = ('Trusted: Lean kernel; axioms ⊆ {propext, Classical.choice, Quot.sound}; extract.py/runcheck.py/props/C04.py; Spec/Fips202.lean as a '
              'line-by-line transcription of the printed FIPS 202 (the bit-level reading of section 3.2 is now PROVED equal to the lane-level '
              'Spec/Keccak.lean, not cited; Spec/Keccak.lean stays trusted only for the duplex construction and the NIST-order partial byte, which '
              'FIPS 202 does not define); both specifications validated against hashlib, the library\'s published vectors, an independent reference '
              'and kernel-evaluated known answers; CPython semantics are modelled. Theorem list with full/_partial status: evidence/C04.json coverage.theorems and lean/Proofs/C04.lean.')
TECHNIQUE = 'Lean 4 proof (kernel enumeration of constant tables, lane-wise refinement, induction over blocks/calls) + correspondence check'
