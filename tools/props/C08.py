"""C08 — Bits: operators are fixed-width modular algebra touching only addressed bits.

run_impl executes the op line on the real crysp.bits / crysp.utils.operators and also watches the operands
(state before/after every operator, identity of the result); check_impl is the property's own predicate: an
independent reference on (value,size) pairs and on plain Python lists of 0/1 (index 0 = bit 0), using Python's own
list indexing / slicing / range as the meaning of an index expression.  It shares no code with crysp or the model."""
from props.common import *

ID = 'C08'
LEAN_PROOFS = ['Proofs.C08']
GEN_ITEMS = []
RULE = ('op lines = (operator, operands) — widths 0..6 x all operand pairs x all operators (exhaustive in thorough, a seeded tenth in quick), '
        'every int index in [-10,10], every slice with start/stop in [-9,9]+None and step in {+-1,+-2,+-3,None,0} on widths <= 8, index lists with repeats, '
        'widths to 2049 at 2^k-1,2^k,2^k+1, random mutating histories of length <= 12 observed after every step; distinct lines; '
        'non-trivial = the implementation returned a value')
TRUSTED = ['CPython int / slice.indices / range semantics (Model.Py) are modelled, validated by enumeration in this stream (py.indices, py.range, py.bitlength)',
           '"operands unchanged / aliases unaffected" is a fact about Python object identity: decided by this stream only (run_impl snapshots every operand, '
           'a copy and a second reference before the operation and compares afterwards); the immutable Lean model satisfies it by construction']
ASSUMPTIONS = ['python -O (asserts stripped) is out of scope',
               'a slice assignment b[i:j]=v whose value does not fit (v >= 2^(j-i)) is outside the property ("for a value that fits the selection"): the code '
               'silently ORs the excess into higher bits (possibly beyond the size); such steps are compared code<->model only and the reference stops there',
               'rotation amounts > size raise (negative shift count) in the code: outside 0 <= k <= size, compared code<->model only',
               'b[list] with a negative or out-of-range index (ValueError / reads 0) is compared code<->model only; split(0) does not terminate and is never generated',
               'hd() on different sizes and == between different sizes are compared code<->model only']
LINE_TIMEOUT = 20


# ---------------------------------------------------------------------------------------------
def _st(x):
    return (x.ival, x.size, x.mask)


class _Watch:
    """snapshots of operand objects; verdict() tells whether any was changed by the operation"""
    def __init__(self, *objs):
        from crysp.bits import Bits
        self.objs = [o for o in objs if isinstance(o, Bits)]
        self.before = [_st(o) for o in self.objs]
        self.lists = [(o, list(o)) for o in objs if isinstance(o, list)]
    def verdict(self, result=None, may_alias=False):
        bad = []
        for k, (o, b) in enumerate(zip(self.objs, self.before)):
            if _st(o) != b: bad.append('operand%d' % k)
            if result is not None and not may_alias and result is o: bad.append('result-is-operand%d' % k)
        for o, b in self.lists:
            if o != b: bad.append('list-operand')
        return ('|OPERAND-MUTATED:' + ','.join(bad)) if bad else ''


def fbl(l): return ';'.join(fb(x) for x in l)


def run_impl(line):
    from crysp import bits as B
    from crysp.utils import operators as O
    Bits = B.Bits
    t = line.split()
    op, a = t[0], t[1:]
    import operator as pyop
    BIN = {'add': pyop.add, 'sub': pyop.sub, 'and': pyop.and_, 'or': pyop.or_, 'xor': pyop.xor, 'mul': pyop.mul, 'concat': pyop.floordiv}

    def go():
        if op == 'py.indices':
            s = slice(unoi(a[0]), unoi(a[1]), unoi(a[2])).indices(int(a[3])); return '%d,%d,%d' % s
        if op == 'py.range': return il(range(int(a[0]), int(a[1]), int(a[2])))
        if op == 'py.bitlength': return str(int(a[0]).bit_length())
        if op == 'bits.binop':
            x, y = mkbits(a[1]), operand(a[2]); w = _Watch(x, y)
            if a[0] == 'hd': r = str(x.hd(y)); return r + w.verdict()
            if a[0] == 'eq': r = bo(x == y); return r + w.verdict()
            r = BIN[a[0]](x, y); return fb(r) + w.verdict(r)
        if op == 'bits.rbinop':
            i, x = int(a[1]), mkbits(a[2]); w = _Watch(x)
            r = BIN[a[0]](i, x); return fb(r) + w.verdict(r)
        if op == 'bits.unop':
            x = mkbits(a[1]); w = _Watch(x)
            if a[0] == 'hw': return str(x.hw()) + w.verdict()
            r = -x if a[0] == 'neg' else ~x
            return fb(r) + w.verdict(r)
        if op in ('bits.shl', 'bits.shr', 'bits.rol', 'bits.ror'):
            x, n = mkbits(a[0]), int(a[1]); w = _Watch(x)
            r = {'bits.shl': lambda: x << n, 'bits.shr': lambda: x >> n, 'bits.rol': lambda: O.rol(x, n), 'bits.ror': lambda: O.ror(x, n)}[op]()
            return fb(r) + w.verdict(r)
        if op == 'bits.split':
            x = mkbits(a[0]); w = _Watch(x)
            r = x.split(int(a[1]), unbo(a[2]))
            return fbl(r) + w.verdict() + ('|OPERAND-MUTATED:piece-is-operand' if any(p is x for p in r) else '')
        if op == 'bits.concatlist':
            l = [mkbits(x) for x in a[0].split(';')]; w = _Watch(*l); l0 = list(l)
            r = O.concat(l, unbo(a[1]))
            return fb(r) + w.verdict(r, may_alias=(len(l) == 1)) + ('' if l == l0 else '|OPERAND-MUTATED:list')
        if op == 'bits.getint':
            x = mkbits(a[0]); w = _Watch(x); r = x[int(a[1])]; return fb(r) + w.verdict(r)
        if op == 'bits.getslice':
            x = mkbits(a[0]); w = _Watch(x); r = x[slice(unoi(a[1]), unoi(a[2]), unoi(a[3]))]; return fb(r) + w.verdict(r)
        if op == 'bits.getlist':
            x = mkbits(a[0]); l = unil(a[1]); w = _Watch(x, l); r = x[l]; return fb(r) + w.verdict(r)
        if op == 'bits.zext':
            x = mkbits(a[0]); r = x.zeroextend(int(a[1])); return fb(r)
        if op == 'bits.sext':
            x = mkbits(a[0]); r = x.signextend(int(a[1])); return fb(r)
        if op == 'bits.law.addneg':
            x = mkbits(a[0]); w = _Watch(x); r = x + (-x); return fb(r) + w.verdict(r)
        if op == 'bits.law.rolror':
            x = mkbits(a[0]); k = int(a[1]); w = _Watch(x); r = O.rol(O.ror(x, k), k); return fb(r) + w.verdict(r)
        if op == 'bits.law.rorrol':
            x = mkbits(a[0]); k = int(a[1]); w = _Watch(x); r = O.ror(O.rol(x, k), k); return fb(r) + w.verdict(r)
        if op == 'bits.law.splitconcat':
            x = mkbits(a[0]); be = unbo(a[2]); w = _Watch(x)
            r = O.concat(x.split(int(a[1]), be), be); return fb(r) + w.verdict(r)
        if op == 'bits.law.concatsplit':
            x, y = mkbits(a[0]), mkbits(a[1]); w = _Watch(x, y)
            return fbl((x // y).split(x.size)) + w.verdict()
        if op == 'bits.law.concatslices':
            x, y = mkbits(a[0]), mkbits(a[1]); w = _Watch(x, y); c = x // y
            return fbl([c[:x.size], c[x.size:]]) + w.verdict()
        if op == 'bits.seq':
            # a history on ONE vector; an independent copy and a second reference are made first; every right-hand value is watched
            b = mkbits(a[0]); ref = b
            out, flags = [], []
            steps, cur = [], []
            for tok in a[2:]:
                if tok == '|': steps.append(cur); cur = []
                else: cur.append(tok)
            steps.append(cur)
            for s in steps:
                copy = Bits(b); cs = _st(copy)
                try:
                    if s[0] == 'setint': b[int(s[1])] = (operand(s[2]) if s[2][0] == 'b' else int(s[2])); w = None
                    elif s[0] == 'setslice':
                        v = b if s[4] == 'self' else operand(s[4]); w = None if s[4] == 'self' else _Watch(v); b[slice(unoi(s[1]), unoi(s[2]), unoi(s[3]))] = v
                    elif s[0] == 'setlist':
                        v = b if s[2] == 'self' else operand(s[2]); l = unil(s[1]); w = _Watch(l) if s[2] == 'self' else _Watch(v, l); b[l] = v
                    elif s[0] == 'size': b.size = int(s[1]); w = None
                    elif s[0] == 'zext': b.zeroextend(int(s[1])); w = None
                    elif s[0] == 'sext': b.signextend(int(s[1])); w = None
                    else: raise RuntimeError('unknown step ' + s[0])
                except RuntimeError: raise
                except Exception:
                    out.append('ERR'); break
                out.append(fb(b))
                if w is not None and w.verdict(): flags.append(w.verdict())
                if _st(copy) != cs: flags.append('|OPERAND-MUTATED:copy')
                if ref is not b: flags.append('|OPERAND-MUTATED:rebinding')
            return ';'.join(out) + ''.join(flags)
        raise RuntimeError('unknown op ' + op)
    try:
        return go()
    except RuntimeError:
        raise
    except RecursionError:
        return 'ERR'
    except Exception:
        return 'ERR'


# ---------------------------------------------------------------------------------------------
# reference: (size, value) pairs and plain lists of 0/1
def seq_of(size, ival): return [(ival >> i) & 1 for i in range(size)]
def val_of(seq): return sum(b << i for i, b in enumerate(seq))
def fit(seq, n): return (seq + [0] * n)[:n]
def fmt(seq): return '%d:%d' % (len(seq), val_of(seq))

def ref_operand(tok):
    """what Bits(v) denotes for an operand token, as a bit list; None = not defined"""
    c = tok[0]
    if c == 'b': return seq_of(*unbt(tok))
    if c == 'i':
        v = abs(int(tok[1:])); return seq_of(v.bit_length(), v)
    if c == 'l': return [x & 1 for x in unil(tok)]
    if c == 'x': return [(b >> (7 - j)) & 1 for b in unhx(tok) for j in range(8)]
    return None

def parse_res(res):
    """'size:ival' -> (size, ival) ; WF is checked by the caller"""
    s, v = res.split(':'); return int(s), int(v)


def check_impl(line, res):
    t = line.split(); op, a = t[0], t[1:]
    bad = lambda why: '%s: %s (impl %s)' % (op, why, res[:80])
    if '|OPERAND-MUTATED' in res: return bad('an operand / alias was changed by the operation')
    def expect_seq(exp):
        """result must be exactly the bit list exp (size, bits, nothing above the size)"""
        if res == 'ERR': return bad('unexpected exception, expected %s' % fmt(exp))
        s, v = parse_res(res)
        if v >> s: return bad('payload exceeds the size')
        if s != len(exp): return bad('size %d, expected %d' % (s, len(exp)))
        if v != val_of(exp): return bad('expected %s' % fmt(exp))
        return None
    def expect_seqs(exps):
        if res == 'ERR': return bad('unexpected exception')
        got = res.split(';') if res else []
        if len(got) != len(exps): return bad('%d pieces, expected %d' % (len(got), len(exps)))
        for g, e in zip(got, exps):
            s, v = parse_res(g)
            if v >> s: return bad('payload exceeds the size')
            if (s, v) != (len(e), val_of(e)): return bad('piece %s, expected %s' % (g, fmt(e)))
        return None
    def wf_only():
        if res == 'ERR': return None
        for g in res.split(';'):
            if ':' in g:
                s, v = parse_res(g)
                if v >> s: return bad('payload exceeds the size')
        return None

    if op == 'py.indices' or op == 'py.range' or op == 'py.bitlength': return None      # CPython is the reference there; impl<->model only
    if op == 'bits.binop':
        m, x = unbt(a[1]); o = ref_operand(a[2]); n, y = len(o), val_of(o); w = max(m, n)
        k = a[0]
        if k == 'add': return expect_seq(seq_of(w, (x + y) % (1 << w)))
        if k == 'sub': return expect_seq(seq_of(w, (x - y) % (1 << w)))
        if k in ('and', 'or', 'xor'):
            f = {'and': lambda p, q: p & q, 'or': lambda p, q: p | q, 'xor': lambda p, q: p ^ q}[k]
            return expect_seq([f(p, q) for p, q in zip(fit(seq_of(m, x), w), fit(o, w))])
        if k == 'mul': return expect_seq(seq_of(m, (x * y) % (1 << m)))
        if k == 'concat': return expect_seq(seq_of(m, x) + o)
        if k == 'hd':
            if m != n: return None
            return None if res == str(sum(p != q for p, q in zip(seq_of(m, x), o))) else bad('hamming distance')
        if k == 'eq':
            if m != n: return None
            return None if res == bo(x == y) else bad('equality')
        return None
    if op == 'bits.rbinop':
        y = abs(int(a[1])); n = y.bit_length(); m, x = unbt(a[2]); w = max(m, n); k = a[0]
        if k == 'add': return expect_seq(seq_of(w, (y + x) % (1 << w)))
        if k == 'sub': return expect_seq(seq_of(w, (y - x) % (1 << w)))
        f = {'and': lambda p, q: p & q, 'or': lambda p, q: p | q, 'xor': lambda p, q: p ^ q}[k]
        return expect_seq([f(p, q) for p, q in zip(fit(seq_of(n, y), w), fit(seq_of(m, x), w))])
    if op == 'bits.unop':
        m, x = unbt(a[1]); sq = seq_of(m, x)
        if a[0] == 'neg': return expect_seq(seq_of(m, (-x) % (1 << m)))
        if a[0] == 'inv': return expect_seq([1 - p for p in sq])
        if a[0] == 'hw': return None if res == str(sum(sq)) else bad('hamming weight')
    if op in ('bits.shl', 'bits.shr', 'bits.rol', 'bits.ror'):
        m, x = unbt(a[0]); k = int(a[1]); sq = seq_of(m, x)
        if op == 'bits.shl': return expect_seq(([0] * k + sq)[:m])
        if op == 'bits.shr': return expect_seq(fit(sq[k:], m))
        if k > m: return wf_only()
        if op == 'bits.rol': return expect_seq([sq[(i - k) % m] for i in range(m)])
        return expect_seq([sq[(i + k) % m] for i in range(m)])
    if op == 'bits.split':
        m, x = unbt(a[0]); k = int(a[1]); sq = seq_of(m, x)
        pieces = [sq[i:i + k] for i in range(0, m, k)]
        if unbo(a[2]): pieces.reverse()
        return expect_seqs(pieces)
    if op == 'bits.concatlist':
        l = [seq_of(*unbt(x)) for x in a[0].split(';')]
        if unbo(a[1]): l.reverse()
        return expect_seq([b for s in l for b in s])
    if op == 'bits.getint':
        m, x = unbt(a[0]); i = int(a[1]); sq = seq_of(m, x)
        try: e = [sq[i]]
        except IndexError: return None if res == 'ERR' else bad('index out of range must be refused')
        return expect_seq(e)
    if op == 'bits.getslice':
        m, x = unbt(a[0]); sq = seq_of(m, x)
        try: e = sq[slice(unoi(a[1]), unoi(a[2]), unoi(a[3]))]
        except ValueError: return None if res == 'ERR' else bad('slice step 0 must be refused')
        return expect_seq(e)
    if op == 'bits.getlist':
        m, x = unbt(a[0]); sq = seq_of(m, x); l = unil(a[1])
        if any(not (0 <= j < m) for j in l): return wf_only()
        return expect_seq([sq[j] for j in l])
    if op == 'bits.zext':
        m, x = unbt(a[0]); n = int(a[1])
        e = expect_seq(fit(seq_of(m, x), max(m, n)))
        if e: return e
        return None if parse_res(res)[1] == x else bad('unsigned value changed')
    if op == 'bits.sext':
        m, x = unbt(a[0]); n = int(a[1]); sq = seq_of(m, x)
        if n <= m: return expect_seq(sq)
        if m == 0: return None if res == 'ERR' else bad('no sign bit to extend')
        e = expect_seq(sq + [sq[-1]] * (n - m))
        if e: return e
        s, v = parse_res(res)
        return None if v - (1 << s) * (v >> (s - 1)) == x - (1 << m) * sq[-1] else bad('signed value changed')
    if op == 'bits.law.addneg':
        m, x = unbt(a[0]); return expect_seq([0] * m)
    if op in ('bits.law.rolror', 'bits.law.rorrol'):
        m, x = unbt(a[0]); k = int(a[1])
        if k > m: return wf_only()
        return expect_seq(seq_of(m, x))
    if op == 'bits.law.splitconcat':
        m, x = unbt(a[0])
        if m == 0: return wf_only()           # no pieces: reduce() of an empty list
        return expect_seq(seq_of(m, x))
    if op == 'bits.law.concatsplit':
        (m, x), (n, y) = unbt(a[0]), unbt(a[1])
        if not (0 < n <= m): return wf_only()
        return expect_seqs([seq_of(m, x), seq_of(n, y)])
    if op == 'bits.law.concatslices':
        (m, x), (n, y) = unbt(a[0]), unbt(a[1])
        return expect_seqs([seq_of(m, x), seq_of(n, y)])
    if op == 'bits.seq':
        m, x = unbt(a[0]); cur = seq_of(m, x)
        steps, c = [], []
        for tok in a[2:]:
            if tok == '|': steps.append(c); c = []
            else: c.append(tok)
        steps.append(c)
        got = res.split(';')
        for k, s in enumerate(steps):
            if k >= len(got): return bad('history stopped after %d steps without an exception' % k)
            m = len(cur); err = False; nxt = None
            if s[0] == 'setint':
                i, v = int(s[1]), (unbt(s[2])[1] if s[2][0] == 'b' else int(s[2]))   # a bit vector on the right is compared by value
                if v not in (0, 1) or not (-m <= i < m): err = True
                else: nxt = list(cur); nxt[i] = v
            elif s[0] == 'setslice':
                vb = list(cur) if s[4] == 'self' else ref_operand(s[4])
                try: idx = list(range(m))[slice(unoi(s[1]), unoi(s[2]), unoi(s[3]))]
                except ValueError: idx = None
                if idx is None: err = True
                else:
                    contiguous = len(idx) > 0 and (unoi(s[3]) in (None, 1))
                    if len(vb) == len(idx) or (contiguous and val_of(vb) < (1 << len(idx))):
                        nxt = list(cur)
                        for j, p in enumerate(idx): nxt[p] = vb[j] if j < len(vb) else 0
                    elif contiguous:
                        return None          # value does not fit: outside the property; nothing more is claimed (code<->model continues)
                    else: err = True
            elif s[0] == 'setlist':
                vb = (list(cur) if s[2] == 'self' else ref_operand(s[2])); l = unil(s[1])
                if len(l) != len(vb) or any(not (-m <= j < m) for j in l): err = True
                else:
                    nxt = list(cur)
                    for j, v in zip(l, vb): nxt[j] = v
            elif s[0] == 'size': nxt = fit(cur, int(s[1]))
            elif s[0] == 'zext': nxt = fit(cur, max(m, int(s[1])))
            elif s[0] == 'sext':
                n = int(s[1])
                if n <= m: nxt = list(cur)
                elif m == 0: err = True
                else: nxt = cur + [cur[-1]] * (n - m)
            if err:
                if got[k] != 'ERR': return bad('step %d (%s) must be refused' % (k, ' '.join(s)))
                if len(got) != k + 1: return bad('history continued after an exception')
                return None
            if got[k] == 'ERR': return bad('step %d (%s): unexpected exception, expected %s' % (k, ' '.join(s), fmt(nxt)))
            sz, v = parse_res(got[k])
            if v >> sz: return bad('step %d (%s): payload exceeds the size' % (k, ' '.join(s)))
            if (sz, v) != (len(nxt), val_of(nxt)): return bad('step %d (%s): expected %s, got %s' % (k, ' '.join(s), fmt(nxt), got[k]))
            cur = nxt
        if len(got) != len(steps): return bad('more results than steps')
        return None
    return None


# ---------------------------------------------------------------------------------------------
# generators
BINOPS = ['add', 'sub', 'and', 'or', 'xor', 'mul', 'concat', 'hd', 'eq']
RBINOPS = ['add', 'sub', 'and', 'or', 'xor']
STEPS = [None, 1, -1, 2, -2, 3, -3]


def small_values(maxw):
    for n in range(0, maxw + 1):
        for x in range(1 << n): yield n, x


def pair_lines(m, x, n, y):
    A, B_ = bt(m, x), bt(n, y)
    for k in BINOPS: yield 'bits.binop %s %s %s' % (k, A, B_), 'binop.' + k
    if m > 0: yield 'bits.law.concatsplit %s %s' % (A, B_), 'law.concatsplit'      # split(0) does not terminate
    yield 'bits.law.concatslices %s %s' % (A, B_), 'law.concatslices'


def int_lines(m, x, i):
    A = bt(m, x)
    for k in BINOPS[:7]: yield 'bits.binop %s %s i%d' % (k, A, i), 'binop-int.' + k
    for k in RBINOPS: yield 'bits.rbinop %s %d %s' % (k, i, A), 'rbinop.' + k


def unary_lines(m, x, amounts=None, wide=False):
    A = bt(m, x)
    for k in ('neg', 'inv', 'hw'): yield 'bits.unop %s %s' % (k, A), 'unop.' + k
    yield 'bits.law.addneg %s' % A, 'law.addneg'
    ks = amounts if amounts is not None else range(0, m + 3)
    for k in ks:
        for o in ('shl', 'shr', 'rol', 'ror'): yield 'bits.%s %s %d' % (o, A, k), o
        yield 'bits.law.rolror %s %d' % (A, k), 'law.rolror'
        yield 'bits.law.rorrol %s %d' % (A, k), 'law.rorrol'
    subs = range(1, m + 3) if not wide else sorted({1, 3, 7, 8, 9, 31, 32, 33, 64, m - 1, m, m + 1, max(m // 2, 1)} - {0, -1})
    for k in subs:
        for be in 'FT':
            yield 'bits.split %s %d %s' % (A, k, be), 'split'
            yield 'bits.law.splitconcat %s %d %s' % (A, k, be), 'law.splitconcat'
    exts = range(0, m + 4) if not wide else (m - 1, m, m + 1, m + 63, m + 64, m + 65, 2 * m)
    for n in exts:
        yield 'bits.zext %s %d' % (A, n), 'zext'
        yield 'bits.sext %s %d' % (A, n), 'sext'


def all_slices():
    rng_ = [None] + list(range(-9, 10))
    for s in rng_:
        for e in rng_:
            for st in STEPS + [0]:
                yield s, e, st


def index_lines(m, x, rng, frac=1.0):
    """every int index, every slice, read and write"""
    A = bt(m, x)
    for i in range(-10, 11):
        yield 'bits.getint %s %d' % (A, i), 'getint'
        for v in (0, 1): yield 'bits.seq %s | setint %d %d' % (A, i, v), 'setint'
    yield 'bits.seq %s | setint 0 2' % A, 'setint'
    for i in (0, m - 1, -1):
        for t in ('b1:0', 'b1:1', 'b3:0', 'b3:1', 'b2:2'): yield 'bits.seq %s | setint %d %s' % (A, i, t), 'setint-bitsvalue'
    for s, e, st in all_slices():
        if frac < 1.0 and rng.random() >= frac: continue
        yield 'bits.getslice %s %s %s %s' % (A, oi(s), oi(e), oi(st)), 'getslice'
        try: sel = len(range(m)[slice(s, e, st)])
        except ValueError: sel = 0
        # values: exactly the selection's length (random and all-ones), one bit short, one bit long, an int
        vals = {bt(sel, rng.getrandbits(sel) if sel else 0), bt(sel, (1 << sel) - 1)}
        if sel > 0: vals.add(bt(sel - 1, rng.getrandbits(sel - 1) if sel > 1 else 0))
        vals.add(bt(sel + 1, rng.getrandbits(sel + 1)))
        vals.add('i%d' % rng.getrandbits(max(sel, 1)))
        for v in sorted(vals):
            yield 'bits.seq %s | setslice %s %s %s %s' % (A, oi(s), oi(e), oi(st), v), 'setslice'


def list_lines(m, x, rng, cnt):
    A = bt(m, x)
    for _ in range(cnt):
        ln = rng.randrange(0, 10)
        kind = rng.random()
        if m == 0: l = [] if kind < 0.5 else [rng.randrange(-2, 3) for _ in range(ln)]
        elif kind < 0.7: l = [rng.randrange(0, m) for _ in range(ln)]                       # in range, repeats likely
        elif kind < 0.85: l = [rng.randrange(-m, m) for _ in range(ln)]                     # negative indices
        else: l = [rng.randrange(-m - 2, m + 3) for _ in range(ln)]                         # out of range
        yield 'bits.getlist %s %s' % (A, il(l)), 'getlist'
        v = [rng.getrandbits(1) for _ in range(ln)]
        yield 'bits.seq %s | setlist %s %s' % (A, il(l), il(v)), 'setlist'
        yield 'bits.seq %s | setlist %s %s' % (A, il(l), bt(ln, val_of(v))), 'setlist'
        if ln: yield 'bits.seq %s | setlist %s %s' % (A, il(l), il(v[:-1])), 'setlist'
    yield 'bits.getlist %s %s' % (A, il(list(range(m)) * 2)), 'getlist'
    yield 'bits.getlist %s %s' % (A, il(list(range(m))[::-1])), 'getlist'


def rand_step(rng, m):
    """one mutating step for a vector of current size m (sizes are tracked by the caller only approximately)"""
    k = rng.random()
    def idx(): return rng.choice([None, rng.randrange(-m - 2, m + 3)])
    if k < 0.2:
        return 'setint %d %d' % (rng.randrange(-m - 1, m + 1), rng.getrandbits(1)), m
    if k < 0.5:
        s, e, st = idx(), idx(), rng.choice([None, None, 1, 1, -1, 2, -2, 3])
        sel = len(range(m)[slice(s, e, st)])
        r = rng.random()
        if r < 0.6: v = bt(sel, rng.getrandbits(sel) if sel else 0)
        elif r < 0.8: v = 'i%d' % (rng.getrandbits(sel) if sel else 0)
        elif r < 0.9: v = il([rng.getrandbits(1) for _ in range(sel)])
        else: v = bt(sel + 1, rng.getrandbits(sel + 1))
        return 'setslice %s %s %s %s' % (oi(s), oi(e), oi(st), v), m
    if k < 0.65:
        ln = rng.randrange(0, 6)
        l = [rng.randrange(-m, m) for _ in range(ln)] if m else []
        if rng.random() < 0.05: l.append(m + 1)
        v = [rng.getrandbits(1) for _ in range(len(l))]
        return 'setlist %s %s' % (il(l), il(v) if rng.random() < 0.5 else bt(len(v), val_of(v))), m
    if k < 0.8:
        n = max(0, m + rng.randrange(-3, 4)); return 'size %d' % n, n
    if k < 0.9:
        n = max(0, m + rng.randrange(-2, 5)); return 'zext %d' % n, max(m, n)
    n = max(0, m + rng.randrange(-2, 5)); return 'sext %d' % n, max(m, n)


def seq_lines(rng, cnt, widths):
    for _ in range(cnt):
        m = rng.choice(widths); x = rng.getrandbits(m) if m else 0
        steps, cur = [], m
        for _ in range(rng.randrange(1, 13)):
            s, cur = rand_step(rng, cur); steps.append(s)
        yield 'bits.seq %s | %s' % (bt(m, x), ' | '.join(steps)), 'seq'


def wide_values(rng, n, cnt=2):
    vals = {0, 1, (1 << n) - 1, 1 << (n - 1), (1 << (n - 1)) - 1}
    for _ in range(cnt):
        vals.add(rng.getrandbits(n)); vals.add(rng.getrandbits(n) | (1 << (n - 1)))
    return sorted(vals)


def wide_lines(rng, tier):
    sizes = sorted({(1 << k) + d for k in range(3, 12) for d in (-1, 0, 1)})
    per = 1 if tier == 'quick' else 3
    for m in sizes:
        amounts = sorted({0, 1, 7, 8, 9, 31, 32, 33, 63, 64, 65, m // 2, m - 1, m, m + 1})
        for x in wide_values(rng, m, per):
            yield from unary_lines(m, x, amounts=amounts if tier != 'quick' else rng.sample(amounts, 5) + [0, m], wide=True)
            A = bt(m, x)
            # word-boundary slices
            marks = sorted({None, 0, 1, 8, 31, 32, 33, 64, m // 2, m - 1, m, m + 1, -1, -8, -m, -m - 1}, key=lambda v: (v is None, v))
            for _ in range(20 if tier == 'quick' else 80):
                s, e, st = rng.choice(marks), rng.choice(marks), rng.choice(STEPS)
                yield 'bits.getslice %s %s %s %s' % (A, oi(s), oi(e), oi(st)), 'getslice.wide'
                sel = len(range(m)[slice(s, e, st)])
                yield 'bits.seq %s | setslice %s %s %s %s' % (A, oi(s), oi(e), oi(st), bt(sel, rng.getrandbits(sel) if sel else 0)), 'setslice.wide'
            for i in (0, 1, m - 1, m, -1, -m, -m - 1, m // 2):
                yield 'bits.getint %s %d' % (A, i), 'getint.wide'
                yield 'bits.seq %s | setint %d %d' % (A, i, 1 - ((x >> (i % m)) & 1) if -m <= i < m else 1), 'setint.wide'
            yield from list_lines(m, x, rng, 3)
        # operand pairs of mixed widths around this size
        for n in {m, m - 1, m + 1, rng.choice(sizes), rng.randrange(0, 70)}:
            for _ in range(per):
                x, y = rng.getrandbits(m), rng.getrandbits(n) if n else 0
                if rng.random() < 0.3: x = (1 << m) - 1
                if rng.random() < 0.3 and n: y = (1 << n) - 1
                yield from pair_lines(m, x, n, y)
                yield from int_lines(m, x, y)
    pieces = [bt(n, rng.getrandbits(n) if n else 0) for n in (0, 1, 7, 8, 9, 32, 64, 65, 0, 3)]
    for be in 'FT':
        for k in range(1, len(pieces) + 1):
            yield 'bits.concatlist %s %s' % (';'.join(pieces[:k]), be), 'concatlist'


def py_lines(tier):
    rng_ = [None] + list(range(-9, 10))
    for n in range(0, 9):
        for s in rng_:
            for e in rng_:
                for st in STEPS + [0]:
                    yield 'py.indices %s %s %s %d' % (oi(s), oi(e), oi(st), n), 'py.indices'
    r = range(-6, 7) if tier == 'quick' else range(-9, 10)
    for a in r:
        for b in r:
            for c in (-3, -2, -1, 1, 2, 3): yield 'py.range %d %d %d' % (a, b, c), 'py.range'
    for n in list(range(0, 300)) + [(1 << k) + d for k in range(8, 80, 7) for d in (-1, 0, 1)]:
        yield 'py.bitlength %d' % n, 'py.bitlength'


def self_lines(tier, rng):
    """the right-hand side is the target object itself: `b[::-1] = b`, `b[perm] = b`, `b[:] = b`, `b[::2] = b` (length mismatch) …"""
    import itertools
    widths = range(0, 9) if tier == 'quick' else range(0, 13)
    for n in widths:
        vals = range(1 << n) if n <= (5 if tier == 'quick' else 7) else sorted({0, 1, (1 << n) - 1, 1 << (n - 1)} | {rng.getrandbits(n) for _ in range(12)})
        for x in vals:
            A = bt(n, x)
            for (s_, e_, st_) in ((None, None, -1), (None, None, None), (None, None, 1), (0, n, 1), (None, None, 2), (n - 1, None, -1), (None, None, -2)):
                yield 'bits.seq %s | setslice %s %s %s self' % (A, oi(s_), oi(e_), oi(st_)), 'setslice.self'
            perms = [list(range(n))[::-1], list(range(1, n)) + [0] if n else [], [(i * 3) % n for i in range(n)] if n else []]
            perms += [rng.sample(range(n), n) for _ in range(2)]
            for pm in perms:
                yield 'bits.seq %s | setlist %s self' % (A, il(pm)), 'setlist.self'
            if n: yield 'bits.seq %s | setlist %s self | setslice None None -1 self' % (A, il(list(range(n))[::-1])), 'setlist.self'
    for n in (31, 32, 33, 63, 64, 65, 127, 128, 129):
        for _ in range(3):
            A = bt(n, rng.getrandbits(n))
            yield 'bits.seq %s | setslice None None -1 self' % A, 'setslice.self'
            yield 'bits.seq %s | setlist %s self' % (A, il(rng.sample(range(n), n))), 'setlist.self'


def cases(tier, rng):
    if tier != 'search': yield from self_lines(tier, random_copy(rng))
    yield from _cases(tier, rng)


def random_copy(rng):
    import random
    r = random.Random(); r.setstate(rng.getstate()); return r


def _cases(tier, rng):
    if tier == 'search':
        while True:
            m, n = rng.randrange(0, 12), rng.randrange(0, 12)
            x, y = (rng.getrandbits(m) if m else 0), (rng.getrandbits(n) if n else 0)
            yield from pair_lines(m, x, n, y)
            yield from int_lines(m, x, rng.getrandbits(rng.randrange(0, 14)))
            yield from unary_lines(m, x)
            yield from index_lines(min(m, 8), x & ((1 << min(m, 8)) - 1), rng, 0.02)
            yield from list_lines(m, x, rng, 4)
            yield from seq_lines(rng, 20, list(range(0, 13)) + [31, 32, 33, 64, 65])
            if rng.random() < 0.05: yield from wide_lines(rng, 'quick')
        return
    quick = tier == 'quick'
    # (1) widths 0..6 x all operand pairs x all operators: exhaustive in thorough, a seeded tenth in quick
    vals = list(small_values(6))
    for m, x in vals:
        yield from unary_lines(m, x)
        for n, y in vals:
            if quick and rng.random() >= 0.1: continue
            yield from pair_lines(m, x, n, y)
        for i in range(0, 131):
            if quick and rng.random() >= 0.1: continue
            yield from int_lines(m, x, i)
    for m, x in ((3, 5), (0, 0), (6, 63)):
        for i in (-1, -5, -64, -(1 << 70)): yield from int_lines(m, x, i)        # negative ints: abs() first
    # other operand kinds on the right
    for m, x in ((4, 9), (9, 300), (0, 0)):
        for o in ('l', 'l1', 'l1,0,1,1,1', 'l2,3,5', 'x', 'x80', 'x0102'):
            for k in BINOPS[:7]: yield 'bits.binop %s %s %s' % (k, bt(m, x), o), 'binop-other.' + k
    # concat of lists of pieces
    for m, x in small_values(2):
        for n, y in small_values(2):
            for p, z in small_values(2):
                for be in 'FT': yield 'bits.concatlist %s;%s;%s %s' % (bt(m, x), bt(n, y), bt(p, z), be), 'concatlist'
    for m, x in small_values(3):
        for be in 'FT': yield 'bits.concatlist %s %s' % (bt(m, x), be), 'concatlist'
    # (2) index expressions on widths <= 8: every int, every slice
    for m in range(0, 9):
        xs = {0, (1 << m) - 1, 0x55 & ((1 << m) - 1), rng.getrandbits(m) if m else 0}
        if quick: xs = {rng.getrandbits(m) if m else 0}
        for x in sorted(xs):
            yield from index_lines(m, x, rng, 0.5 if quick else 1.0)
    for m, x in small_values(6):
        for i in range(-8, 9): yield 'bits.getint %s %d' % (bt(m, x), i), 'getint'
        yield from list_lines(m, x, rng, 3 if quick else 12)
    # (3) widths up to 2049 at word boundaries
    yield from wide_lines(rng, tier)
    # (4) random mutating histories
    yield from seq_lines(rng, 3000 if quick else 40000, list(range(0, 13)))
    yield from seq_lines(rng, 300 if quick else 4000, [15, 16, 17, 31, 32, 33, 63, 64, 65, 127, 128, 129, 255, 256, 257, 1023, 1024, 1025, 2047, 2048, 2049])
    # (5) the Python builtins the model re-implements
    yield from py_lines(tier)


def shrink(line):
    t = line.split()
    if t[0] == 'bits.seq':
        head = t[:2]; steps, c = [], []
        for tok in t[3:]:
            if tok == '|': steps.append(c); c = []
            else: c.append(tok)
        steps.append(c)
        for k in range(len(steps)):
            rest = steps[:k] + steps[k + 1:]
            if rest: yield ' '.join(head) + ' | ' + ' | '.join(' '.join(s) for s in rest)
        for k in range(1, len(steps)):
            yield ' '.join(head) + ' | ' + ' | '.join(' '.join(s) for s in steps[:k])


LEVEL_TEXT = ('Lean 4 theorems about Model.Bits (the hand-written mirror of crysp/bits.py and crysp/utils/operators.py) for every size, value, '
              'shift/rotation amount, index expression and history of mutating operations; the model is tied to the current source by a correspondence '
              'stream (exhaustive on widths 0..6, boundary-directed up to 2049 bits, random histories) that also evaluates an independent list-of-bits '
              'reference on the real code and watches every operand object before/after every operator.')
LEVEL_NOTE = ('Trusted: Lean kernel; axioms ⊆ {propext, Classical.choice, Quot.sound}; runcheck.py/props/C08.py; CPython semantics are modelled (Model.Py). '
              '"No operator changes its operands / aliases unaffected" is a fact about Python object identity, decided by the correspondence stream only. '
              'Slice assignment of a value that does not fit is outside the property. Theorem list: evidence/C08.json coverage.theorems.')
TECHNIQUE = 'Lean 4 proof (testBit extensionality, modular arithmetic, induction over operation lists) + correspondence check with operand watching'
