"""C20 — permutation and subset-sum helpers enumerate exactly and answer correctly.

run_impl executes the op line on the real crysp.utils.perms / crysp.utils.knapsack.  check_impl is the property's own
predicate on the implementation's output: itertools.permutations / itertools.combinations, the lexicographic successor
among the distinct arrangements, brute-force subset sums.  `c20.seq` lines run several calls one after the other in the
same process so that state surviving a call (default arguments, function attributes) is observed."""
import itertools
from collections import Counter
from props.common import *

ID = 'C20'
LEAN_PROOFS = ['Proofs.C20']
GEN_ITEMS = []
RULE = ('op lines = (helper, list / item list, k / p / target), call sequences; distinct lines; non-trivial = the implementation '
        'returned a value (not an exception)')
TRUSTED = ['Spec.Perms / Spec.Knapsack (plain list recursions for arrangements, combinations, subset sums); the brute-force successor Spec.Perms.nextArr echoed for '
           'nextperm lines is NOT trusted: nextperm_eq_nextArr proves it equal to the model result for every list, and nextperm_succ/nextperm_unique say what that is',
           'generators are modelled as the list of their yields; object identity of the in-place list is checked by the stream only']
ASSUMPTIONS = ['list elements and item objects are ints on the wire; weights of the property domain are positive ints',
               'k >= 0 and 0 <= p <= len(l) (the code asserts it); combink with k > 0 ("k-deep") is compared code<->model only',
               'python -O (asserts stripped) is out of scope']


def fl(l): return '[' + ','.join(str(int(x)) for x in l) + ']'
def fll(ls): return ';'.join(fl(x) for x in ls)
def fitems(c): return '[' + ','.join('%d:%d' % (int(a), int(w)) for a, w in c) + ']'
def items_of(a, b):
    ids, ws = unil(a), unil(b)
    assert len(ids) == len(ws)
    return list(zip(ids, ws))
def unitems(t): return [tuple(int(v) for v in e.split(':')) for e in t[1:-1].split(',')] if len(t) > 2 else []
def unfl(t): return [int(v) for v in t[1:-1].split(',')] if len(t) > 2 else []
def unfll(t): return [unfl(x) for x in t.split(';')] if t else []


# ---------------------------------------------------------------------------------------------
def call_impl(op, a):
    from crysp.utils import perms, knapsack
    if op == 'perms.permutk':
        l = unil(a[0]); ys = [list(p) for p in perms.permutk(l, int(a[1]))]
        return fll(ys) + '|' + fl(l)
    if op == 'perms.nextperm':
        l = unil(a[0]); r = perms.nextperm(l)
        if r is not l: return 'NOT-IN-PLACE'
        return fl(l)
    if op == 'perms.combink':
        return fll(list(perms.combink(unil(a[0]), int(a[1]), int(a[2]))))
    if op == 'perms.combink.partial':
        g = perms.combink(unil(a[0]), int(a[1]), int(a[2]))
        return fll(list(itertools.islice(g, int(a[3]))))          # generator abandoned afterwards
    if op == 'ks.exactsum':
        r = knapsack.exactsum(items_of(a[0], a[1]), int(a[2]))
        if r is False: return 'F'
        if r is True: return 'T'
        if r is None: return 'N'
        return fitems(r)
    if op in ('ks.dynprog', 'ks.dynprog.reuse'):
        r = knapsack.dynprog(items_of(a[0], a[1]), int(a[2]))
        return 'N' if r is None else fitems(r)
    raise RuntimeError('unknown op ' + op)


def split_bar(toks):
    out, cur = [], []
    for t in toks:
        if t == '|': out.append(cur); cur = []
        else: cur.append(t)
    out.append(cur)
    return out


def run_impl(line):
    t = line.split(); op, a = t[0], t[1:]
    if op == 'c20.seq':
        return ' | '.join(guarded(lambda c=c: call_impl(c[0], c[1:])) for c in split_bar(a))
    return guarded(lambda: call_impl(op, a))


# ---------------------------------------------------------------------------------------------
# references
def ref_next(l):
    arr = sorted(set(itertools.permutations(l)))
    return list(arr[(arr.index(tuple(l)) + 1) % len(arr)])

def ref_subset_min(items, s):
    """minimum cardinality of a sub-collection with weight sum s (None if there is none)"""
    best = None
    for r in range(len(items) + 1):
        for c in itertools.combinations(items, r):
            if sum(w for _, w in c) == s: return r
    return best

def is_sub(c, items):
    return not (Counter(c) - Counter(items))

def min_unbounded(items, s):
    """min number of items (with repetition) of weight sum x, for x in 0..s (None = unreachable)"""
    m = [0] + [None] * s
    for x in range(1, s + 1):
        for _, w in items:
            if 0 < w <= x and m[x - w] is not None and (m[x] is None or m[x - w] + 1 < m[x]): m[x] = m[x - w] + 1
    return m

def reuse_possible(items, s):
    """some minimum-cardinality solution WITH repetition is not a sub-collection"""
    if s < 0: return False
    m = min_unbounded(items, s)
    if m[s] is None: return False
    for c, mu in Counter(items).items():
        rest = s - (mu + 1) * c[1]
        if rest >= 0 and m[rest] is not None and m[rest] == m[s] - (mu + 1): return True
    return False


def check_call(op, a, res):
    bad = lambda why: '%s: %s' % (op, why)
    if op == 'perms.permutk':
        l, k = unil(a[0]), int(a[1])
        if k < 0 or k > len(l): return None
        if res == 'ERR': return bad('unexpected exception')
        ys, fin = res.split('|')
        if unfl(fin) != l: return bad('list not restored')
        exp = sorted(l[:k] + list(p) for p in itertools.permutations(l[k:]))
        if sorted(unfll(ys)) != exp: return bad('yields are not the arrangements of the tail, each once')
        return None
    if op == 'perms.nextperm':
        l = unil(a[0])
        if res == 'ERR': return bad('unexpected exception')
        if res == 'NOT-IN-PLACE': return bad('result is not the list itself')
        exp = ref_next(l)
        return None if unfl(res) == exp else bad('expected %s' % fl(exp))
    if op == 'perms.combink':
        l, p, k = unil(a[0]), int(a[1]), int(a[2])
        if k != 0 or not (0 <= p <= len(l)): return None
        if res == 'ERR': return bad('unexpected exception')
        exp = fll(list(c) for c in itertools.combinations(l, p))
        return None if res == exp else bad('not itertools.combinations')
    if op == 'perms.combink.partial':
        l, p, k, m = unil(a[0]), int(a[1]), int(a[2]), int(a[3])
        if k != 0 or not (0 <= p <= len(l)): return None
        exp = fll(list(c) for c in itertools.islice(itertools.combinations(l, p), m))
        return None if res == exp else bad('not the first yields of itertools.combinations')
    if op in ('ks.exactsum', 'ks.dynprog', 'ks.dynprog.reuse'):
        items, s = items_of(a[0], a[1]), int(a[2])
        if any(w <= 0 for _, w in items) or s < 0: return None
        if res == 'ERR': return bad('unexpected exception')
        mn = ref_subset_min(items, s)
        fail = 'F' if op == 'ks.exactsum' else 'N'
        if mn is None:
            return None if res == fail else bad('no sub-collection sums to %d but the result is %s' % (s, res))
        if res in ('F', 'N', 'T'): return bad('a sub-collection with sum %d exists but the result is %s' % (s, res))
        c = unitems(res)
        if sum(w for _, w in c) != s: return bad('weights do not sum to the target')
        if not is_sub(c, items): return bad('result is not a sub-collection of the items (an item is used more often than it occurs)')
        if op != 'ks.exactsum' and len(c) != mn: return bad('%d items, minimum is %d' % (len(c), mn))
        return None
    return None


def check_impl(line, res):
    t = line.split(); op, a = t[0], t[1:]
    if op != 'c20.seq': return check_call(op, a, res)
    calls, rs = split_bar(a), res.split(' | ')
    if len(calls) != len(rs): return 'c20.seq: malformed result'
    seen = {}
    for c, r in zip(calls, rs):
        f = check_call(c[0], c[1:], r)
        if f and not c[0].endswith('.reuse'): return 'c20.seq: call %s: %s' % (' '.join(c), f)
        key = ' '.join(c)
        if key in seen and seen[key] != r: return 'c20.seq: the call %s returned %s first and %s later' % (key, seen[key], r)
        seen[key] = r
    return None


# ---------------------------------------------------------------------------------------------
def lists_over(vals, n): return [list(t) for t in itertools.product(vals, repeat=n)]

def perm_lines(l):
    for k in range(0, len(l) + 1): yield 'perms.permutk %s %d' % (il(l), k), 'perms.permutk'

def comb_lines(l):
    n = len(l)
    for p in range(0, n + 1): yield 'perms.combink %s %d 0' % (il(l), p), 'perms.combink'

def ks_lines(items, targets=None):
    ids, ws = il([a for a, _ in items]), il([w for _, w in items])
    tot = sum(w for _, w in items if w > 0)
    for s in (range(0, tot + 2) if targets is None else targets):
        yield 'ks.exactsum %s %s %d' % (ids, ws, s), 'ks.exactsum'
        pos = all(w > 0 for _, w in items)
        tag = 'ks.dynprog.reuse' if pos and reuse_possible(items, s) else 'ks.dynprog'
        yield '%s %s %s %d' % (tag, ids, ws, s), tag

def ks_call(op, items, s):
    if op == 'ks.dynprog' and all(w > 0 for _, w in items) and reuse_possible(items, s): op = 'ks.dynprog.reuse'
    return '%s %s %s %d' % (op, il([a for a, _ in items]), il([w for _, w in items]), s)

def ritems(rng, n, wmax=9, distinct=True):
    ws = [rng.randrange(1, wmax + 1) for _ in range(n)]
    ids = list(range(1, n + 1)) if distinct else [rng.randrange(1, 3) for _ in range(n)]
    return list(zip(ids, ws))

def seq_lines(rng, cnt):
    for _ in range(cnt):
        a = ritems(rng, rng.randrange(1, 6)); b = ritems(rng, rng.randrange(1, 6))
        sa = rng.randrange(0, sum(w for _, w in a) + 1); sb = rng.randrange(0, sum(w for _, w in b) + 1)
        for op in ('ks.exactsum', 'ks.dynprog'):
            yield 'c20.seq %s | %s' % (ks_call(op, a, sa), ks_call(op, a, sa)), 'seq.' + op + '-twice'
            yield 'c20.seq %s | %s | %s' % (ks_call(op, a, sa), ks_call(op, b, sb), ks_call(op, a, sa)), 'seq.' + op + '-aba'
        yield 'c20.seq %s | %s | %s | %s' % (ks_call('ks.exactsum', a, sa), ks_call('ks.dynprog', a, sa), ks_call('ks.exactsum', b, sb), ks_call('ks.exactsum', a, sa)), 'seq.ks-mixed'
        l1 = [rng.randrange(0, 3) for _ in range(rng.randrange(1, 5))]; l2 = list(range(rng.randrange(1, 7)))
        p1 = rng.randrange(0, len(l1) + 1); p2 = rng.randrange(0, len(l2) + 1)
        m = rng.randrange(1, 4)
        yield 'c20.seq perms.combink.partial %s %d 0 %d | perms.combink %s %d 0' % (il(l1), p1, m, il(l2), p2), 'seq.combink-abandoned'
        yield 'c20.seq perms.combink %s %d 0 | perms.combink %s %d 0 | perms.combink %s %d 0' % (il(l2), p2, il(l1), p1, il(l2), p2), 'seq.combink-aba'
        yield 'c20.seq perms.combink %s %d 1 | perms.combink %s %d 0' % (il(l2), p2, il(l2), p2), 'seq.combink-kdeep'
        yield 'c20.seq perms.permutk %s 0 | perms.permutk %s 0 | perms.nextperm %s | perms.nextperm %s' % (il(l1), il(l1), il(l1), il(l1)), 'seq.perms'
        yield 'c20.seq perms.combink %s %d 0 | perms.combink %s 1 0' % (il(l1), len(l1) + 1, il(l2)), 'seq.combink-after-error'


def cases(tier, rng):
    if tier == 'search':
        while True:
            l = [rng.randrange(0, rng.choice([2, 3, 9])) for _ in range(rng.randrange(0, 7))]
            yield from perm_lines(l)
            yield 'perms.nextperm %s' % il(l), 'perms.nextperm'
            yield from comb_lines(l)
            yield from ks_lines(ritems(rng, rng.randrange(0, 7), distinct=rng.random() < 0.8))
            yield from seq_lines(rng, 1)
        return
    q = tier == 'quick'
    full = 5 if q else 6
    # ---- every list over {0,1,2} up to length `full`, all k, all p
    for n in range(0, full + 1):
        for l in lists_over((0, 1, 2), n):
            yield from perm_lines(l)
            yield from comb_lines(l)
    for n in range(0, 8):                                     # nextperm: every list over {0,1,2} up to length 7
        if q and n == 7: continue
        for l in lists_over((0, 1, 2), n): yield 'perms.nextperm %s' % il(l), 'perms.nextperm'
    if q:
        for _ in range(300): yield 'perms.nextperm %s' % il([rng.randrange(0, 3) for _ in range(7)]), 'perms.nextperm'
    # ---- distinct elements: every arrangement of 0..n-1 as input
    for n in range(0, 6 if q else 7):
        for t in itertools.permutations(range(n)):
            yield 'perms.nextperm %s' % il(t), 'perms.nextperm-distinct'
            if n <= 4:
                yield from perm_lines(list(t)); yield from comb_lines(list(t))
    for n in range(5, 8):
        l = list(range(n)); rng.shuffle(l)
        for k in range(0, n + 1):
            if n - k <= (5 if q else 7): yield 'perms.permutk %s %d' % (il(l), k), 'perms.permutk-distinct'
        yield from comb_lines(l)
    # longer lists over {0,1,2} and wider alphabets, negative ints
    for _ in range(20 if q else 300):
        n = rng.choice([6, 7]); l = [rng.randrange(0, 3) for _ in range(n)]
        for k in range(max(0, n - (5 if q else 6)), n + 1): yield 'perms.permutk %s %d' % (il(l), k), 'perms.permutk-long'
        yield from comb_lines(l)
    for _ in range(40 if q else 400):
        l = [rng.randrange(-3, 6) for _ in range(rng.randrange(0, 9))]
        yield 'perms.nextperm %s' % il(l), 'perms.nextperm-wide'
        yield from comb_lines(l)
    # outside the domain (code <-> model only): k beyond the length, negative k / p, p > n, k-deep combinations
    for l in ([], [5], [1, 2, 3], [0, 0, 1, 2]):
        n = len(l)
        for k in (n + 1, n + 3, -1): yield 'perms.permutk %s %d' % (il(l), k), 'perms.permutk-outside'
        for p, k in ((n + 1, 0), (-1, 0), (1, -1), (n, 1), (max(n - 1, 0), 1), (n, n), (1, 2), (2, 1), (0, 3)):
            yield 'perms.combink %s %d %d' % (il(l), p, k), 'perms.combink-outside'
    # ---- subset sums: item lists up to 6 with positive weights, every target 0..sum+1
    for n in range(0, 7):
        for _ in range((6 if q else 200) if n else 1):
            yield from ks_lines(ritems(rng, n, wmax=rng.choice([3, 6, 9])))
        for _ in range(2 if q else 20):
            yield from ks_lines(ritems(rng, n, wmax=4, distinct=False))
    for items in ([(1, 2)], [(1, 2), (2, 2)], [(1, 1), (2, 1), (3, 2)], [(1, 3), (2, 5), (3, 2), (4, 7)], [(1, 5), (1, 5), (2, 5)]):
        yield from ks_lines(items)
    for items in ([(1, 0), (2, 3)], [(1, -2), (2, 3), (3, 2)], [(1, 0)]):          # non-positive weights: tie only
        for line, tag in ks_lines(items, range(-1, 7)): yield line, tag + '-nonpos'
    yield from ks_lines([(1, 2), (2, 3)], [-1, -5])
    # ---- histories
    yield from seq_lines(rng, 40 if q else 2000)
    yield 'c20.seq perms.combink.partial l1 1 0 1 | perms.combink l1,2,3,4,5 3 0', 'seq.combink-abandoned'
    yield 'c20.seq ks.exactsum l1,2,3,4 l3,5,2,7 8 | ks.exactsum l1,2,3,4 l3,5,2,7 8', 'seq.ks.exactsum-twice'


def shrink(line):
    t = line.split()
    if t[0] == 'c20.seq':
        calls = split_bar(t[1:])
        for i in range(len(calls)):
            if len(calls) > 1: yield 'c20.seq ' + ' | '.join(' '.join(c) for c in calls[:i] + calls[i + 1:])
        if len(calls) == 1: yield ' '.join(calls[0])
        return
    if t[0].startswith('ks.'):
        ids, ws = unil(t[1]), unil(t[2])
        for i in range(len(ids)):
            yield ' '.join([t[0], il(ids[:i] + ids[i + 1:]), il(ws[:i] + ws[i + 1:]), t[3]])
        return
    l = unil(t[1])
    for i in range(len(l)):
        yield ' '.join([t[0], il(l[:i] + l[i + 1:])] + t[2:])


LEVEL_TEXT = ('Lean 4 theorems about Model.Perms / Model.Knapsack (hand-written mirrors of the repaired in-place algorithms of '
              'crysp/utils/perms.py and crysp/utils/knapsack.py, the list being explicit state and generators lists of yields) for every '
              'list, depth, p and target; tied to the current source by a correspondence stream that enumerates all lists over {0,1,2} '
              'up to length 5-7, all k and p, random item lists with every target, and call sequences in one process, and that evaluates '
              'itertools / brute-force references on the real code.')
LEVEL_NOTE = ('Trusted: Lean kernel; axioms ⊆ {propext, Classical.choice, Quot.sound}; Spec.Perms/Spec.Knapsack (perms/combs tied to Mathlib permutations/sublistsLen, nextArr tied to '
              'the successor theorems by nextperm_eq_nextArr); runcheck.py/props/C20.py. '
              'dynprog re-uses items (known finding C20-dynprog-reuse): proved minimal among collections WITH repetition only (dynprog_partial), '
              'with a kernel-checked witness that the result is not a sub-collection. Theorem list: evidence/C20.json coverage.theorems.')
TECHNIQUE = 'Lean 4 proof (induction over the in-place loops with closed forms of the rotations, list-permutation reasoning) + correspondence check with histories'
