"""C05 — ECB/CBC/CTR/CTS modes follow SP 800-38A and decrypt what they encrypt.

The modes of crysp/mode.py take ANY object with .blocksize/.enc/.dec, so the real mode code is driven with two toy
ciphers (ToyRot, ToyAff: keyed permutations of n-byte blocks, n in 8..128) that are mirrored line by line in
lean/Model/ToyCipher.lean: `mode …` lines are compared code <-> model <-> spec.  check_impl is the property's own
predicate on the implementation: an independent reference of SP 800-38A (+ padding, + ciphertext stealing) written
here on bytes, the round trip with an equally configured fresh object, and the length laws.  `modert …` lines run the
library's real ciphers (AES, DES, TDEA, Serpent, Threefish) through the real modes; their result is a summary
(`rt-ok len=…`) which the driver predicts from the length laws alone."""
from props.common import *

ID = 'C05'
LEAN_PROOFS = ['Proofs.C05']
GEN_ITEMS = []
RULE = ('op lines = (mode, cipher, block length, key, IV/counter, padding, enc|dec|rt, message); every mode x 2 toy ciphers x block '
        'lengths 8..128 x every residue of |M| mod block for 0..3 blocks x admissible paddings, counter halves at 2^k-1 / all-ones, '
        'malformed lengths; distinct lines; non-trivial = the implementation returned a value')
TRUSTED = ['Spec.Mode / Spec.ModePad are trusted as renderings of SP 800-38A (+Addendum) and PKCS#7 / X9.23 / ISO 9797-1 method 2',
           'the block cipher is abstract in the theorems: for a concrete cipher they apply once C03 supplies `Proofs.Lemmas.ModeL.Implements`',
           'CPython bytes slicing / BytesIO.read / generators are modelled (Model.Mode, Model.Padding), validated by this stream']
ASSUMPTIONS = ['python -O (asserts stripped) is out of scope',
               'block length < 256 bytes for PKCS#7 / X9.23 (a pad byte must hold the pad length); the library maximum is 128',
               'ECB/CBC with nopadding: domain = non-empty block multiples; CTS: |M| >= one block',
               'user-supplied counter objects other than None/bytes (-> DefaultCounter) are outside the model']
LINE_TIMEOUT = 120

MODES = ['ECB', 'CBC', 'CTR', 'CTS_ECB', 'CTS_CBC']
PADS = ['pkcs7', 'X923', 'bitpadding', 'nopadding']


# ---------------------------------------------------------------------------------------------
# toy ciphers (mirrored in lean/Model/ToyCipher.lean)
class ToyRot(object):
    def __init__(self, n, key):
        self.n, self.key, self.blocksize = n, key, 8 * n
    def enc(self, b):
        if len(b) != self.n: raise ValueError('block length')
        x = bytes(p ^ k for p, k in zip(b, self.key))
        return x[1:] + x[:1]
    def dec(self, y):
        if len(y) != self.n: raise ValueError('block length')
        x = y[-1:] + y[:-1]
        return bytes(p ^ k for p, k in zip(x, self.key))

class ToyAff(object):
    def __init__(self, n, key):
        self.n, self.key, self.blocksize = n, key, 8 * n
    def enc(self, b):
        if len(b) != self.n: raise ValueError('block length')
        return bytes(reversed([(5 * p + k) & 255 for p, k in zip(b, self.key)]))
    def dec(self, y):
        if len(y) != self.n: raise ValueError('block length')
        return bytes((205 * (c - k)) & 255 for c, k in zip(reversed(y), self.key))

TOYS = {'rot': ToyRot, 'aff': ToyAff}


def real_cipher(name, key):
    if name == 'AES':
        from crysp.aes import AES; return AES(key)
    if name == 'DES':
        from crysp.des import DES; return DES(key)
    if name == 'TDEA':
        from crysp.des import TDEA; return TDEA(key)
    if name == 'Serpent':
        from crysp.serpent import Serpent; return Serpent(key)
    if name == 'Threefish':
        from crysp.threefish import Threefish; return Threefish(key, bytes(range(16)))
    raise RuntimeError('unknown cipher ' + name)


def make_mode(mode, cipher, iv, pad):
    """an equally configured fresh mode object of the real library"""
    from crysp import mode as MO, padding as PA
    padcls = getattr(PA, pad)
    if mode == 'ECB': return MO.ECB(cipher, pad=padcls)
    if mode == 'CTS_ECB': return MO.CTS_ECB(cipher, pad=padcls)
    if mode == 'CBC': return MO.CBC(cipher, iv, pad=padcls)
    if mode == 'CTS_CBC': return MO.CTS_CBC(cipher, iv, pad=padcls)
    if mode == 'CTR':
        if pad != 'nopadding': raise RuntimeError('CTR takes no padding argument')
        return MO.CTR(cipher) if iv is None else MO.CTR(cipher, iv)
    raise RuntimeError('unknown mode ' + mode)


def parse(line):
    t = line.split()
    if t[0] == 'mode':
        _, mode, cid, n, key, iv, pad, verb, msg = t
    else:
        _, mode, cid, n, key, iv, pad, msg = t; verb = 'rtsum'
    return t[0], mode, cid, int(n), unhx(key), (None if iv == '-' else unhx(iv)), pad, verb, unhx(msg)


def run_impl(line):
    op, mode, cid, n, key, iv, pad, verb, msg = parse(line)
    if op == 'mode':
        mk = lambda: make_mode(mode, TOYS[cid](n, key), iv, pad)
        def go():
            if verb == 'enc': return hx(mk().enc(msg))
            if verb == 'dec': return hx(mk().dec(msg))
            if verb == 'rt': return hx(mk().dec(mk().enc(msg)))
            if verb == 'enc2':                      # second encryption on the same object (the padding iterator is reset)
                m = mk(); m.enc(msg); return hx(m.enc(msg))
            raise RuntimeError('verb ' + verb)
        return guarded(go)
    if op == 'modert':
        def go():
            c = real_cipher(cid, key)
            if c.blocksize != 8 * n: raise RuntimeError('block length token does not match the cipher')
            C = make_mode(mode, c, iv, pad).enc(msg)
            M = make_mode(mode, real_cipher(cid, key), iv, pad).dec(C)
            if M != msg: return 'rt-FAIL dec(enc(M)) != M'
            if mode in ('CBC', 'CTS_CBC') and C[:n] != iv: return 'rt-FAIL output does not start with the IV'
            return 'rt-ok len=%d' % len(C)
        return guarded(go)
    raise RuntimeError('unknown op ' + op)


# ---------------------------------------------------------------------------------------------
# independent reference: SP 800-38A on bytes over (E, D)
def r_xor(a, b): return bytes(x ^ y for x, y in zip(a, b))
def r_blocks(n, X): return [X[i:i + n] for i in range(0, len(X), n)]

def r_pad(pad, n, M):
    q = n - len(M) % n
    if pad == 'pkcs7': return M + bytes([q]) * q
    if pad == 'X923': return M + bytes(q - 1) + bytes([q])
    if pad == 'bitpadding': return M + b'\x80' + bytes(q - 1)
    if pad == 'nopadding': return M
    raise RuntimeError(pad)

def r_ecb(E, n, P): return b''.join(E(b) for b in r_blocks(n, P))
def r_cbc(E, n, iv, P):
    out, prev = [iv], iv
    for b in r_blocks(n, P):
        prev = E(r_xor(b, prev)); out.append(prev)
    return b''.join(out)
def r_counter(n, iv, j):
    h = n // 2; w = n - h
    return iv[:h] + ((int.from_bytes(iv[h:], 'big') + j) % (1 << (8 * w))).to_bytes(w, 'big')
def r_ctr(E, n, iv, M):
    return b''.join(r_xor(b, E(r_counter(n, iv, j))) for j, b in enumerate(r_blocks(n, M)))
def r_cts_ecb(E, n, M):
    P = r_blocks(n, M); d = len(P[-1])
    if d == n: return b''.join(E(b) for b in P)
    e = E(P[-2])
    return b''.join([E(b) for b in P[:-2]] + [E(P[-1] + e[d:]), e[:d]])
def r_cts_cbc(E, n, iv, M):
    d = len(M) % n or n
    C = r_blocks(n, r_cbc(E, n, iv, M + bytes(n - d)))     # C[0] = IV
    if d == n: return b''.join(C)
    return b''.join(C[:-2] + [C[-1], C[-2][:d]])

def in_domain(mode, n, key, iv, pad, msg):
    if pad not in PADS or len(key) != n: return False
    if mode in ('CBC', 'CTS_CBC') and (iv is None or len(iv) != n): return False
    if mode in ('ECB', 'CTS_ECB') and iv is not None: return False
    if mode in ('ECB', 'CBC'):
        return pad != 'nopadding' or (len(msg) % n == 0 and len(msg) > 0)
    if mode == 'CTR':
        return pad == 'nopadding' and ((iv is not None and len(iv) == n) or (iv is None and n % 2 == 0))
    return pad == 'nopadding' and len(msg) >= n

def reference(mode, E, n, iv, pad, msg):
    if mode == 'ECB': return r_ecb(E, n, r_pad(pad, n, msg))
    if mode == 'CBC': return r_cbc(E, n, iv, r_pad(pad, n, msg))
    if mode == 'CTR': return r_ctr(E, n, iv if iv is not None else bytes(n), msg)
    if mode == 'CTS_ECB': return r_cts_ecb(E, n, msg)
    if mode == 'CTS_CBC': return r_cts_cbc(E, n, iv, msg)

def law_len(mode, n, pad, mlen):
    padded = pad != 'nopadding'
    if mode == 'ECB': return (mlen // n + 1) * n if padded else mlen
    if mode == 'CBC': return ((mlen // n + 1) * n if padded else mlen) + n
    if mode in ('CTR', 'CTS_ECB'): return mlen
    if mode == 'CTS_CBC': return mlen + n


def check_impl(line, res):
    op, mode, cid, n, key, iv, pad, verb, msg = parse(line)
    bad = lambda why: '%s %s %s: %s' % (op, mode, verb, why)
    if op == 'modert':
        if not in_domain(mode, n, bytes(n), iv, pad, msg): return None
        exp = 'rt-ok len=%d' % law_len(mode, n, pad, len(msg))
        return None if res == exp else bad('got %s, expected %s' % (res, exp))
    if not in_domain(mode, n, key, iv, pad, msg): return None
    toy = TOYS[cid](n, key)
    if verb in ('enc', 'enc2'):
        if res == 'ERR': return bad('exception inside the domain')
        C = unhx(res)
        exp = reference(mode, toy.enc, n, iv, pad, msg)
        if len(C) != law_len(mode, n, pad, len(msg)): return bad('length %d, expected %d' % (len(C), law_len(mode, n, pad, len(msg))))
        if mode in ('CBC', 'CTS_CBC') and C[:n] != iv: return bad('output does not start with the IV')
        if C != exp: return bad('differs from SP 800-38A reference %s' % hx(exp))
        return None
    if verb == 'rt':
        return None if res == hx(msg) else bad('dec(enc(M)) = %s' % res)
    if verb == 'dec' and mode == 'CTR':
        exp = reference(mode, toy.enc, n, iv, pad, msg)
        return None if res == hx(exp) else bad('differs from reference')
    return None


# ---------------------------------------------------------------------------------------------
def rb(rng, k): return bytes(rng.getrandbits(8) for _ in range(k))

def mline(mode, cid, n, key, iv, pad, verb, msg):
    return 'mode %s %s %d %s %s %s %s %s' % (mode, cid, n, hx(key), '-' if iv is None else hx(iv), pad, verb, hx(msg))

def admissible(mode):
    if mode in ('ECB', 'CBC'): return PADS
    return ['nopadding']

def lengths(n, tier):
    """every residue mod n for 0..3 blocks (quick: all residues for small n, boundary residues for large n)"""
    if n <= 32 or tier != 'quick':
        return list(range(0, 3 * n + 2))
    s = set()
    for q in range(0, 4):
        for d in (0, 1, 2, n // 2, n - 2, n - 1):
            s.add(q * n + d)
    return sorted(x for x in s if x <= 3 * n + 1)

def counter_ivs(n, rng):
    h = n // 2; w = n - h
    out = [None, rb(rng, n)]
    full = (1 << (8 * w)) - 1
    for v in (full, full - 1, full - 2):
        out.append(rb(rng, h) + v.to_bytes(w, 'big'))
    ks = sorted({8, 16, 32, 8 * w - 8, 8 * w - 1} & set(range(1, 8 * w)))
    for k in ks:
        out.append(rb(rng, h) + ((1 << k) - 1).to_bytes(w, 'big'))
        out.append(rb(rng, h) + ((1 << k) - 2).to_bytes(w, 'big'))
    return out

def toy_cases(tier, rng, sizes, verbs=('enc', 'rt')):
    for n in sizes:
        for cid in ('rot', 'aff'):
            key = rb(rng, n)
            for mode in MODES:
                for pad in admissible(mode):
                    for L in lengths(n, tier):
                        if mode == 'CTR' and L > 0 and L % n == 0 and tier == 'quick' and n > 16 and L > n: pass
                        iv = rb(rng, n) if mode in ('CBC', 'CTS_CBC') else (rb(rng, n) if mode == 'CTR' and L % 3 else None)
                        msg = rb(rng, L)
                        tag = '%s/%s/%s' % (mode, pad, 'multiple' if L % n == 0 else 'residue')
                        for verb in verbs:
                            yield mline(mode, cid, n, key, iv, pad, verb, msg), tag


def ref_encrypt(mode, cid, n, key, iv, pad, msg):
    return reference(mode, TOYS[cid](n, key).enc, n, iv, pad, msg)

def dec_cases(tier, rng, sizes):
    """decryption of reference ciphertexts, of ciphertexts with damaged padding, and of malformed lengths"""
    for n in sizes:
        for cid in ('rot', 'aff'):
            key = rb(rng, n)
            toy = TOYS[cid](n, key)
            for mode in MODES:
                for pad in admissible(mode):
                    for L in sorted({0, 1, n - 1, n, n + 1, 2 * n - 1, 2 * n, 2 * n + n // 2, 3 * n}):
                        iv = rb(rng, n) if mode in ('CBC', 'CTS_CBC', 'CTR') else None
                        msg = rb(rng, L)
                        if in_domain(mode, n, key, iv, pad, msg):
                            C = ref_encrypt(mode, cid, n, key, iv, pad, msg)
                            yield mline(mode, cid, n, key, iv, pad, 'dec', C), 'dec/%s/%s/valid' % (mode, pad)
                            if mode in ('ECB', 'CBC') and pad != 'nopadding':
                                # damage the padding: last plaintext block chosen freely
                                for lastp in (bytes(n), bytes([n + 1]) * n, bytes(n - 1) + b'\x01', bytes(n - 2) + b'\x02\x02',
                                              bytes(n - 2) + b'\x01\x02', bytes(n - 1) + b'\x40', b'\x80' + bytes(n - 1), rb(rng, n)):
                                    if mode == 'ECB':
                                        Cd = C[:-n] + toy.enc(lastp)
                                    else:
                                        Cd = C[:-n] + toy.enc(r_xor(lastp, C[-2 * n:-n]))
                                    yield mline(mode, cid, n, key, iv, pad, 'dec', Cd), 'dec/%s/%s/damaged-pad' % (mode, pad)
                        # malformed ciphertext lengths
                        yield mline(mode, cid, n, key, iv, pad, 'dec', msg), 'dec/%s/%s/raw-length-%s' % (mode, pad, 'multiple' if L % n == 0 else 'residue')


def malformed_cases(tier, rng):
    for n in (8, 16):
        for cid in ('rot', 'aff'):
            key = rb(rng, n)
            # wrong IV / counter lengths
            for mode in ('CBC', 'CTS_CBC', 'CTR'):
                for ivl in (0, n - 1, n + 1, 2 * n):
                    for verb in ('enc', 'dec'):
                        yield mline(mode, cid, n, key, rb(rng, ivl), 'nopadding', verb, rb(rng, 2 * n)), 'malformed/iv-length'
            # messages outside the domain: CTS below one block, nopadding off a block boundary, empty nopadding
            for mode in ('CTS_ECB', 'CTS_CBC', 'ECB', 'CBC'):
                for L in (0, 1, n - 1, n + 3):
                    iv = rb(rng, n) if 'CBC' in mode else None
                    for verb in ('enc', 'rt'):
                        yield mline(mode, cid, n, key, iv, 'nopadding', verb, rb(rng, L)), 'malformed/out-of-domain-length'
            # stealing modes configured with a real padding scheme, Nullpadding on ECB/CBC (code <-> model only)
            for mode in ('CTS_ECB', 'CTS_CBC'):
                for pad in ('pkcs7', 'bitpadding'):
                    for L in (n, n + 3, 2 * n):
                        iv = rb(rng, n) if 'CBC' in mode else None
                        yield mline(mode, cid, n, key, iv, pad, 'enc', rb(rng, L)), 'malformed/cts-with-padding'
            for mode in ('ECB', 'CBC'):
                for L in (0, 3, n, n + 5):
                    iv = rb(rng, n) if 'CBC' in mode else None
                    for verb in ('enc', 'rt'):
                        yield mline(mode, cid, n, key, iv, 'Nullpadding', verb, rb(rng, L)), 'malformed/nullpadding'
    # odd block lengths (nonce/counter halves of different size; the default counter is one byte short)
    for n in (1, 3, 7):
        key = rb(rng, n)
        for iv in (None, rb(rng, n), b'\xff' * n):
            for L in (0, 1, n, 2 * n + 1):
                yield mline('CTR', 'rot', n, key, iv, 'nopadding', 'enc', rb(rng, L)), 'malformed/odd-block-ctr'
        for L in (0, 1, n, 2 * n + 1):
            yield mline('ECB', 'aff', n, key, None, 'pkcs7', 'rt', rb(rng, L)), 'odd-block-ecb'
            yield mline('CBC', 'aff', n, key, rb(rng, n), 'X923', 'rt', rb(rng, L)), 'odd-block-cbc'


REAL = [('AES', 16, 16), ('AES', 16, 24), ('AES', 16, 32), ('DES', 8, 8), ('TDEA', 8, 16), ('Serpent', 16, 16), ('Serpent', 16, 32),
        ('Threefish', 32, 32), ('Threefish', 64, 64), ('Threefish', 128, 128)]

def real_cases(tier, rng):
    for name, n, kl in REAL:
        slow = name in ('Serpent', 'Threefish', 'TDEA')
        if tier == 'quick':
            Ls = [0, 1, n - 1, n, n + 1, 2 * n, 2 * n + n // 2] if not slow else [0, n - 1, n, n + 1, 2 * n]
        else:
            Ls = list(range(0, 3 * n + 2)) if n <= 16 and not slow else sorted({q * n + d for q in range(4) for d in (0, 1, n // 2, n - 1)})
        key = rb(rng, kl)
        for mode in MODES:
            pads = admissible(mode)
            if tier == 'quick' and slow: pads = pads[:1] + pads[-1:] if len(pads) > 1 else pads
            for pad in pads:
                for L in Ls:
                    iv = rb(rng, n) if mode in ('CBC', 'CTS_CBC') else None
                    if mode == 'CTR':
                        w = n - n // 2
                        iv = [None, rb(rng, n), rb(rng, n // 2) + b'\xff' * w, rb(rng, n // 2) + b'\xff' * (w - 1) + b'\xfe'][L % 4]
                    msg = rb(rng, L)
                    if not in_domain(mode, n, bytes(n), iv, pad, msg): continue
                    yield ('modert %s %s %d %s %s %s %s' % (mode, name, n, hx(key), '-' if iv is None else hx(iv), pad, hx(msg)),
                           'real/%s/%s' % (name, mode))


def twice_cases(tier, rng):
    for n in (8, 16):
        for cid in ('rot', 'aff'):
            key = rb(rng, n)
            for mode in MODES:
                for pad in admissible(mode):
                    for L in (n, n + 3, 2 * n):
                        iv = rb(rng, n) if mode in ('CBC', 'CTS_CBC', 'CTR') else None
                        yield mline(mode, cid, n, key, iv, pad, 'enc2', rb(rng, L)), 'second-enc-same-object'


def counter_cases(tier, rng, sizes):
    for n in sizes:
        for cid in ('rot', 'aff'):
            key = rb(rng, n)
            for iv in counter_ivs(n, rng):
                for L in (2 * n + 3, 4 * n):
                    msg = rb(rng, L)
                    yield mline('CTR', cid, n, key, iv, 'nopadding', 'enc', msg), 'ctr/counter-boundary'
                    yield mline('CTR', cid, n, key, iv, 'nopadding', 'rt', msg), 'ctr/counter-boundary'


def random_cases(tier, rng, count):
    """seeded random stream: messages up to 5 blocks (quick) / 16 blocks (thorough), random keys, IVs, counters"""
    maxb = 5 if tier == 'quick' else 16
    sizes = [8, 16, 16, 32, 64, 128] if tier == 'quick' else [8, 16, 16, 32, 64, 128, 2, 4, 6, 12, 24, 48]
    for _ in range(count):
        n = rng.choice(sizes)
        cid = rng.choice(['rot', 'aff'])
        mode = rng.choice(MODES)
        pad = rng.choice(admissible(mode))
        key = rb(rng, n)
        L = rng.choice([rng.randrange(0, maxb * n + 1), rng.randrange(0, maxb + 1) * n, rng.randrange(0, 2 * n + 1)])
        iv = rb(rng, n) if mode in ('CBC', 'CTS_CBC') else None
        if mode == 'CTR':
            w = n - n // 2
            iv = rng.choice([None, rb(rng, n), rb(rng, n // 2) + ((1 << (8 * w)) - 1 - rng.randrange(0, maxb + 1)).to_bytes(w, 'big')])
        msg = rb(rng, L)
        verb = rng.choice(['enc', 'rt', 'rt', 'enc2', 'dec'])
        if verb == 'dec':
            if not in_domain(mode, n, key, iv, pad, msg): continue
            msg = ref_encrypt(mode, cid, n, key, iv, pad, msg)
        yield mline(mode, cid, n, key, iv, pad, verb, msg), 'random/%s/%s' % (mode, verb)


def cases(tier, rng):
    if tier == 'search':
        while True:
            n = rng.choice([8, 16, 16, 32, 64, 128])
            yield from toy_cases('quick', rng, [n])
            yield from random_cases('thorough', rng, 500)
            yield from counter_cases('quick', rng, [n])
            yield from dec_cases('quick', rng, [n])
            yield from real_cases('quick', rng)
        return
    sizes = [8, 16, 32, 64, 128]
    yield from toy_cases(tier, rng, sizes)
    yield from counter_cases(tier, rng, sizes)
    yield from dec_cases(tier, rng, sizes)
    yield from malformed_cases(tier, rng)
    yield from twice_cases(tier, rng)
    yield from random_cases(tier, rng, 4000 if tier == 'quick' else 60000)
    yield from real_cases(tier, rng)
    if tier == 'thorough':
        # second, independent key/IV/message draw and a block length outside the library's set
        yield from toy_cases('quick', rng, [8, 16, 24, 32, 64, 128])
        yield from toy_cases(tier, rng, [2, 4, 6, 12])
        yield from dec_cases(tier, rng, [24, 12])


def shrink(line):
    t = line.split()
    msg = t[-1]
    if len(msg) > 3:
        yield ' '.join(t[:-1] + ['x' + msg[3:]])
        yield ' '.join(t[:-1] + [msg[:-2]])
        yield ' '.join(t[:-1] + ['x' + '00' * ((len(msg) - 1) // 2)])


LEVEL_TEXT = ('Lean 4 theorems about Model.Mode (the hand-written mirror of crysp/mode.py over an abstract block cipher) for every cipher '
              'satisfying the permutation hypotheses, every key/IV/counter block and every message length; the model is tied to the current '
              'source by a correspondence stream that drives the real mode code with toy ciphers of block length 8..128 bytes and the real '
              'AES/DES/TDEA/Serpent/Threefish objects, and evaluates an independent SP 800-38A reference on the real code.')
LEVEL_NOTE = ('Trusted: Lean kernel; axioms within {propext, Classical.choice, Quot.sound}; Spec.Mode/Spec.ModePad as renderings of SP 800-38A, its '
              'addendum and the padding methods; extract.py/runcheck.py/props/C05.py. The cipher is abstract: instantiation for AES/DES/TDEA/'
              'Serpent/Threefish needs the C03 permutation theorems. Theorem list: evidence/C05.json coverage.theorems.')
TECHNIQUE = 'Lean 4 proof (induction over block lists, abstract cipher refinement) + correspondence check with toy and real ciphers'
