"""C05 — ECB/CBC/CTR/CTS modes follow SP 800-38A and decrypt what they encrypt.

`mode …` lines are compared code <-> model <-> spec, with two kinds of block cipher:
  * the library's own AES / DES / TDEA (every calling form) / Serpent / Threefish-256/512/1024 (key + tweak) objects: the
    real mode objects run over the real cipher objects; the driver answers with Model.Mode over the Lean cipher models
    (model column) and with Spec.Mode (SP 800-38A) over the Spec ciphers FIPS 197 / FIPS 46-3 / SP 800-67 / the Serpent
    submission / Threefish of Skein 1.3 (spec column);
  * two toy ciphers (ToyRot, ToyAff: keyed permutations of n-byte blocks, n in 8..128, mirrored line by line in
    lean/Model/ToyCipher.lean), because the modes take ANY object with .blocksize/.enc/.dec and the library's block
    lengths are only 8, 16 and (Threefish) 32/64/128 bytes.
check_impl is the property's own predicate on the implementation: an independent reference of SP 800-38A (+ padding,
+ ciphertext stealing) written here on bytes over the cipher object's block function, the round trip with an equally
configured fresh object, the length laws, and the printed ciphertexts of SP 800-38A appendix F for the F.1/F.2/F.5
lines of corpus/C05.ops.  `modert …` lines (round-trip summaries `rt-ok len=…`, which the driver predicts from the length
laws alone) are still understood for replaying old evidence; no generator emits them any more: Threefish runs through
`mode … THREEFISH <blockbytes> x<key>,x<tweak> …` lines like every other cipher.

Verbs dd / ee: three decryptions / three encryptions and a decryption on ONE object of any mode (the message, the message with its
blocks reversed, the message again), judged call by call.

Repeated blocks (`repeat-*` tags): raw ciphertexts in which one block occurs at several positions (IV|B|B, IV|A|B|A, IV|IV|…, with
nopadding and with paddings whose last block is well-formed by construction) and messages crafted with the cipher's own enc so
that the ciphertext repeats a block (CBC: M2 = M1 ^ IV ^ E(M1 ^ IV)) or that repeat plaintext blocks - a per-block shortcut in a mode
is invisible on random data.  check_impl decrypts ECB/CBC ciphertexts with its own left-to-right reference.

`ctrseq <cipher> <n> <key> <counter|-> <step> …` lines: ONE CTR object through a history of public calls (enc, dec, dec of the latest
ciphertext, counter.setup, assignment of a new DefaultCounter, counter.reset, counter()); the driver threads Model.Mode.CTR.Obj
through the steps (model column) and keeps only the counter block in force for Spec.Mode.ctrOf (spec column); check_impl evaluates
SP 800-38A CTR on the counter block in force at each step with its own bookkeeping.

`modeseq <mode> <cipher> <n> <key> <iv|-> <padding> <step> …` lines: ONE ECB / CBC / CTS_ECB / CTS_CBC object through a history of
enc / dec calls (`e:<M>`, `d:<C>`, `d:#k` = decrypt what step k returned): messages of DIFFERENT length residues between the steps,
earlier ciphertexts decrypted after later encryptions, decryption on an object that has never encrypted, refused calls in between.
The driver threads Model.Mode.Seq.Obj (the state of `self.pad`) through the steps; the spec column is SP 800-38A per step; check_impl
judges every step as if it were the only call on a new object and requires dec(#k) = M_k.  Nullpadding (whose `remove` reads the pad
count of the latest enc: known finding C10-nullpad-remove) is compared code <-> model only."""
from props.common import *

ID = 'C05'
LEAN_PROOFS = ['Proofs.C05', 'Proofs.C05.KatF']
GEN_ITEMS = []
RULE = ('op lines = (mode, cipher, block length, key, IV/counter, padding, enc|dec|rt|er, message); every mode x {AES-128/192/256, DES, '
        'TDEA in its 5 calling forms, Serpent with several key lengths, Threefish-256/512/1024 with key and tweak, 2 toy ciphers x block '
        'lengths 8..128} x every residue of |M| mod block for 0..3 blocks (Threefish: 0..2 blocks, quick tier: boundary residues) x '
        'admissible paddings, counter halves at 2^k-1 / all-ones (16/32/64-byte halves for Threefish), SP 800-38A appendix F vectors, '
        'damaged paddings, malformed lengths / keys / tweaks; ciphertexts and messages that repeat a block in every position pattern '
        '(raw dec lines, messages crafted so that the ciphertext repeats a block); histories of calls on ONE CTR object (enc/dec, '
        'counter.setup / assignment / reset / call in between, short-long-short messages); histories of enc / dec calls on ONE ECB / CBC / CTS '
        'object (messages of different length residues, earlier ciphertexts decrypted after later encryptions, decryption before any '
        'encryption, refused calls in between; every padding); distinct lines; non-trivial = the '
        'implementation returned a value')
TRUSTED = ['Spec.Mode / Spec.ModePad are trusted as renderings of SP 800-38A (+Addendum) and PKCS#7 / X9.23 / ISO 9797-1 method 2 '
           '(Spec.ModePad is proved equal to Spec.Padding of C09 on byte strings; appendix F vectors are checked against Spec.Mode over Spec.Aes)',
           'Spec.Aes / Spec.Des / Spec.Serpent / Spec.Threefish as renderings of FIPS 197 / FIPS 46-3 + SP 800-67 / the Serpent submission / '
           'Skein 1.3 section 3.3 (properties C02, C03)',
           'CPython bytes slicing / BytesIO.read / generators are modelled (Model.Mode, Model.Padding), validated by this stream']
ASSUMPTIONS = ['python -O (asserts stripped) is out of scope',
               'block length < 256 bytes for PKCS#7 / X9.23 (a pad byte must hold the pad length); the library maximum is 128',
               'ECB/CBC with nopadding: domain = non-empty block multiples; CTS: |M| >= one block',
               'user-supplied counter objects other than None/bytes (-> DefaultCounter) are outside the model']
LINE_TIMEOUT = 120

MODES = ['ECB', 'CBC', 'CTR', 'CTS_ECB', 'CTS_CBC']
PADS = ['pkcs7', 'X923', 'bitpadding', 'nopadding']


# ---------------------------------------------------------------------------------------------
# toy ciphers (mirrored in lean/Model/ToyCipher.lean)
class ToyRot(object):
    def __init__(self, n, key):
        self.n, self.key, self.blocksize = n, key, 8 * n
    def enc(self, b):
        if len(b) != self.n: raise ValueError('block length')
        x = bytes(p ^ k for p, k in zip(b, self.key))
        return x[1:] + x[:1]
    def dec(self, y):
        if len(y) != self.n: raise ValueError('block length')
        x = y[-1:] + y[:-1]
        return bytes(p ^ k for p, k in zip(x, self.key))

class ToyAff(object):
    def __init__(self, n, key):
        self.n, self.key, self.blocksize = n, key, 8 * n
    def enc(self, b):
        if len(b) != self.n: raise ValueError('block length')
        return bytes(reversed([(5 * p + k) & 255 for p, k in zip(b, self.key)]))
    def dec(self, y):
        if len(y) != self.n: raise ValueError('block length')
        return bytes((205 * (c - k)) & 255 for c, k in zip(reversed(y), self.key))

TOYS = {'rot': ToyRot, 'aff': ToyAff}


def real_cipher(name, key):
    if name == 'AES':
        from crysp.aes import AES; return AES(key)
    if name == 'DES':
        from crysp.des import DES; return DES(key)
    if name == 'TDEA':
        from crysp.des import TDEA; return TDEA(key)
    if name == 'Serpent':
        from crysp.serpent import Serpent; return Serpent(key)
    if name == 'Threefish':
        from crysp.threefish import Threefish; return Threefish(key, bytes(range(16)))
    raise RuntimeError('unknown cipher ' + name)


REALC = {'AES': (16,), 'DES': (8,), 'TDEA': (8,), 'SERPENT': (16,), 'THREEFISH': (32, 64, 128)}      # cipher token of `mode` lines -> block bytes

def token_ok(cid, n, keys):
    """the block length token of a real cipher is the one an accepted key gives the object (Threefish: blocksize = key size);
    an unacceptable key must make the constructor raise whatever the token says"""
    if n not in REALC.get(cid, ()): return False
    if cid == 'THREEFISH' and len(keys[0]) in REALC[cid] and len(keys[0]) != n: return False
    return True

def cipher_obj(cid, n, keys):
    """the cipher object of a `mode` line: a toy, or a real cipher of the library built the way a user builds it"""
    if cid in TOYS:
        if len(keys) != 1: raise RuntimeError('toy key')
        return TOYS[cid](n, keys[0])
    if not token_ok(cid, n, keys): raise RuntimeError('block length token does not match the cipher')
    if cid == 'TDEA':
        from crysp.des import TDEA
        if not 1 <= len(keys) <= 3: raise RuntimeError('TDEA key token')
        return TDEA(*keys)
    if cid == 'THREEFISH':
        from crysp.threefish import Threefish
        if len(keys) != 2: raise RuntimeError('THREEFISH key token (x<key>,x<tweak>)')
        return Threefish(keys[0], keys[1])
    if len(keys) != 1: raise RuntimeError('key token')
    return real_cipher({'AES': 'AES', 'DES': 'DES', 'SERPENT': 'Serpent'}[cid], keys[0])

_REF = {}
def reference_E(cid, n, keys):
    """block function for the independent reference (one object per key and worker: the reference may keep its key schedule)"""
    k = (cid, n, tuple(keys))
    if k not in _REF:
        if len(_REF) > 64: _REF.clear()
        _REF[k] = cipher_obj(cid, n, keys).enc
    return _REF[k]

def reference_D(cid, n, keys):
    """inverse block function for the independent reference decryption"""
    k = ('D', cid, n, tuple(keys))
    if k not in _REF:
        if len(_REF) > 64: _REF.clear()
        _REF[k] = cipher_obj(cid, n, keys).dec
    return _REF[k]

def key_ok(cid, n, keys):
    """keys the cipher (toy: the toy of block length n) is defined for"""
    if cid in TOYS: return len(keys) == 1 and len(keys[0]) == n
    if cid == 'AES': return len(keys[0]) in (16, 24, 32)
    if cid == 'DES': return len(keys[0]) == 8
    if cid == 'SERPENT': return len(keys[0]) <= 32
    if cid == 'THREEFISH': return len(keys) == 2 and n in (32, 64, 128) and len(keys[0]) == n and len(keys[1]) == 16
    if cid == 'TDEA':
        if len(keys) == 1: return len(keys[0]) in (8, 16, 24)
        return all(len(k) == 8 for k in keys)
    return False


def make_mode(mode, cipher, iv, pad):
    """an equally configured fresh mode object of the real library"""
    from crysp import mode as MO, padding as PA
    padcls = getattr(PA, pad)
    if mode == 'ECB': return MO.ECB(cipher, pad=padcls)
    if mode == 'CTS_ECB': return MO.CTS_ECB(cipher, pad=padcls)
    if mode == 'CBC': return MO.CBC(cipher, iv, pad=padcls)
    if mode == 'CTS_CBC': return MO.CTS_CBC(cipher, iv, pad=padcls)
    if mode == 'CTR':
        if pad != 'nopadding': raise RuntimeError('CTR takes no padding argument')
        return MO.CTR(cipher) if iv is None else MO.CTR(cipher, iv)
    raise RuntimeError('unknown mode ' + mode)


def parse(line):
    """key: for `mode` lines the list of key strings (one, or the 1..3 arguments of TDEA), for `modert` one string"""
    t = line.split()
    if t[0] == 'mode':
        _, mode, cid, n, key, iv, pad, verb, msg = t
        key = [unhx(k) for k in key.split(',')]
    else:
        _, mode, cid, n, key, iv, pad, msg = t; verb = 'rtsum'
        key = unhx(key)
    return t[0], mode, cid, int(n), key, (None if iv == '-' else unhx(iv)), pad, verb, unhx(msg)


# ---- `ctrseq <cipher> <blockbytes> <key> <counter or -> <step> …`: ONE CTR object through a history of public calls
def opt(t): return None if t == '-' else unhx(t)
def hxo(b): return '-' if b is None else hx(b)

def parse_seq(line):
    t = line.split()
    cid, n, key, ctor = t[1], int(t[2]), [unhx(k) for k in t[3].split(',')], opt(t[4])
    steps = []
    for st in t[5:]:
        f = st.split(':')
        if f[0] in ('e', 'd') and len(f) == 2: steps.append((f[0], unhx(f[1])))
        elif f[0] == 's' and len(f) == 3: steps.append(('s', opt(f[1]), opt(f[2])))
        elif f[0] == 'a' and len(f) == 2: steps.append(('a', opt(f[1])))
        elif st in ('r', 'c', 'b'): steps.append((st,))
        else: raise RuntimeError('step ' + st)
    if not steps: raise RuntimeError('no step')
    return cid, n, key, ctor, steps

def seq_line(cid, n, keys, ctor, steps):
    toks = []
    for st in steps:
        if st[0] in ('e', 'd'): toks.append('%s:%s' % (st[0], hx(st[1])))
        elif st[0] == 's': toks.append('s:%s:%s' % (hxo(st[1]), hxo(st[2])))
        elif st[0] == 'a': toks.append('a:%s' % hxo(st[1]))
        else: toks.append(st[0])
    return 'ctrseq %s %d %s %s %s' % (cid, n, ','.join(hx(k) for k in keys), hxo(ctor), ' '.join(toks))

def run_seq(line):
    import io, contextlib
    from crysp import mode as MO
    cid, n, key, ctor, steps = parse_seq(line)
    if cid not in TOYS and not token_ok(cid, n, key): raise RuntimeError('block length token does not match the cipher')
    cipher = None
    def build():
        nonlocal cipher
        cipher = cipher_obj(cid, n, key)
        return MO.CTR(cipher) if ctor is None else MO.CTR(cipher, ctor)
    box = []
    if guarded(lambda: box.append(build()) or 'ok') == 'ERR': return 'ERR'
    obj, last, out = box[0], [b''], []
    for st in steps:
        def go():
            k = st[0]
            if k == 'e':
                C = obj.enc(st[1]); last[0] = C; return hx(C)
            if k == 'd': return hx(obj.dec(st[1]))
            if k == 'b': return hx(obj.dec(last[0]))
            if k == 's': obj.counter.setup(st[1], st[2]); return '.'
            if k == 'a':
                obj.counter = MO.DefaultCounter(obj.len) if st[1] is None else MO.DefaultCounter(obj.len, st[1]); return '.'
            if k == 'r': obj.counter.reset(); return '.'
            if k == 'c':
                with contextlib.redirect_stdout(io.StringIO()):      # `__call__` prints a hint when there is no count yet
                    r = obj.counter()
                return 'None' if r is None else hx(r)
        out.append(guarded(go))
    return ';'.join(out)


# ---- `modeseq <mode> <cipher> <blockbytes> <key> <iv or -> <padding> <step> …`: ONE ECB/CBC/CTS object through a history of calls
SEQ_MODES = ('ECB', 'CBC', 'CTS_ECB', 'CTS_CBC')

def parse_mseq(line):
    t = line.split()
    mode, cid, n, key, iv, pad = t[1], t[2], int(t[3]), [unhx(k) for k in t[4].split(',')], opt(t[5]), t[6]
    if mode not in SEQ_MODES: raise RuntimeError('mode ' + mode)
    steps = []
    for st in t[7:]:
        if st.startswith('e:'): steps.append(('e', unhx(st[2:])))
        elif st.startswith('d:#'): steps.append(('r', int(st[3:])))
        elif st.startswith('d:'): steps.append(('d', unhx(st[2:])))
        else: raise RuntimeError('step ' + st)
    if not steps: raise RuntimeError('no step')
    return mode, cid, n, key, iv, pad, steps

def mseq_line(mode, cid, n, keys, iv, pad, steps):
    toks = ['e:' + hx(st[1]) if st[0] == 'e' else 'd:' + hx(st[1]) if st[0] == 'd' else 'd:#%d' % st[1] for st in steps]
    return 'modeseq %s %s %d %s %s %s %s' % (mode, cid, n, ','.join(hx(k) for k in keys), hxo(iv), pad, ' '.join(toks))

def run_mseq(line):
    mode, cid, n, key, iv, pad, steps = parse_mseq(line)
    if cid not in TOYS and not token_ok(cid, n, key): raise RuntimeError('block length token does not match the cipher')
    if (iv is not None) != (mode in ('CBC', 'CTS_CBC')): raise RuntimeError('iv token')
    box = []
    if guarded(lambda: box.append(make_mode(mode, cipher_obj(cid, n, key), iv, pad)) or 'ok') == 'ERR': return 'ERR'
    obj, outs = box[0], []
    for st in steps:
        def go():
            if st[0] == 'e': return hx(obj.enc(st[1]))
            if st[0] == 'd': return hx(obj.dec(st[1]))
            k = st[1]
            prev = outs[k - 1] if 1 <= k <= len(outs) else 'ERR'
            return hx(obj.dec(b'' if prev == 'ERR' else unhx(prev)))
        outs.append(guarded(go))
    return ';'.join(outs)

def check_mseq(line, res):
    """every step is judged as if it were the ONLY call on a new, equally configured object (the single-call predicates of
    `mode … enc` / `mode … dec` lines: SP 800-38A reference, length laws, block-by-block decryption, padding taken off or refused),
    and dec(#k) of an in-domain enc step k must give that step's message back, whatever the object did in between"""
    mode, cid, n, key, iv, pad, steps = parse_mseq(line)
    if n < 1 or pad not in PADS: return None            # Nullpadding: code <-> model only (known finding C10-nullpad-remove)
    t = line.split()
    head = ['mode'] + t[1:7]
    adm = key_ok(cid, n, key) and ((iv is None) if mode in ('ECB', 'CTS_ECB') else (iv is not None and len(iv) == n))
    if not adm: return None if res == 'ERR' else 'modeseq: a constructor accepted a key / IV it must refuse'
    if res == 'ERR' and len(steps) > 1: return 'modeseq: the constructor raised for an admissible configuration'
    outs = res.split(';')          # (a one-step line: `ERR` is the result of the step)
    if len(outs) != len(steps): return 'modeseq: %d results for %d steps' % (len(outs), len(steps))
    for i, (st, got) in enumerate(zip(steps, outs)):
        where = 'modeseq step %d of %d on one object (%s)' % (i + 1, len(steps), t[7 + i][:40])
        if st[0] == 'e':
            r = check_impl(' '.join(head + ['enc', hx(st[1])]), got)
            if r: return '%s: %s' % (where, r)
            continue
        if st[0] == 'd': X = st[1]
        else:
            k = st[1]
            prev = outs[k - 1] if 1 <= k <= i else 'ERR'
            X = b'' if prev == 'ERR' else unhx(prev)
            if 1 <= k <= i and steps[k - 1][0] == 'e' and prev != 'ERR' and in_domain(mode, n, key, iv, pad, steps[k - 1][1], cid):
                if got != hx(steps[k - 1][1]):
                    return '%s: dec(ciphertext of step %d) = %s, the message was %s' % (where, k, got, hx(steps[k - 1][1]))
        r = check_impl(' '.join(head + ['dec', hx(X)]), got)
        if r: return '%s: %s' % (where, r)
    return None


def rev_blocks(n, X, keep):
    """X with its whole blocks in reverse order (keep: the first block - the IV - stays in front; a partial tail stays behind)"""
    head = X[:n] if keep else b''
    body = X[len(head):]
    q = len(body) // n
    return head + b''.join(reversed([body[i * n:(i + 1) * n] for i in range(q)])) + body[q * n:]

def run_impl(line):
    if line.startswith('ctrseq '): return run_seq(line)
    if line.startswith('modeseq '): return run_mseq(line)
    op, mode, cid, n, key, iv, pad, verb, msg = parse(line)
    if op == 'mode':
        if cid not in TOYS and not token_ok(cid, n, key): raise RuntimeError('block length token does not match the cipher')
        if verb not in ('enc', 'dec', 'rt', 'enc2', 'er', 'xd', 'dd', 'ee'): raise RuntimeError('verb ' + verb)
        mk = lambda: make_mode(mode, cipher_obj(cid, n, key), iv, pad)
        def go():
            if verb == 'enc': return hx(mk().enc(msg))
            if verb == 'dec': return hx(mk().dec(msg))
            if verb == 'rt': return hx(mk().dec(mk().enc(msg)))
            if verb == 'er':                        # ciphertext and its decryption by an equally configured fresh object
                C = mk().enc(msg); return hx(C) + ';' + hx(mk().dec(C))
            if verb == 'enc2':                      # second encryption on the same object (the padding iterator is reset)
                m = mk(); m.enc(msg); return hx(m.enc(msg))
            if verb == 'xd':                        # msg = an already 'padded' plaintext: encrypt it as it is, decrypt with the scheme
                C = make_mode(mode, cipher_obj(cid, n, key), iv, 'nopadding').enc(msg)
                return hx(mk().dec(C))
        if verb in ('dd', 'ee'):
            # ONE object of any mode used three (four) times: whatever it keeps from a call must not show in the next one.
            #   dd: dec(C), dec(C with its blocks behind the IV reversed: same blocks, other neighbours), dec(C)
            #   ee: C1 = enc(M), enc(M with its blocks reversed), enc(M), dec(C1)
            box = []
            if guarded(lambda: box.append(mk()) or 'ok') == 'ERR': return ';'.join(['ERR'] * (3 if verb == 'dd' else 4))
            m, out, c1 = box[0], [], []
            keep = mode in ('CBC', 'CTS_CBC')
            if verb == 'dd':
                for X in (msg, rev_blocks(n, msg, keep), msg): out.append(guarded(lambda: hx(m.dec(X))))
            else:
                for X in (msg, rev_blocks(n, msg, False), msg):
                    def one():
                        C = m.enc(X)
                        if not c1: c1.append(C)
                        return hx(C)
                    out.append(guarded(one))
                out.append(guarded(lambda: hx(m.dec(c1[0]))) if c1 else 'ERR')
            return ';'.join(out)
        return guarded(go)
    if op == 'modert':
        def go():
            c = real_cipher(cid, key)
            if c.blocksize != 8 * n: raise RuntimeError('block length token does not match the cipher')
            C = make_mode(mode, c, iv, pad).enc(msg)
            M = make_mode(mode, real_cipher(cid, key), iv, pad).dec(C)
            if M != msg: return 'rt-FAIL dec(enc(M)) != M'
            if mode in ('CBC', 'CTS_CBC') and C[:n] != iv: return 'rt-FAIL output does not start with the IV'
            return 'rt-ok len=%d' % len(C)
        return guarded(go)
    raise RuntimeError('unknown op ' + op)


# ---------------------------------------------------------------------------------------------
# independent reference: SP 800-38A on bytes over (E, D)
def r_xor(a, b): return bytes(x ^ y for x, y in zip(a, b))
def r_blocks(n, X): return [X[i:i + n] for i in range(0, len(X), n)]

def r_pad(pad, n, M):
    q = n - len(M) % n
    if pad == 'pkcs7': return M + bytes([q]) * q
    if pad == 'X923': return M + bytes(q - 1) + bytes([q])
    if pad == 'bitpadding': return M + b'\x80' + bytes(q - 1)
    if pad == 'nopadding': return M
    raise RuntimeError(pad)

def r_ecb(E, n, P): return b''.join(E(b) for b in r_blocks(n, P))
def r_cbc(E, n, iv, P):
    out, prev = [iv], iv
    for b in r_blocks(n, P):
        prev = E(r_xor(b, prev)); out.append(prev)
    return b''.join(out)
def r_counter(n, iv, j):
    h = n // 2; w = n - h
    return iv[:h] + ((int.from_bytes(iv[h:], 'big') + j) % (1 << (8 * w))).to_bytes(w, 'big')
def r_ctr(E, n, iv, M):
    return b''.join(r_xor(b, E(r_counter(n, iv, j))) for j, b in enumerate(r_blocks(n, M)))
def r_cts_ecb(E, n, M):
    P = r_blocks(n, M); d = len(P[-1])
    if d == n: return b''.join(E(b) for b in P)
    e = E(P[-2])
    return b''.join([E(b) for b in P[:-2]] + [E(P[-1] + e[d:]), e[:d]])
def r_cts_cbc(E, n, iv, M):
    d = len(M) % n or n
    C = r_blocks(n, r_cbc(E, n, iv, M + bytes(n - d)))     # C[0] = IV
    if d == n: return b''.join(C)
    return b''.join(C[:-2] + [C[-1], C[-2][:d]])

def r_ecb_dec(D, n, C): return b''.join(D(b) for b in r_blocks(n, C))
def r_cbc_dec(D, n, C):
    """SP 800-38A 6.2 decryption, left to right: P_j = CIPH^-1(C_j) xor C_{j-1}; C_0 = the first block of the input"""
    B = r_blocks(n, C)
    return b''.join(r_xor(D(B[j]), B[j - 1]) for j in range(1, len(B)))

def unpad_candidate(pad, n, P):
    """the message M with r_pad(pad, n, M) == P, or None"""
    if not P: return None
    if pad in ('pkcs7', 'X923'):
        q = P[-1]
        M = P[:-q] if 1 <= q <= len(P) else None
    else:
        M = P.rstrip(b'\x00')
        M = M[:-1] if M.endswith(b'\x80') else None
    return M if M is not None and r_pad(pad, n, M) == P else None

def in_domain(mode, n, key, iv, pad, msg, cid='rot'):
    """key: list of key strings (a bytes object = one toy/`modert` key of block length)"""
    if isinstance(key, (bytes, bytearray)): key = [bytes(key)]
    if pad not in PADS or not key_ok(cid, n, key): return False
    if mode in ('CBC', 'CTS_CBC') and (iv is None or len(iv) != n): return False
    if mode in ('ECB', 'CTS_ECB') and iv is not None: return False
    if mode in ('ECB', 'CBC'):
        return pad != 'nopadding' or (len(msg) % n == 0 and len(msg) > 0)
    if mode == 'CTR':
        return pad == 'nopadding' and ((iv is not None and len(iv) == n) or (iv is None and n % 2 == 0))
    return pad == 'nopadding' and len(msg) >= n

def reference(mode, E, n, iv, pad, msg):
    if mode == 'ECB': return r_ecb(E, n, r_pad(pad, n, msg))
    if mode == 'CBC': return r_cbc(E, n, iv, r_pad(pad, n, msg))
    if mode == 'CTR': return r_ctr(E, n, iv if iv is not None else bytes(n), msg)
    if mode == 'CTS_ECB': return r_cts_ecb(E, n, msg)
    if mode == 'CTS_CBC': return r_cts_cbc(E, n, iv, msg)

def law_len(mode, n, pad, mlen):
    padded = pad != 'nopadding'
    if mode == 'ECB': return (mlen // n + 1) * n if padded else mlen
    if mode == 'CBC': return ((mlen // n + 1) * n if padded else mlen) + n
    if mode in ('CTR', 'CTS_ECB'): return mlen
    if mode == 'CTS_CBC': return mlen + n


def r_ctr_of(E, n, nonce, count, M):
    """SP 800-38A CTR, T_j = nonce || [(count + j) mod 2^m]_m with m = 8|count| (Appendix B.1)"""
    w = len(count); c0 = int.from_bytes(count, 'big')
    return b''.join(r_xor(b, E(nonce + ((c0 + j) % (1 << (8 * w))).to_bytes(w, 'big'))) for j, b in enumerate(r_blocks(n, M)))

def check_seq(line, res):
    """every enc/dec step is SP 800-38A CTR with the counter block in force AT THAT STEP (the latest constructor argument,
    setup() or assigned counter) and nothing else: not the calls before it, not their messages, not their counters.  The
    bookkeeping here keeps (nonce, count, number of counter calls since the latest reset) and knows nothing of the object."""
    cid, n, key, ctor, steps = parse_seq(line)
    bad = lambda i, why: 'ctrseq step %d (%s): %s' % (i + 1, ' '.join(line.split()[5 + i:6 + i])[:60], why)
    if not key_ok(cid, n, key): return None
    if ctor is None:
        if n % 2: return None
        nonce, count = bytes(n // 2), bytes(n // 2)
    else:
        if len(ctor) != n: return None if res == 'ERR' else 'ctrseq: a counter of %d bytes was accepted' % len(ctor)
        nonce, count = ctor[:n // 2], ctor[n // 2:]
    outs = res.split(';')
    if len(outs) != len(steps): return 'ctrseq: %d results for %d steps' % (len(outs), len(steps))
    E = reference_E(cid, n, key)
    last, run = b'', None             # run: [value, bytes] of the counter object's running count (None: no reset yet on this object)
    for i, (st, got) in enumerate(zip(steps, outs)):
        k = st[0]
        ok = len(nonce) + len(count) == n and len(count) > 0
        if k in ('e', 'd', 'b'):
            if not ok: return None          # the counter block in force is not a block of this cipher: outside the standard
            M = last if k == 'b' else st[1]
            exp = r_ctr_of(E, n, nonce, count, M)
            if got != hx(exp): return bad(i, 'counter block in force %s|%s: SP 800-38A gives %s, got %s' % (nonce.hex(), count.hex(), hx(exp), got))
            if k == 'e': last = exp
            run = [(int.from_bytes(count, 'big') + max(1, -(-len(M) // n))) % (1 << (8 * len(count))), len(count)]
        elif k == 's':
            nonce = bytes(n // 2) if st[1] is None else st[1]
            count = bytes(n // 2) if st[2] is None else st[2]
            if got != '.': return bad(i, 'got ' + got)
        elif k == 'a':
            if st[1] is not None and len(st[1]) != n:
                if got != 'ERR': return bad(i, 'a counter of %d bytes was accepted' % len(st[1]))
                continue
            iv = bytes(2 * (n // 2)) if st[1] is None else st[1]
            nonce, count, run = iv[:n // 2], iv[n // 2:], None
            if got != '.': return bad(i, 'got ' + got)
        elif k == 'r':
            run = [int.from_bytes(count, 'big'), len(count)]
            if got != '.': return bad(i, 'got ' + got)
        elif k == 'c':
            if run is None: exp = 'None'
            elif run[1] == 0: return None
            else:
                # the nonce is read when the counter is called, the running count was loaded by the latest reset
                exp = hx(nonce + run[0].to_bytes(run[1], 'big'))
                run[0] = (run[0] + 1) % (1 << (8 * run[1]))
            if got != exp: return bad(i, 'next counter block is %s, got %s' % (exp, got))
    return None


def check_impl(line, res):
    if line.startswith('ctrseq '): return check_seq(line, res)
    if line.startswith('modeseq '): return check_mseq(line, res)
    op, mode, cid, n, key, iv, pad, verb, msg = parse(line)
    bad = lambda why: '%s %s %s: %s' % (op, mode, verb, why)
    if op == 'modert':
        if not in_domain(mode, n, bytes(n), iv, pad, msg): return None
        exp = 'rt-ok len=%d' % law_len(mode, n, pad, len(msg))
        return None if res == exp else bad('got %s, expected %s' % (res, exp))
    if verb in ('dd', 'ee'):
        # each call is judged as if it were the only one on a new object
        if n < 1: return None
        parts = res.split(';')
        t = line.split()
        keep = mode in ('CBC', 'CTS_CBC')
        single = lambda v, X: ' '.join(t[:7] + [v, hx(X)])
        if verb == 'dd': calls = [('dec', msg), ('dec', rev_blocks(n, msg, keep)), ('dec', msg)]
        else: calls = [('enc', msg), ('enc', rev_blocks(n, msg, False)), ('enc', msg)]
        if res == 'ERR': parts = ['ERR'] * (len(calls) + (verb == 'ee'))
        if len(parts) != len(calls) + (verb == 'ee'): return bad('malformed result')
        for i, (v, X) in enumerate(calls):
            r = check_impl(single(v, X), parts[i])
            if r: return 'call %d on one object: %s' % (i + 1, r)
        if verb == 'ee' and in_domain(mode, n, key, iv, pad, msg, cid) and parts[3] != hx(msg):
            return bad('call 4 on one object: dec(first ciphertext) = %s' % parts[3])
        return None
    kat = KAT.get(line)
    if kat is not None and res != kat: return bad('differs from the ciphertext printed in SP 800-38A appendix F')
    if verb == 'dec' and mode in ('CTS_ECB', 'CTS_CBC'):
        # every string of at least one block (plus the IV block) is a ciphertext of exactly one message: enc(dec(C)) = C
        if pad != 'nopadding' or not key_ok(cid, n, key) or len(msg) < (2 * n if mode == 'CTS_CBC' else n): return None
        if mode == 'CTS_CBC' and (iv is None or len(iv) != n): return None
        if mode == 'CTS_ECB' and iv is not None: return None
        if res == 'ERR': return bad('exception inside the domain')
        M = unhx(res)
        if len(M) != len(msg) - (n if mode == 'CTS_CBC' else 0): return bad('plaintext length %d' % len(M))
        back = make_mode(mode, cipher_obj(cid, n, key), msg[:n] if mode == 'CTS_CBC' else None, pad).enc(M)
        return None if back == msg else bad('enc(dec(C)) = %s' % hx(back))
    if verb == 'dec' and mode in ('ECB', 'CBC'):
        # a raw ciphertext of whole blocks (CBC: behind an IV block): the plaintext blocks are CIPH^-1(C_j) [xor C_{j-1}] block by
        # block, whatever blocks the ciphertext repeats; then the padding is taken off (PKCS#7 / X9.23: or refused)
        first = n if mode == 'CBC' else 0
        if pad not in PADS or not key_ok(cid, n, key) or len(msg) % n or len(msg) < first + n: return None
        if (mode == 'CBC') != (iv is not None and len(iv) == n): return None
        D = reference_D(cid, n, key)
        P = r_cbc_dec(D, n, msg) if mode == 'CBC' else r_ecb_dec(D, n, msg)
        if pad == 'nopadding': return None if res == hx(P) else bad('plaintext blocks are %s, got %s' % (hx(P), res))
        M = unpad_candidate(pad, n, P)
        if M is not None: return None if res == hx(M) else bad('the ciphertext decrypts to the padded string of %s, got %s' % (hx(M), res))
        if pad in ('pkcs7', 'X923'): return None if res == 'ERR' else bad('the ciphertext does not decrypt to a padded string, got %s' % res)
        return None
    if verb == 'xd':
        # dec(enc_nopadding(P)) = unpad(P): the message whose padded string is P, an exception when there is none
        if mode not in ('ECB', 'CBC') or pad == 'nopadding' or not in_domain(mode, n, key, iv, 'nopadding', msg, cid): return None
        M = unpad_candidate(pad, n, msg)
        if M is not None: return None if res == hx(M) else bad('P is the padded string of %s, got %s' % (hx(M), res))
        if pad in ('pkcs7', 'X923'): return None if res == 'ERR' else bad('P is not a padded string, got %s' % res)
        return None
    if not in_domain(mode, n, key, iv, pad, msg, cid): return None
    E = reference_E(cid, n, key)
    if verb in ('enc', 'enc2', 'er'):
        if res == 'ERR': return bad('exception inside the domain')
        if verb == 'er':
            if ';' not in res: return bad('malformed result')
            c, m = res.split(';')
            if m != hx(msg): return bad('dec(enc(M)) = %s' % m)
        else: c = res
        C = unhx(c)
        exp = reference(mode, E, n, iv, pad, msg)
        if len(C) != law_len(mode, n, pad, len(msg)): return bad('length %d, expected %d' % (len(C), law_len(mode, n, pad, len(msg))))
        if mode in ('CBC', 'CTS_CBC') and C[:n] != iv: return bad('output does not start with the IV')
        if C != exp: return bad('differs from SP 800-38A reference %s' % hx(exp))
        return None
    if verb == 'rt':
        return None if res == hx(msg) else bad('dec(enc(M)) = %s' % res)
    if verb == 'dec' and mode == 'CTR':
        exp = reference(mode, E, n, iv, pad, msg)
        return None if res == hx(exp) else bad('differs from reference')
    return None


# SP 800-38A appendix F (2001 edition): F.1 ECB-AES128/192/256, F.2 CBC-AES128/192/256, F.5 CTR-AES128/192/256.
# Typed from the standard (not computed).  The `er` lines of corpus/C05.ops carry key, IV / initial counter block and
# the four plaintext blocks; the expected result is the printed ciphertext (CBC: behind the IV crysp prepends) and the
# plaintext back (F.x.2/4/6 are the same vectors read in the decrypt direction).
F_PT = '6bc1bee22e409f96e93d7e117393172aae2d8a571e03ac9c9eb76fac45af8e5130c81c46a35ce411e5fbc1191a0a52eff69f2445df4f9b17ad2b417be66c3710'
F_KEYS = {128: '2b7e151628aed2a6abf7158809cf4f3c', 192: '8e73b0f7da0e6452c810f32b809079e562f8ead2522c6b7b',
          256: '603deb1015ca71be2b73aef0857d77811f352c073b6108d72d9810a30914dff4'}
F_IV = '000102030405060708090a0b0c0d0e0f'
F_CTR = 'f0f1f2f3f4f5f6f7f8f9fafbfcfdfeff'
F_CT = {('ECB', 128): '3ad77bb40d7a3660a89ecaf32466ef97' 'f5d3d58503b9699de785895a96fdbaaf' '43b1cd7f598ece23881b00e3ed030688' '7b0c785e27e8ad3f8223207104725dd4',
        ('ECB', 192): 'bd334f1d6e45f25ff712a214571fa5cc' '974104846d0ad3ad7734ecb3ecee4eef' 'ef7afd2270e2e60adce0ba2face6444e' '9a4b41ba738d6c72fb16691603c18e0e',
        ('ECB', 256): 'f3eed1bdb5d2a03c064b5a7e3db181f8' '591ccb10d410ed26dc5ba74a31362870' 'b6ed21b99ca6f4f9f153e7b1beafed1d' '23304b7a39f9f3ff067d8d8f9e24ecc7',
        ('CBC', 128): '7649abac8119b246cee98e9b12e9197d' '5086cb9b507219ee95db113a917678b2' '73bed6b8e3c1743b7116e69e22229516' '3ff1caa1681fac09120eca307586e1a7',
        ('CBC', 192): '4f021db243bc633d7178183a9fa071e8' 'b4d9ada9ad7dedf4e5e738763f69145a' '571b242012fb7ae07fa9baac3df102e0' '08b0e27988598881d920a9e64f5615cd',
        ('CBC', 256): 'f58c4c04d6e5f1ba779eabfb5f7bfbd6' '9cfc4e967edb808d679f777bc6702c7d' '39f23369a9d9bacfa530e26304231461' 'b2eb05e2c39be9fcda6c19078c6a9d1b',
        ('CTR', 128): '874d6191b620e3261bef6864990db6ce' '9806f66b7970fdff8617187bb9fffdff' '5ae4df3edbd5d35e5b4f09020db03eab' '1e031dda2fbe03d1792170a0f3009cee',
        ('CTR', 192): '1abc932417521ca24f2b0459fe7e6e0b' '090339ec0aa6faefd5ccc2c6f4ce8e94' '1e36b26bd1ebc670d1bd1d665620abf7' '4f78a7f6d29809585a97daec58c6b050',
        ('CTR', 256): '601ec313775789a5b7a7f504bbf3d228' 'f443e3ca4d62b59aca84e990cacaf5c5' '2b0930daa23de94ce87017ba2d84988d' 'dfc9c58db67aada613c2dd08457941a6'}

def kat_lines():
    out = {}
    for (mode, bits), ct in sorted(F_CT.items()):
        iv = {'ECB': '-', 'CBC': 'x' + F_IV, 'CTR': 'x' + F_CTR}[mode]
        line = 'mode %s AES 16 x%s %s nopadding er x%s' % (mode, F_KEYS[bits], iv, F_PT)
        out[line] = 'x' + (F_IV if mode == 'CBC' else '') + ct + ';x' + F_PT
    return out
KAT = kat_lines()


# ---------------------------------------------------------------------------------------------
def rb(rng, k): return bytes(rng.getrandbits(8) for _ in range(k))

def mline(mode, cid, n, key, iv, pad, verb, msg):
    return 'mode %s %s %d %s %s %s %s %s' % (mode, cid, n, hx(key), '-' if iv is None else hx(iv), pad, verb, hx(msg))

def admissible(mode):
    if mode in ('ECB', 'CBC'): return PADS
    return ['nopadding']

def lengths(n, tier):
    """every residue mod n for 0..3 blocks (quick: all residues for small n, boundary residues for large n)"""
    if n <= 32 or tier != 'quick':
        return list(range(0, 3 * n + 2))
    s = set()
    for q in range(0, 4):
        for d in (0, 1, 2, n // 2, n - 2, n - 1):
            s.add(q * n + d)
    return sorted(x for x in s if x <= 3 * n + 1)

def counter_ivs(n, rng):
    h = n // 2; w = n - h
    out = [None, rb(rng, n)]
    full = (1 << (8 * w)) - 1
    for v in (full, full - 1, full - 2):
        out.append(rb(rng, h) + v.to_bytes(w, 'big'))
    ks = sorted({8, 16, 32, 8 * w - 8, 8 * w - 1} & set(range(1, 8 * w)))
    for k in ks:
        out.append(rb(rng, h) + ((1 << k) - 1).to_bytes(w, 'big'))
        out.append(rb(rng, h) + ((1 << k) - 2).to_bytes(w, 'big'))
    return out

def toy_cases(tier, rng, sizes, verbs=('enc', 'rt')):
    for n in sizes:
        for cid in ('rot', 'aff'):
            key = rb(rng, n)
            for mode in MODES:
                for pad in admissible(mode):
                    for L in lengths(n, tier):
                        if mode == 'CTR' and L > 0 and L % n == 0 and tier == 'quick' and n > 16 and L > n: pass
                        iv = rb(rng, n) if mode in ('CBC', 'CTS_CBC') else (rb(rng, n) if mode == 'CTR' and L % 3 else None)
                        msg = rb(rng, L)
                        tag = '%s/%s/%s' % (mode, pad, 'multiple' if L % n == 0 else 'residue')
                        for verb in verbs:
                            yield mline(mode, cid, n, key, iv, pad, verb, msg), tag


def ref_encrypt(mode, cid, n, key, iv, pad, msg):
    return reference(mode, TOYS[cid](n, key).enc, n, iv, pad, msg)

def dec_cases(tier, rng, sizes):
    """decryption of reference ciphertexts, of ciphertexts with damaged padding, and of malformed lengths"""
    for n in sizes:
        for cid in ('rot', 'aff'):
            key = rb(rng, n)
            toy = TOYS[cid](n, key)
            for mode in MODES:
                for pad in admissible(mode):
                    for L in sorted({0, 1, n - 1, n, n + 1, 2 * n - 1, 2 * n, 2 * n + n // 2, 3 * n}):
                        iv = rb(rng, n) if mode in ('CBC', 'CTS_CBC', 'CTR') else None
                        msg = rb(rng, L)
                        if in_domain(mode, n, key, iv, pad, msg):
                            C = ref_encrypt(mode, cid, n, key, iv, pad, msg)
                            yield mline(mode, cid, n, key, iv, pad, 'dec', C), 'dec/%s/%s/valid' % (mode, pad)
                            if mode in ('ECB', 'CBC') and pad != 'nopadding':
                                # damage the padding: last plaintext block chosen freely
                                for lastp in (bytes(n), bytes([n + 1]) * n, bytes(n - 1) + b'\x01', bytes(n - 2) + b'\x02\x02',
                                              bytes(n - 2) + b'\x01\x02', bytes(n - 1) + b'\x40', b'\x80' + bytes(n - 1), rb(rng, n)):
                                    if mode == 'ECB':
                                        Cd = C[:-n] + toy.enc(lastp)
                                    else:
                                        Cd = C[:-n] + toy.enc(r_xor(lastp, C[-2 * n:-n]))
                                    yield mline(mode, cid, n, key, iv, pad, 'dec', Cd), 'dec/%s/%s/damaged-pad' % (mode, pad)
                        # malformed ciphertext lengths
                        yield mline(mode, cid, n, key, iv, pad, 'dec', msg), 'dec/%s/%s/raw-length-%s' % (mode, pad, 'multiple' if L % n == 0 else 'residue')


def malformed_cases(tier, rng):
    for n in (8, 16):
        for cid in ('rot', 'aff'):
            key = rb(rng, n)
            # wrong IV / counter lengths
            for mode in ('CBC', 'CTS_CBC', 'CTR'):
                for ivl in (0, n - 1, n + 1, 2 * n):
                    for verb in ('enc', 'dec'):
                        yield mline(mode, cid, n, key, rb(rng, ivl), 'nopadding', verb, rb(rng, 2 * n)), 'malformed/iv-length'
            # messages outside the domain: CTS below one block, nopadding off a block boundary, empty nopadding
            for mode in ('CTS_ECB', 'CTS_CBC', 'ECB', 'CBC'):
                for L in (0, 1, n - 1, n + 3):
                    iv = rb(rng, n) if 'CBC' in mode else None
                    for verb in ('enc', 'rt'):
                        yield mline(mode, cid, n, key, iv, 'nopadding', verb, rb(rng, L)), 'malformed/out-of-domain-length'
            # stealing modes configured with a real padding scheme, Nullpadding on ECB/CBC (code <-> model only)
            for mode in ('CTS_ECB', 'CTS_CBC'):
                for pad in ('pkcs7', 'bitpadding'):
                    for L in (n, n + 3, 2 * n):
                        iv = rb(rng, n) if 'CBC' in mode else None
                        yield mline(mode, cid, n, key, iv, pad, 'enc', rb(rng, L)), 'malformed/cts-with-padding'
            for mode in ('ECB', 'CBC'):
                for L in (0, 3, n, n + 5):
                    iv = rb(rng, n) if 'CBC' in mode else None
                    for verb in ('enc', 'rt'):
                        yield mline(mode, cid, n, key, iv, 'Nullpadding', verb, rb(rng, L)), 'malformed/nullpadding'
    # odd block lengths (nonce/counter halves of different size; the default counter is one byte short)
    for n in (1, 3, 7):
        key = rb(rng, n)
        for iv in (None, rb(rng, n), b'\xff' * n):
            for L in (0, 1, n, 2 * n + 1):
                yield mline('CTR', 'rot', n, key, iv, 'nopadding', 'enc', rb(rng, L)), 'malformed/odd-block-ctr'
        for L in (0, 1, n, 2 * n + 1):
            yield mline('ECB', 'aff', n, key, None, 'pkcs7', 'rt', rb(rng, L)), 'odd-block-ecb'
            yield mline('CBC', 'aff', n, key, rb(rng, n), 'X923', 'rt', rb(rng, L)), 'odd-block-cbc'


def rline(mode, cid, n, keys, iv, pad, verb, msg):
    return 'mode %s %s %d %s %s %s %s %s' % (mode, cid, n, ','.join(hx(k) for k in keys), '-' if iv is None else hx(iv), pad, verb, hx(msg))

def real_keys(tier, rng):
    """(cipher token, block bytes, key strings, tag, full): one (quick) or two (thorough) keys per key size / calling form;
    `full` = every residue of |M| in the quick tier too (otherwise the boundary residues)"""
    out = []
    for rep in range(1 if tier == 'quick' else 2):
        for kl in (16, 24, 32): out.append(('AES', 16, [rb(rng, kl)], 'AES-%d' % (8 * kl), kl == 16))
        out.append(('DES', 8, [rb(rng, 8)], 'DES', True))
        out.append(('TDEA', 8, [rb(rng, 24)], 'TDEA-string24', True))
        out.append(('TDEA', 8, [rb(rng, 16)], 'TDEA-string16', False))
        out.append(('TDEA', 8, [rb(rng, 8)], 'TDEA-string8', False))
        out.append(('TDEA', 8, [rb(rng, 8), rb(rng, 8)], 'TDEA-2args', False))
        out.append(('TDEA', 8, [rb(rng, 8), rb(rng, 8), rb(rng, 8)], 'TDEA-3args', False))
        out.append(('SERPENT', 16, [rb(rng, 32)], 'Serpent-256', True))
        out.append(('SERPENT', 16, [rb(rng, 16)], 'Serpent-128', False))
        out.append(('SERPENT', 16, [rb(rng, rng.choice([0, 1, 5, 15, 17, 24, 31]))], 'Serpent-short', False))
        if tier != 'quick':
            for kl in (0, 1, 15, 17, 24, 31): out.append(('SERPENT', 16, [rb(rng, kl)], 'Serpent-%d' % (8 * kl), False))
    return out

def real_lengths(n, tier, full, j):
    allL = list(range(0, 3 * n + 2))
    if tier != 'quick': return allL
    if not full: return sorted({0, n - 1, n, n + 1, 2 * n + n // 2, 3 * n})
    if n <= 8: return allL
    bnd = {0, 1, n - 1, n, n + 1, 2 * n - 1, 2 * n, 2 * n + 1, 3 * n, 3 * n + 1}
    return sorted(bnd | {L for L in allL if (L + j) % 4 == 0})      # the configurations of one key together cover every residue

def real_mode_cases(tier, rng, keys=None):
    """the real mode objects over the real cipher objects: every mode x cipher/key x |M| x admissible padding, `er` lines"""
    for cid, n, ks, ktag, full in (keys or real_keys(tier, rng)):
        j = 0
        for mode in MODES:
            for pad in admissible(mode):
                j += 1
                for L in real_lengths(n, tier, full, j):
                    iv = rb(rng, n) if mode in ('CBC', 'CTS_CBC') else None
                    if mode == 'CTR':
                        w = n - n // 2
                        iv = [None, rb(rng, n), rb(rng, n // 2) + b'\xff' * w, rb(rng, n // 2) + b'\xff' * (w - 1) + b'\xfe'][(L + j) % 4]
                    yield rline(mode, cid, n, ks, iv, pad, 'er', rb(rng, L)), 'real/%s/%s/%s' % (ktag, mode, pad)

def real_dec_cases(tier, rng, keys=None):
    """decryption side with the real ciphers: arbitrary strings as ciphertexts (every string of >= 1 block is a CTS ciphertext;
    ECB/CBC: padding errors), 'padded' plaintexts with good and damaged paddings (verb xd), wrong ciphertext lengths"""
    for cid, n, ks, ktag, full in (keys or real_keys(tier, rng)):
        if tier == 'quick' and ktag not in ('AES-128', 'DES', 'TDEA-3args', 'Serpent-128', 'Threefish-256', 'Threefish-512', 'Threefish-1024'): continue
        for mode in MODES:
            for pad in admissible(mode):
                for L in sorted({n, n + 1, 2 * n - 1, 2 * n, 2 * n + 3, 3 * n, 4 * n - 1} if tier != 'quick' or mode.startswith('CTS') else {n + 1, 2 * n, 3 * n}):
                    iv = rb(rng, n) if mode in ('CBC', 'CTS_CBC', 'CTR') else None
                    yield rline(mode, cid, n, ks, iv, pad, 'dec', rb(rng, L)), 'real-dec/%s/%s/%s/raw' % (ktag, mode, pad)
                if mode in ('ECB', 'CBC') and pad != 'nopadding':
                    iv = rb(rng, n) if mode == 'CBC' else None
                    lasts = [bytes(n), bytes([n]) * n, bytes([n + 1]) * n, bytes(n - 1) + b'\x01', bytes(n - 2) + b'\x02\x02', bytes(n - 2) + b'\x01\x02',
                             bytes(n - 3) + b'\x07\x00\x03', b'\x80' + bytes(n - 1), rb(rng, n - 1) + b'\x80', bytes(n - 1) + b'\x40', rb(rng, n)]
                    if tier == 'quick': lasts = [lasts[i] for i in range(len(lasts)) if (i + len(mode) + len(pad)) % 2 == 0]
                    for lastp in lasts:
                        P = rb(rng, n * rng.choice([0, 1, 2])) + lastp
                        yield rline(mode, cid, n, ks, iv, pad, 'xd', P), 'real-dec/%s/%s/%s/padded-plaintext' % (ktag, mode, pad)

def real_malformed_cases(tier, rng):
    """keys the cipher constructors refuse, IVs of the wrong length: the exception surfaces before / in the mode constructor"""
    for cid, n, ks in [('AES', 16, [rb(rng, 15)]), ('AES', 16, [rb(rng, 17)]), ('AES', 16, [b'']), ('AES', 16, [rb(rng, 33)]),
                       ('DES', 8, [rb(rng, 7)]), ('DES', 8, [rb(rng, 9)]), ('TDEA', 8, [rb(rng, 12)]), ('TDEA', 8, [rb(rng, 32)]),
                       ('TDEA', 8, [rb(rng, 16), rb(rng, 8)]), ('TDEA', 8, [rb(rng, 8), rb(rng, 7)]), ('TDEA', 8, [rb(rng, 8), rb(rng, 8), rb(rng, 9)]),
                       ('SERPENT', 16, [rb(rng, 33)]), ('SERPENT', 16, [rb(rng, 40)])]:
        for mode in MODES:
            iv = rb(rng, n) if mode in ('CBC', 'CTS_CBC') else None
            for L in (0, n, 2 * n):       # also the empty nopadding message: no block is ever encrypted, the key alone must be refused
                yield rline(mode, cid, n, ks, iv, 'nopadding', 'er', rb(rng, L)), 'real-malformed/key'
            yield rline(mode, cid, n, ks, iv, 'nopadding', 'dec', rb(rng, 2 * n)), 'real-malformed/key'
    for cid, n, ks in [('AES', 16, [rb(rng, 16)]), ('DES', 8, [rb(rng, 8)]), ('SERPENT', 16, [rb(rng, 16)])]:
        for mode in ('CBC', 'CTS_CBC', 'CTR'):
            for ivl in (0, n - 1, n + 1):
                yield rline(mode, cid, n, ks, rb(rng, ivl), 'nopadding', 'er', rb(rng, 2 * n)), 'real-malformed/iv-length'

def xd_toy_cases(tier, rng):
    """'padded' plaintexts with the toy ciphers (block lengths beyond 16 bytes)"""
    for n in (8, 16, 32):
        for cid in ('rot', 'aff'):
            key = rb(rng, n)
            for mode in ('ECB', 'CBC'):
                for pad in PADS[:3]:
                    iv = rb(rng, n) if mode == 'CBC' else None
                    for lastp in (bytes(n), bytes([n]) * n, bytes([n + 1]) * n, bytes(n - 1) + b'\x01', bytes(n - 2) + b'\x01\x02',
                                  b'\x80' + bytes(n - 1), rb(rng, n - 1) + b'\x80', rb(rng, n)):
                        yield mline(mode, cid, n, key, iv, pad, 'xd', rb(rng, n * rng.choice([0, 1, 2])) + lastp), 'padded-plaintext/%s/%s' % (mode, pad)


# ---------------------------------------------------------------------------------------------
# Threefish-256/512/1024: `mode … THREEFISH <blockbytes> x<key>,x<tweak> …`
TF_SIZES = (32, 64, 128)

def threefish_keys(tier, rng):
    """(cipher token, block bytes, [key, tweak], tag, full): a random key/tweak per size; thorough: also the all-ones key and
    tweak (every carry of the key-schedule additions) and a second random draw"""
    out = []
    for n in TF_SIZES:
        out.append(('THREEFISH', n, [rb(rng, n), rb(rng, 16)], 'Threefish-%d' % (8 * n), False))
    if tier != 'quick':
        for n in TF_SIZES:
            out.append(('THREEFISH', n, [b'\xff' * n, b'\xff' * 16], 'Threefish-%d' % (8 * n), False))
            out.append(('THREEFISH', n, [rb(rng, n), bytes(16)], 'Threefish-%d' % (8 * n), False))
    return out

def threefish_lengths(n, tier):
    """|M| over 0..2 blocks (+1): thorough every length, quick the boundary residues of every block count"""
    if tier != 'quick': return list(range(0, 2 * n + 2))
    return sorted({0, 1, n // 2, n - 1, n, n + 1, n + n // 2 + 1, 2 * n - 1, 2 * n, 2 * n + 1})

def threefish_counters(n, rng):
    """counter arguments of CTR: None, random, and running halves (16/32/64 bytes) at / just below the wrap-around and at the
    byte-carry boundaries 2^k-1"""
    h = n // 2; w = n - h
    full = (1 << (8 * w)) - 1
    out = [None, rb(rng, n)]
    for v in (full, full - 1, full - 2, (1 << 64) - 1, (1 << (8 * w - 8)) - 1, (1 << (8 * w - 1)) - 1, (1 << (8 * w - 1)), 255):
        out.append(rb(rng, h) + v.to_bytes(w, 'big'))
    out.append(b'\xff' * n)
    out.append(bytes(h) + b'\xff' * w)
    return out

def threefish_cases(tier, rng, keys=None):
    """every mode x Threefish-256/512/1024 x admissible padding x |M| over 0..2 blocks (`er`: ciphertext and its decryption by
    a fresh object), CTR with counter halves near the wrap-around, the decryption side, refused keys / tweaks / IVs"""
    keys = keys or threefish_keys(tier, rng)
    for cid, n, ks, ktag, _ in keys:
        ctrs = threefish_counters(n, rng)
        j = 0
        for mode in MODES:
            for pad in admissible(mode):
                for L in threefish_lengths(n, tier):
                    j += 1
                    iv = rb(rng, n) if mode in ('CBC', 'CTS_CBC') else None
                    if mode == 'CTR': iv = ctrs[j % len(ctrs)]
                    yield rline(mode, cid, n, ks, iv, pad, 'er', rb(rng, L)), 'real/%s/%s/%s' % (ktag, mode, pad)
        # the counter: three blocks from every start value (full-1 -> full -> 0 wraps inside the running half)
        for iv in ctrs:
            for L in ((2 * n + 3,) if tier == 'quick' else (2 * n + 3, 3 * n, 1)):
                yield rline('CTR', cid, n, ks, iv, 'nopadding', 'er', rb(rng, L)), 'real/%s/CTR/counter-boundary' % ktag
            yield rline('CTR', cid, n, ks, iv, 'nopadding', 'dec', rb(rng, n + 1)), 'real-dec/%s/CTR/counter-boundary' % ktag
    yield from real_dec_cases(tier, rng, keys)
    # refused configurations: key / tweak lengths the constructor rejects (before any mode object exists), IV / counter lengths
    bad = []
    for n in TF_SIZES:
        bad += [(n, [rb(rng, n - 1), rb(rng, 16)]), (n, [rb(rng, n + 1), rb(rng, 16)]), (n, [rb(rng, n), rb(rng, 15)]),
                (n, [rb(rng, n), rb(rng, 17)]), (n, [rb(rng, n), b''])]
    bad += [(32, [b'', rb(rng, 16)]), (32, [rb(rng, 16), rb(rng, 16)]), (128, [rb(rng, 256), rb(rng, 16)]), (64, [rb(rng, 48), rb(rng, 32)])]
    for n, ks in bad:
        for mode in MODES:
            iv = rb(rng, n) if mode in ('CBC', 'CTS_CBC') else None
            for L in (0, n):
                yield rline(mode, 'THREEFISH', n, ks, iv, 'nopadding', 'er', rb(rng, L)), 'real-malformed/threefish-key-tweak'
            yield rline(mode, 'THREEFISH', n, ks, iv, 'nopadding', 'dec', rb(rng, 2 * n)), 'real-malformed/threefish-key-tweak'
    for n in TF_SIZES:
        ks = [rb(rng, n), rb(rng, 16)]
        for mode in ('CBC', 'CTS_CBC', 'CTR'):
            for ivl in (0, n - 1, n + 1, n // 2):
                yield rline(mode, 'THREEFISH', n, ks, rb(rng, ivl), 'nopadding', 'er', rb(rng, 2 * n)), 'real-malformed/iv-length'
        for mode in ('CTS_ECB', 'CTS_CBC', 'ECB', 'CBC'):       # outside the message domain
            iv = rb(rng, n) if 'CBC' in mode else None
            for L in (0, n - 1, n + 3):
                yield rline(mode, 'THREEFISH', n, ks, iv, 'nopadding', 'er', rb(rng, L)), 'real-malformed/out-of-domain-length'


# ---------------------------------------------------------------------------------------------
# repeated blocks: one block value at several positions of a ciphertext / of a message.  A per-block shortcut in a mode (a
# memo keyed by the block, a "same as the previous block" test) is invisible on random data - two equal n-byte blocks never
# meet - and on ordinary messages; the ciphertext of a CHAINED mode repeats a block only for a message crafted with the key
# (C_2 = C_1 needs M_2 = M_1 ^ IV ^ E(M_1 ^ IV)).  Patterns: equal letters = equal blocks, I = the IV block.
REP_PATTERNS = ['AA', 'ABA', 'AAA', 'AAB', 'ABB', 'I', 'ABAB', 'II', 'AI', 'IA', 'AIA', 'IAI', 'AAAA', 'ABCA']

def sym_values(rng, n, pat, iv):
    vals = {'I': iv}
    for ch in pat:
        while ch not in vals:
            v = rb(rng, n)
            if v not in vals.values(): vals[ch] = v
    return vals

def valid_last(pad, n, rng, q):
    """a last plaintext block carrying q bytes of well-formed padding"""
    head = rb(rng, n - q)
    if pad == 'pkcs7': return head + bytes([q]) * q
    if pad == 'X923': return head + bytes(q - 1) + bytes([q])
    return head + b'\x80' + bytes(q - 1)

def craft_cbc(E, D, n, iv, pat, rng):
    """message blocks whose CBC ciphertext blocks follow the pattern: C_i = C_j needs M_i = M_j ^ C_{j-1} ^ C_{i-1} (for 'AA' this
    is M_2 = M_1 ^ IV ^ E(M_1 ^ IV)), built with the cipher's own enc; C_i = IV needs CIPH^-1(IV)"""
    M, C, pos = [], [iv], {}
    for i, ch in enumerate(pat):
        prev = C[-1]
        if ch == 'I': m, c = r_xor(D(iv), prev), iv
        elif ch in pos: j = pos[ch]; m, c = r_xor(r_xor(M[j], C[j]), prev), C[j + 1]
        else: m = rb(rng, n); c = E(r_xor(m, prev)); pos[ch] = i
        M.append(m); C.append(c)
    return M

def pick_patterns(thin, j, chained):
    pats = [p for p in REP_PATTERNS if chained or 'I' not in p]
    if thin: pats = [p for i, p in enumerate(pats) if p == 'AA' or (i + j) % thin == 0]
    return pats

def repeat_cases(tier, rng, mk, cid, n, ks, ktag, thin=0, search=True, off=0, modes=MODES):
    """mk = mline / rline.  (i) `dec` of RAW ciphertexts with repeated blocks (the IV block among them), without padding and with
    paddings whose last plaintext block is well-formed by construction (a fresh last block behind the pattern; the last block of
    the pattern itself: its predecessor is solved for, or - when the two are the same block - the block is searched for);
    (ii) `er` of messages crafted so that the CIPHERTEXT follows the pattern, and of messages that repeat PLAINTEXT blocks"""
    obj = cipher_obj(cid, n, ks)
    E, D = obj.enc, obj.dec
    j, found = off, {}
    for mode in modes:
        chained = mode in ('CBC', 'CTS_CBC')
        for pad in admissible(mode):
            j += 1
            for pat in pick_patterns(thin, j, chained):
                iv = rb(rng, n) if mode in ('CBC', 'CTS_CBC', 'CTR') else None
                vals = sym_values(rng, n, pat, iv)
                blocks = [vals[ch] for ch in pat]
                head = [iv] if chained else []
                tag = '%s/%s/%s/%s' % ('toy' if cid in TOYS else ktag, mode, pad, pat)
                join = lambda L: b''.join(L)
                # ---- (i) raw ciphertexts
                if pad == 'nopadding':
                    yield mk(mode, cid, n, ks, iv, pad, 'dec', join(head + blocks)), 'repeat-dec/' + tag
                    if not thin: yield mk(mode, cid, n, ks, iv, pad, 'dd', join(head + blocks)), 'one-object-dec/' + tag
                    if mode in ('CTS_ECB', 'CTS_CBC', 'CTR'):
                        yield mk(mode, cid, n, ks, iv, pad, 'dec', join(head + blocks) + rb(rng, rng.randrange(1, n))), 'repeat-dec/' + tag + '+partial'
                else:
                    V = valid_last(pad, n, rng, rng.choice([1, 2, n]))
                    L = E(r_xor(V, blocks[-1])) if chained else E(V)
                    yield mk(mode, cid, n, ks, iv, pad, 'dec', join(head + blocks + [L])), 'repeat-dec/' + tag + '+padblock'
                    if not thin: yield mk(mode, cid, n, ks, iv, pad, 'dd', join(head + blocks + [L])), 'one-object-dec/' + tag + '+padblock'
                    V = valid_last(pad, n, rng, rng.choice([1, 1, 3, n]))
                    lastc, prevc = pat[-1], (pat[-2] if len(pat) > 1 else 'I')
                    ok = True
                    if not chained: vals[lastc] = E(V)
                    elif lastc != prevc: vals[prevc] = r_xor(D(vals[lastc]), V)
                    else:
                        # P_last = D(X) ^ X: look for a block X that makes its last byte a one-byte padding
                        # (one search per cipher object and padding byte; the block found is used for every such pattern)
                        want = 0x80 if pad == 'bitpadding' else 1
                        if want not in found:
                            found[want] = None
                            for _ in range(6000 if search else 0):
                                v = rb(rng, n)
                                if D(v)[-1] ^ v[-1] == want: found[want] = v; break
                        ok = found[want] is not None and found[want] not in vals.values()
                        if ok: vals[lastc] = found[want]
                    if ok:
                        iv2 = vals['I']
                        yield (mk(mode, cid, n, ks, iv2, pad, 'dec', join(([iv2] if chained else []) + [vals[ch] for ch in pat])),
                               'repeat-dec/' + tag + '/last-is-padded')
                # ---- (ii) crafted messages
                tails = [b''] if pad == 'nopadding' and mode in ('ECB', 'CBC') else [b'', rb(rng, rng.randrange(1, n))]
                if mode in ('ECB', 'CBC') and pad != 'nopadding' and not thin: tails.append(rb(rng, n - 1))
                if chained: Mc = craft_cbc(E, D, n, iv, pat, rng)
                elif mode == 'CTR': Mc = [r_xor(vals[ch], E(r_counter(n, iv, i))) for i, ch in enumerate(pat)]
                else: Mc = None
                for t in tails:
                    if Mc is not None:
                        yield mk(mode, cid, n, ks, iv, pad, 'er', join(Mc) + t), 'repeat-ciphertext/' + tag
                    yield mk(mode, cid, n, ks, iv, pad, 'er', join(blocks) + t), 'repeat-plaintext/' + tag
                    if not thin or pat == 'AA': yield mk(mode, cid, n, ks, iv, pad, 'ee', join(Mc or blocks) + t), 'one-object-enc/' + tag

def one_object_cases(tier, rng, sizes):
    """ordinary (random, distinct) blocks: three or four calls on one object of every mode; ciphertexts made with the reference"""
    for n in sizes:
        for cid in ('rot', 'aff'):
            key = rb(rng, n)
            for mode in MODES:
                for pad in admissible(mode):
                    for L in (n, 2 * n, 3 * n, 3 * n + 2, 4 * n - 1):
                        iv = rb(rng, n) if mode in ('CBC', 'CTS_CBC', 'CTR') else None
                        msg = rb(rng, L)
                        yield mline(mode, cid, n, key, iv, pad, 'ee', msg), 'one-object-enc/random/%s/%s' % (mode, pad)
                        if in_domain(mode, n, key, iv, pad, msg):
                            yield mline(mode, cid, n, key, iv, pad, 'dd', ref_encrypt(mode, cid, n, key, iv, pad, msg)), 'one-object-dec/random/%s/%s' % (mode, pad)
                        yield mline(mode, cid, n, key, iv, pad, 'dd', rb(rng, L + (n if iv is not None and mode != 'CTR' else 0))), 'one-object-dec/raw/%s/%s' % (mode, pad)

def repeat_toy_cases(tier, rng, sizes):
    for n in sizes:
        for cid in ('rot', 'aff'):
            yield from repeat_cases(tier, rng, lambda mode, cid, n, ks, iv, pad, verb, msg: mline(mode, cid, n, ks[0], iv, pad, verb, msg),
                                    cid, n, [rb(rng, n)], 'toy')

def repeat_real_cases(tier, rng):
    quick = tier == 'quick'
    keys = [('AES', 16, [rb(rng, 16)], 'AES-128'), ('DES', 8, [rb(rng, 8)], 'DES'), ('THREEFISH', 32, [rb(rng, 32), rb(rng, 16)], 'Threefish-256')]
    if not quick:
        keys += [('AES', 16, [rb(rng, 32)], 'AES-256'), ('TDEA', 8, [rb(rng, 24)], 'TDEA-string24'), ('SERPENT', 16, [rb(rng, 16)], 'Serpent-128'),
                 ('THREEFISH', 64, [rb(rng, 64), rb(rng, 16)], 'Threefish-512')]
    for i, (cid, n, ks, ktag) in enumerate(keys):
        slow = quick and cid == 'AES'            # the Lean AES model costs ~25 ms per line: the chained modes, fewer patterns
        yield from repeat_cases(tier, rng, rline, cid, n, ks, ktag, thin=((5 if slow else 3) if quick else (0 if i < 3 else 2)), search=cid == 'THREEFISH' or not quick,
                                off=i, modes=('CBC', 'CTS_CBC') if slow else MODES)

# ---------------------------------------------------------------------------------------------
# one CTR object through a history of calls (`ctrseq`): whatever an object keeps from one call to the next (key stream
# blocks, counter blocks, a block index) shows only when the SAME object is used again, after its counter was changed
# through one of the public routes, or for a longer / shorter message.
def seq_routes(n, rng):
    """(tag, steps) - every public way of giving a used object another counter block, and the calls that must not change it"""
    h = n // 2; w = n - h
    iv2 = rb(rng, n)
    R = [('setup', [('s', iv2[:h], iv2[h:])]),
         ('setup-count-only', [('s', None, rb(rng, h))]),
         ('setup-nonce-only', [('s', rb(rng, h), None)]),
         ('setup-defaults', [('s', None, None)]),
         ('assign-iv', [('a', rb(rng, n))]),
         ('assign-default', [('a', None)]),
         ('setup-then-reset', [('s', rb(rng, h), rb(rng, w)), ('r',)]),
         ('assign-then-call', [('a', rb(rng, n)), ('c',)]),
         ('reset-only', [('r',)]),
         ('call-only', [('c',)]),
         ('reset-call-call', [('r',), ('c',), ('c',)]),
         ('setup-all-ones', [('s', rb(rng, h), b'\xff' * w)]),
         ('setup-twice', [('s', rb(rng, h), rb(rng, w)), ('s', rb(rng, h), rb(rng, w))])]
    if n >= 6:       # other splits of the block into nonce and running part (the counter wraps inside the running part)
        R.append(('setup-split-4', [('s', rb(rng, n - 4), rb(rng, 4))]))
        R.append(('setup-split-1-wrap', [('s', rb(rng, n - 1), b'\xfe')]))
        R.append(('setup-split-long-count', [('s', rb(rng, 1), rb(rng, n - 1))]))
    return R

def seq_cases_for(tier, rng, cid, n, ks, ktag, budget=None):
    """budget: None = everything, k = about one line in k (real ciphers in the quick tier)"""
    h = n // 2; w = n - h
    keep = lambda: budget is None or rng.randrange(budget) == 0
    lens = [0, 1, n - 1, n, n + 1, 2 * n, 3 * n - 3, 3 * n]
    msg = lambda L: rb(rng, L)
    iv1 = rb(rng, n)
    ctors = [None, iv1] if n % 2 == 0 else [iv1]
    T = lambda t: 'ctrseq/%s/%s' % ('toy' if cid in TOYS else ktag, t)
    # A. use, change the counter, use again (same message, then decrypt its ciphertext, then another string)
    for ctor in ctors:
        for rtag, route in seq_routes(n, rng):
            for L in (rng.sample(lens[1:], 3) if budget is None else [rng.choice(lens[3:])]):
                if not keep(): continue
                M = msg(L)
                yield seq_line(cid, n, ks, ctor, [('e', M)] + route + [('e', M), ('b',), ('d', msg(rng.choice(lens)))]), T('route/' + rtag)
                yield seq_line(cid, n, ks, ctor, [('d', M)] + route + [('d', M), ('e', msg(rng.choice(lens)))]), T('route-after-dec/' + rtag)
    # B. short, long, short on one object (a prefix of the key stream must serve every length), with a change in the middle
    for ctor in ctors:
        for Ls in ([1, 3 * n, n + 1], [2 * n, n - 1, 3 * n], [0, n, 0, 2 * n + 1], [n, n, n]):
            if not keep(): continue
            ms = [msg(L) for L in Ls]
            yield seq_line(cid, n, ks, ctor, [('e', m) for m in ms] + [('b',)]), T('short-long-short')
            yield seq_line(cid, n, ks, ctor, [('e', ms[0]), ('e', ms[1]), ('s', rb(rng, h), rb(rng, w)), ('e', ms[1]), ('e', ms[0]), ('b',)]), T('short-long-change-long-short')
            yield seq_line(cid, n, ks, ctor, [x for m in ms for x in (('e', m), ('b',))]), T('enc-dec-pairs')
    # C. partial changes and changing back: same nonce / other count, other nonce / same count, back to the first block
    for L in ([n + 1, 3 * n] if budget is None else [2 * n - 1]):
        if not keep(): continue
        M = msg(L); a, b, a2, b2 = rb(rng, h), rb(rng, w), rb(rng, h), rb(rng, w)
        yield seq_line(cid, n, ks, a + b, [('e', M), ('s', a, b2), ('e', M), ('s', a2, b2), ('e', M), ('s', a, b), ('e', M), ('b',)]), T('partial-change-and-back')
        yield seq_line(cid, n, ks, None if n % 2 == 0 else a + b, [('e', M), ('a', a + b), ('e', M), ('a', None), ('e', M), ('a', a + b), ('b',), ('c',)]), T('assign-and-back')
        # neighbouring counters: the key stream of count+1 is the one of count shifted by a block
        c0 = rng.randrange(1 << (8 * w))
        cb = lambda v: (v % (1 << (8 * w))).to_bytes(w, 'big')
        yield seq_line(cid, n, ks, a + cb(c0), [('e', M), ('s', a, cb(c0 + 1)), ('e', M), ('s', a, cb(c0 - 1)), ('e', M)]), T('neighbouring-counters')
        full = (1 << (8 * w)) - 1
        yield seq_line(cid, n, ks, a + cb(full - 1), [('e', msg(3 * n)), ('c',), ('s', a, cb(full)), ('e', msg(2 * n + 1)), ('b',), ('c',), ('c',)]), T('wrap-around')
    # D. seeded random histories
    for _ in range((40 if tier == 'quick' else 400) if budget is None else 4):
        ctor = rng.choice(ctors)
        steps = []
        for _ in range(rng.randrange(3, 9)):
            k = rng.choice('eeeddbbssaarc')
            if k in 'ed': steps.append((k, msg(rng.choice(lens + [rng.randrange(0, 4 * n)]))))
            elif k == 's': steps.append(('s', rng.choice([None, rb(rng, h)]), rng.choice([None, rb(rng, w), rb(rng, w)])))
            elif k == 'a': steps.append(('a', rng.choice([None, rb(rng, n)])))
            else: steps.append((k,))
        yield seq_line(cid, n, ks, ctor, steps), T('random-history')

def seq_malformed_cases(tier, rng):
    """counter parts that do not make a block (the cipher refuses the counter block, the object recovers with the next setup),
    counters of the wrong length handed to the constructor / assigned (refused, the object keeps the counter it had), odd
    block lengths (the default counter is one byte short), calls before any reset"""
    for cid, n in (('rot', 8), ('aff', 16), ('rot', 7), ('aff', 3)):
        key = [rb(rng, n)]; h = n // 2; w = n - h
        M = rb(rng, n + 2)
        for bn, bc in ((rb(rng, h), rb(rng, w + 1)), (rb(rng, h + 1), rb(rng, h + 1)), (b'', rb(rng, w)), (rb(rng, n), rb(rng, 1)), (rb(rng, h), rb(rng, w - 1))):
            yield seq_line(cid, n, key, rb(rng, n), [('e', M), ('s', bn, bc), ('e', M), ('c',), ('s', rb(rng, h), rb(rng, w)), ('e', M), ('b',)]), 'ctrseq/malformed/setup-lengths'
        for L in (0, n - 1, n + 1, 2 * n):
            yield seq_line(cid, n, key, rb(rng, n), [('e', M), ('a', rb(rng, L)), ('e', M), ('c',)]), 'ctrseq/malformed/assign-length'
            yield seq_line(cid, n, key, rb(rng, L), [('e', M), ('b',)]), 'ctrseq/malformed/ctor-length'
        yield seq_line(cid, n, key, None, [('c',), ('e', M), ('c',), ('r',), ('c',), ('a', None), ('c',), ('e', M)]), 'ctrseq/malformed/default-counter'
        yield seq_line(cid, n, key, None, [('s', rb(rng, h), rb(rng, w)), ('e', M), ('b',), ('s', None, None), ('e', M)]), 'ctrseq/malformed/default-counter'

def ctrseq_cases(tier, rng):
    quick = tier == 'quick'
    for n in ([8, 16, 32] if quick else [8, 16, 32, 64, 128, 6, 24]):
        for cid in ('rot', 'aff'):
            yield from seq_cases_for(tier, rng, cid, n, [rb(rng, n)], 'toy')
    yield from seq_malformed_cases(tier, rng)

def ctrseq_real_cases(tier, rng):
    quick = tier == 'quick'
    keys = [('AES', 16, [rb(rng, 16)], 'AES-128', 8), ('DES', 8, [rb(rng, 8)], 'DES', 3), ('THREEFISH', 32, [rb(rng, 32), rb(rng, 16)], 'Threefish-256', 3)]
    if not quick:
        keys += [('AES', 16, [rb(rng, 24)], 'AES-192', 2), ('TDEA', 8, [rb(rng, 8), rb(rng, 8)], 'TDEA-2args', 2), ('SERPENT', 16, [rb(rng, 32)], 'Serpent-256', 2),
                 ('THREEFISH', 128, [rb(rng, 128), rb(rng, 16)], 'Threefish-1024', 2)]
    for cid, n, ks, ktag, b in keys:
        yield from seq_cases_for(tier, rng, cid, n, ks, ktag, budget=b if quick else max(1, b - 1))


# ---------------------------------------------------------------------------------------------
# one ECB / CBC / CTS object through a history of calls (`modeseq`): what the object keeps from a call (the padding object's
# state: the pad count of the LATEST message) shows only when a later call on the SAME object meets a message / ciphertext of
# another length residue - enc(M1); enc(M2); dec(C1) - or when the object decrypts before it has ever encrypted.
def mseq_lengths(rng, mode, pad, n, count):
    """`count` admissible message lengths with pairwise different residues mod n (ECB/CBC without padding: block counts)"""
    if mode in ('ECB', 'CBC') and pad == 'nopadding':
        return [q * n for q in rng.sample([1, 2, 3, 4], count)]
    res = rng.sample(sorted({0, 1, 2, n // 2, n - 2, n - 1} | {rng.randrange(n), rng.randrange(n)}), count)
    lo = 1 if mode.startswith('CTS') else 0
    return [rng.choice([lo, lo, 1, 2]) * n + r for r in res]

def mseq_cases_for(tier, rng, cid, n, ks, ktag, thin=False):
    T = lambda t: 'modeseq/%s/%s' % ('toy' if cid in TOYS else ktag, t)
    msg = lambda L: rb(rng, L)
    for mode in SEQ_MODES:
        pads = list(admissible(mode)) + (['Nullpadding'] if mode in ('ECB', 'CBC') and cid in TOYS else [])
        for pad in pads:
            iv = rb(rng, n) if mode in ('CBC', 'CTS_CBC') else None
            mk = lambda steps, iv=iv: mseq_line(mode, cid, n, ks, iv, pad, steps)
            tag = lambda t: T('%s/%s/%s' % (mode, pad, t))
            refpad = pad if pad in PADS else 'pkcs7'
            E = cipher_obj(cid, n, ks).enc
            cref = lambda M, iv2=None: reference(mode, E, n, iv2 if iv2 is not None else iv, refpad, M)
            for rep in range(1 if thin else 3):
                L = mseq_lengths(rng, mode, pad, n, 3)
                M1, M2, M3 = msg(L[0]), msg(L[1]), msg(L[2])
                # A. encrypt two / three messages of different residues, then decrypt the EARLIER ciphertexts
                yield mk([('e', M1), ('e', M2), ('r', 1), ('r', 2)]), tag('enc-enc-dec-earlier')
                if thin and rep == 0 and rng.randrange(2): continue
                yield mk([('e', M1), ('e', M2), ('e', M3), ('r', 2), ('r', 1), ('r', 3), ('r', 1)]), tag('enc3-dec-any-order')
                # B. an object that has never encrypted decrypts (a ciphertext made by the reference, another IV), encrypts a
                #    message of another residue, decrypts the first ciphertext again
                C1 = cref(M1, rb(rng, n) if iv is not None else None)
                yield mk([('d', C1), ('e', M2), ('d', C1), ('r', 2), ('e', M3), ('d', C1)]), tag('dec-before-any-enc')
                # C. enc/dec pairs interleaved, the first ciphertext once more at the end
                yield mk([('e', M1), ('r', 1), ('e', M2), ('r', 1), ('r', 3), ('e', M3), ('r', 1), ('r', 6), ('r', 3)]), tag('interleaved')
                if thin: continue
                # D. refused calls in between: a ciphertext cut short / one block of noise / (no padding, stealing) a message
                #    outside the domain; then the earlier ciphertexts again
                bad = []
                if pad == 'nopadding': bad.append(('e', msg(n - 1) if mode.startswith('CTS') else msg(n + 3)))
                bad.append(('d', cref(M2)[:-1]))
                bad.append(('d', msg(n * (2 if iv is not None else 1))))
                for b in bad:
                    yield mk([('e', M1), ('e', M2), b, ('r', 1), ('r', 2), ('r', 3)]), tag('refused-call-between')
                yield mk([bad[-1], ('e', M1), bad[0], ('r', 2), ('e', M3), ('r', 2)]), tag('refused-call-first')
            if thin: continue
            # E. seeded random histories
            for _ in range(4 if tier == 'quick' else 40):
                steps = []
                for i in range(rng.randrange(3, 10)):
                    k = rng.choice('eeedrrrr') if steps else rng.choice('eed')
                    if k == 'e': steps.append(('e', msg(rng.choice(mseq_lengths(rng, mode, pad, n, 2) + [rng.randrange(0, 3 * n)]))))
                    elif k == 'd': steps.append(('d', rng.choice([cref(msg(mseq_lengths(rng, mode, pad, n, 1)[0])), msg(n * rng.randrange(1, 4)), msg(rng.randrange(0, 3 * n))])))
                    else: steps.append(('r', rng.randrange(1, len(steps) + 1)))
                yield mk(steps), tag('random-history')

def modeseq_cases(tier, rng):
    quick = tier == 'quick'
    for n in ([8, 16, 32] if quick else [8, 16, 32, 64, 128, 6, 24]):
        for cid in ('rot', 'aff'):
            yield from mseq_cases_for(tier, rng, cid, n, [rb(rng, n)], 'toy')
    # constructors that refuse: the whole line is ERR
    for mode in ('CBC', 'CTS_CBC'):
        for ivl in (0, 7, 9):
            yield mseq_line(mode, 'rot', 8, [rb(rng, 8)], rb(rng, ivl), 'nopadding', [('e', rb(rng, 16)), ('r', 1)]), 'modeseq/malformed/iv-length'
    yield mseq_line('ECB', 'DES', 8, [rb(rng, 7)], None, 'pkcs7', [('e', rb(rng, 5)), ('r', 1)]), 'modeseq/malformed/key'

def modeseq_real_cases(tier, rng):
    quick = tier == 'quick'
    keys = [('AES', 16, [rb(rng, 16)], 'AES-128'), ('DES', 8, [rb(rng, 8)], 'DES')]
    if not quick:
        keys += [('AES', 16, [rb(rng, 32)], 'AES-256'), ('TDEA', 8, [rb(rng, 24)], 'TDEA-string24'), ('SERPENT', 16, [rb(rng, 16)], 'Serpent-128'),
                 ('THREEFISH', 32, [rb(rng, 32), rb(rng, 16)], 'Threefish-256')]
    for cid, n, ks, ktag in keys:
        yield from mseq_cases_for(tier, rng, cid, n, ks, ktag, thin=quick)


REAL = []         # ciphers without a Lean model (summary lines `modert`): none any more

def real_cases(tier, rng):
    for name, n, kl in REAL:
        slow = name in ('Serpent', 'Threefish', 'TDEA')
        if tier == 'quick':
            Ls = [0, 1, n - 1, n, n + 1, 2 * n, 2 * n + n // 2] if not slow else [0, n - 1, n, n + 1, 2 * n]
        else:
            Ls = list(range(0, 3 * n + 2)) if n <= 16 and not slow else sorted({q * n + d for q in range(4) for d in (0, 1, n // 2, n - 1)})
        key = rb(rng, kl)
        for mode in MODES:
            pads = admissible(mode)
            if tier == 'quick' and slow: pads = pads[:1] + pads[-1:] if len(pads) > 1 else pads
            for pad in pads:
                for L in Ls:
                    iv = rb(rng, n) if mode in ('CBC', 'CTS_CBC') else None
                    if mode == 'CTR':
                        w = n - n // 2
                        iv = [None, rb(rng, n), rb(rng, n // 2) + b'\xff' * w, rb(rng, n // 2) + b'\xff' * (w - 1) + b'\xfe'][L % 4]
                    msg = rb(rng, L)
                    if not in_domain(mode, n, bytes(n), iv, pad, msg): continue
                    yield ('modert %s %s %d %s %s %s %s' % (mode, name, n, hx(key), '-' if iv is None else hx(iv), pad, hx(msg)),
                           'real/%s/%s' % (name, mode))


def twice_cases(tier, rng):
    for n in (8, 16):
        for cid in ('rot', 'aff'):
            key = rb(rng, n)
            for mode in MODES:
                for pad in admissible(mode):
                    for L in (n, n + 3, 2 * n):
                        iv = rb(rng, n) if mode in ('CBC', 'CTS_CBC', 'CTR') else None
                        yield mline(mode, cid, n, key, iv, pad, 'enc2', rb(rng, L)), 'second-enc-same-object'


def counter_cases(tier, rng, sizes):
    for n in sizes:
        for cid in ('rot', 'aff'):
            key = rb(rng, n)
            for iv in counter_ivs(n, rng):
                for L in (2 * n + 3, 4 * n):
                    msg = rb(rng, L)
                    yield mline('CTR', cid, n, key, iv, 'nopadding', 'enc', msg), 'ctr/counter-boundary'
                    yield mline('CTR', cid, n, key, iv, 'nopadding', 'rt', msg), 'ctr/counter-boundary'


def random_cases(tier, rng, count):
    """seeded random stream: messages up to 5 blocks (quick) / 16 blocks (thorough), random keys, IVs, counters"""
    maxb = 5 if tier == 'quick' else 16
    sizes = [8, 16, 16, 32, 64, 128] if tier == 'quick' else [8, 16, 16, 32, 64, 128, 2, 4, 6, 12, 24, 48]
    for _ in range(count):
        n = rng.choice(sizes)
        cid = rng.choice(['rot', 'aff'])
        mode = rng.choice(MODES)
        pad = rng.choice(admissible(mode))
        key = rb(rng, n)
        L = rng.choice([rng.randrange(0, maxb * n + 1), rng.randrange(0, maxb + 1) * n, rng.randrange(0, 2 * n + 1)])
        iv = rb(rng, n) if mode in ('CBC', 'CTS_CBC') else None
        if mode == 'CTR':
            w = n - n // 2
            iv = rng.choice([None, rb(rng, n), rb(rng, n // 2) + ((1 << (8 * w)) - 1 - rng.randrange(0, maxb + 1)).to_bytes(w, 'big')])
        msg = rb(rng, L)
        verb = rng.choice(['enc', 'rt', 'rt', 'enc2', 'dec'])
        if verb == 'dec':
            if not in_domain(mode, n, key, iv, pad, msg): continue
            msg = ref_encrypt(mode, cid, n, key, iv, pad, msg)
        yield mline(mode, cid, n, key, iv, pad, verb, msg), 'random/%s/%s' % (mode, verb)


def cases(tier, rng):
    if tier == 'search':
        while True:
            n = rng.choice([8, 16, 16, 32, 64, 128])
            yield from toy_cases('quick', rng, [n])
            yield from random_cases('thorough', rng, 500)
            yield from counter_cases('quick', rng, [n])
            yield from dec_cases('quick', rng, [n])
            yield from real_mode_cases('quick', rng)
            yield from real_dec_cases('thorough', rng, real_keys('quick', rng))
            yield from threefish_cases('quick', rng)
            yield from repeat_toy_cases('quick', rng, [n])
            yield from repeat_real_cases('quick', rng)
            yield from seq_cases_for('quick', rng, rng.choice(['rot', 'aff']), n, [rb(rng, n)], 'toy')
            yield from ctrseq_real_cases('quick', rng)
            yield from mseq_cases_for('quick', rng, rng.choice(['rot', 'aff']), n, [rb(rng, n)], 'toy')
            yield from modeseq_real_cases('quick', rng)
        return
    sizes = [8, 16, 32, 64, 128]
    yield from toy_cases(tier, rng, sizes)
    yield from counter_cases(tier, rng, sizes)
    yield from dec_cases(tier, rng, sizes)
    yield from malformed_cases(tier, rng)
    yield from twice_cases(tier, rng)
    yield from xd_toy_cases(tier, rng)
    yield from repeat_toy_cases(tier, rng, [8, 16, 32] if tier == 'quick' else sizes)
    yield from ctrseq_cases(tier, rng)
    yield from modeseq_cases(tier, rng)
    yield from one_object_cases(tier, rng, [8, 16] if tier == 'quick' else [8, 16, 32, 64, 128])
    yield from random_cases(tier, rng, 4000 if tier == 'quick' else 60000)
    real = (list(real_mode_cases(tier, rng)) + list(real_dec_cases(tier, rng)) + list(real_malformed_cases(tier, rng)) + list(real_cases(tier, rng))
            + list(threefish_cases(tier, rng)) + list(repeat_real_cases(tier, rng)) + list(ctrseq_real_cases(tier, rng)) + list(modeseq_real_cases(tier, rng)))
    rng.shuffle(real)              # lines of very different cost: mix them so that the worker chunks are balanced
    yield from real
    if tier == 'thorough':
        # second, independent key/IV/message draw and a block length outside the library's set
        yield from toy_cases('quick', rng, [8, 16, 24, 32, 64, 128])
        yield from toy_cases(tier, rng, [2, 4, 6, 12])
        yield from dec_cases(tier, rng, [24, 12])


def shrink(line):
    t = line.split()
    if t[0] == 'ctrseq':
        head, steps = t[:5], t[5:]
        for i in range(len(steps)):                       # drop a step
            if len(steps) > 1: yield ' '.join(head + steps[:i] + steps[i + 1:])
        for i, st in enumerate(steps):                    # shorten a message
            if st[:3] in ('e:x', 'd:x') and len(st) > 5:
                yield ' '.join(head + steps[:i] + [st[:-2]] + steps[i + 1:])
                yield ' '.join(head + steps[:i] + [st[:3] + st[5:]] + steps[i + 1:])
        return
    if t[0] == 'modeseq':
        head, steps = t[:7], t[7:]
        ref = lambda st: int(st[3:]) if st.startswith('d:#') else None
        for i in range(len(steps)):                       # drop a step nobody refers to (later references move down)
            if len(steps) > 1 and all(ref(st) != i + 1 for st in steps[i + 1:]):
                rest = [('d:#%d' % (ref(st) - 1)) if ref(st) is not None and ref(st) > i + 1 else st for st in steps[i + 1:]]
                yield ' '.join(head + steps[:i] + rest)
        for i, st in enumerate(steps):                    # shorten a message / ciphertext by a block or a byte
            n = int(t[3])
            if st[:3] in ('e:x', 'd:x'):
                if len(st) > 3 + 2 * n: yield ' '.join(head + steps[:i] + [st[:-2 * n]] + steps[i + 1:])
                if len(st) > 3: yield ' '.join(head + steps[:i] + [st[:-2]] + steps[i + 1:])
        return
    msg = t[-1]
    if len(msg) > 3:
        yield ' '.join(t[:-1] + ['x' + msg[3:]])
        yield ' '.join(t[:-1] + [msg[:-2]])
        yield ' '.join(t[:-1] + ['x' + '00' * ((len(msg) - 1) // 2)])


LEVEL_TEXT = ('Lean 4 theorems about Model.Mode (the hand-written mirror of crysp/mode.py over a block cipher object), stated (a) for every '
              'cipher satisfying the permutation hypotheses and (b) for the library\'s AES-128/192/256, DES, TDEA (every calling form), Serpent '
              '(keys of 0..32 bytes) and Threefish-256/512/1024 (every key and 16-byte tweak) with NO hypothesis on the cipher left: the C03 '
              'permutation theorems and the C02 refinement theorems of each cipher are composed, so that the mode output equals SP 800-38A over '
              'FIPS 197 / FIPS 46-3 / SP 800-67 / the Serpent submission / Threefish of Skein 1.3, for every key, IV / counter block (default '
              'counter halves of 4..64 bytes), admissible padding and message length. The models are tied to the current source by a '
              'correspondence stream that drives the real mode objects over the real cipher objects (and over toy ciphers of block length 8..128 '
              'bytes), compared with Model.Mode over the Lean cipher models and Spec.Mode over the Spec ciphers, and evaluates an independent '
              'SP 800-38A reference and the appendix F vectors on the real code. One CTR object used repeatedly is modelled as a step machine '
              '(Model.Mode.CTR.Obj): its enc/dec results are proved to depend on the counter block in force and the message only '
              '(ctr_history_independent, ctr_after_setup, ctr_after_assign, ctr_obj_spec), and the stream drives the real object and the '
              'machine through the same histories. One ECB / CBC / CTS object used repeatedly is the step machine Model.Mode.Seq.Obj (the state of '
              'its padding object): every call returns what it returns as the only call on a new object, for every padding scheme except '
              'Nullpadding (modeseq_dec_ignores_pad_state, modeseq_history_independent), and dec of an EARLIER ciphertext after any calls in '
              'between gives the message back (modeseq_ecb_dec_earlier, modeseq_cbc_dec_earlier, modeseq_cts_dec_earlier); the modeseq lines '
              'drive the real object and the machine through the same histories (Nullpadding included, code <-> model).')
LEVEL_NOTE = ('Trusted: Lean kernel; axioms within {propext, Classical.choice, Quot.sound}; Spec.Mode/Spec.ModePad as renderings of SP 800-38A, its '
              'addendum and the padding methods (Spec.ModePad proved equal to Spec.Padding on byte strings; appendix F.1.1/F.2.1/F.5.1 evaluated '
              'through Spec.Mode over Spec.Aes in the kernel); Spec.Aes/Des/Serpent/Threefish; extract.py/runcheck.py/props/C05.py. '
              'Theorem list: evidence/C05.json coverage.theorems.')
TECHNIQUE = 'Lean 4 proof (induction over block lists, cipher refinement composed with C02/C03) + correspondence check with the real and toy ciphers'
