"""Helpers shared by the per-property plugins: token formats of the line protocol (see lean/Driver/Wire.lean)
and safe execution of the real code."""
import binascii

def hx(b): return 'x' + bytes(b).hex()
def unhx(t):
    assert t[0] == 'x'; return bytes.fromhex(t[1:])
def il(l): return 'l' + ','.join(str(int(x)) for x in l)
def unil(t):
    assert t[0] == 'l'; return [int(x) for x in t[1:].split(',')] if len(t) > 1 else []
def oi(v): return 'None' if v is None else str(int(v))
def unoi(t): return None if t == 'None' else int(t)
def bo(v): return 'T' if v else 'F'
def unbo(t): return t == 'T'
def fb(b): return '%d:%d' % (b.size, b.ival)          # a Bits result
def bt(size, ival): return 'b%d:%d' % (size, ival)     # a Bits operand token
def unbt(t):
    assert t[0] == 'b'; s, v = t[1:].split(':'); return int(s), int(v)

def mkbits(t):
    """build the real Bits object denoted by token b<size>:<ival> (through the public constructor)"""
    from crysp.bits import Bits
    s, v = unbt(t)
    return Bits(v, s)

def operand(t):
    """int / list / bytes / Bits operand token -> Python value handed to the real code"""
    c = t[0]
    if c == 'b': return mkbits(t)
    if c == 'i': return int(t[1:])
    if c == 'l': return unil(t)
    if c == 'x': return unhx(t)
    raise ValueError(t)

def guarded(f):
    """run f on the real code; every exception raised by the code under test is the canonical ERR"""
    try:
        return f()
    except (KeyboardInterrupt, SystemExit):
        raise
    except Exception as e:
        if type(e).__name__ == '_Timeout': raise
        return 'ERR'


def aggregate(ns, parts):
    """Build a property plugin out of part modules (each a plugin restricted to the op prefixes in its PREFIX tuple).
    Usage in tools/props/Cxx.py:  from props.common import aggregate; from props.parts import a, b; aggregate(globals(), [a, b])"""
    def part_of(line):
        op = line.split(' ', 1)[0]
        for p in parts:
            if op.startswith(tuple(p.PREFIX)): return p
        raise RuntimeError('no part handles ' + op)
    ns['LEAN_PROOFS'] = [m for p in parts for m in p.LEAN_PROOFS]
    ns['GEN_ITEMS'] = sorted({g for p in parts for g in getattr(p, 'GEN_ITEMS', [])})
    ns['TRUSTED'] = [t for p in parts for t in getattr(p, 'TRUSTED', [])]
    ns['ASSUMPTIONS'] = [t for p in parts for t in getattr(p, 'ASSUMPTIONS', [])]
    ns['run_impl'] = lambda line: part_of(line).run_impl(line)
    def check_impl(line, res):
        p = part_of(line)
        return p.check_impl(line, res) if hasattr(p, 'check_impl') else None
    ns['check_impl'] = check_impl
    def cases(tier, rng):
        import itertools
        if tier == 'search':
            gens = [p.cases(tier, rng) for p in parts]
            while gens:
                for g in list(gens):
                    try: yield next(g)
                    except StopIteration: gens.remove(g)
        else:
            for p in parts: yield from p.cases(tier, rng)
    ns['cases'] = cases
    def shrink(line):
        p = part_of(line)
        return p.shrink(line) if hasattr(p, 'shrink') else []
    ns['shrink'] = shrink
