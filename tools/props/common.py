"""Helpers shared by the per-property plugins: token formats of the line protocol (see lean/Driver/Wire.lean)
and safe execution of the real code."""
import binascii

def hx(b): return 'x' + bytes(b).hex()
def unhx(t):
    assert t[0] == 'x'; return bytes.fromhex(t[1:])
def il(l): return 'l' + ','.join(str(int(x)) for x in l)
def unil(t):
    assert t[0] == 'l'; return [int(x) for x in t[1:].split(',')] if len(t) > 1 else []
def oi(v): return 'None' if v is None else str(int(v))
def unoi(t): return None if t == 'None' else int(t)
def bo(v): return 'T' if v else 'F'
def unbo(t): return t == 'T'
def fb(b): return '%d:%d' % (b.size, b.ival)          # a Bits result
def bt(size, ival): return 'b%d:%d' % (size, ival)     # a Bits operand token
def unbt(t):
    assert t[0] == 'b'; s, v = t[1:].split(':'); return int(s), int(v)

def mkbits(t):
    """build the real Bits object denoted by token b<size>:<ival> (through the public constructor)"""
    from crysp.bits import Bits
    s, v = unbt(t)
    return Bits(v, s)

def operand(t):
    """int / list / bytes / Bits operand token -> Python value handed to the real code"""
    c = t[0]
    if c == 'b': return mkbits(t)
    if c == 'i': return int(t[1:])
    if c == 'l': return unil(t)
    if c == 'x': return unhx(t)
    raise ValueError(t)

def guarded(f):
    """run f on the real code; every exception raised by the code under test is the canonical ERR"""
    try:
        return f()
    except (KeyboardInterrupt, SystemExit):
        raise
    except Exception as e:
        if type(e).__name__ == '_Timeout': raise
        return 'ERR'
