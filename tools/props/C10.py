"""C10 — one-shot results depend only on the arguments, never on earlier calls.

Line format (everything needed to replay is in the line, byte strings in hex):

    hist  <Kind> <cfg…> | <op> <args…> | … | PROBE <op> <args…>
    histp <Kind> <cfg…> | <op> <args…> | … | PROBE <op> <args…>

run_impl executes the history on ONE real object (every step under try/except; steps `sib.*` act on a sibling instance,
`sing.*` on a module-level shared instance, `h.*`/`c.*`/`e1.*` on an object the instance owns or shares), then the probe,
and returns the probe's canonical result (hex / none / ERR).  check_impl is the property's own predicate on the real code:
it builds a FRESH, equally configured object, replays only the explicit re-configuration steps of the history (setkey,
setrate — they change the constructor-level configuration by design), runs the probe and demands equality.

`histo` lines ("observe") have the same format but end in a NON-one-shot operation (update / duplex / digest / final …): its
result legitimately depends on the history, so there is no predicate and no spec column; they compare code and model only and
tie the scratch-state tracking of the Lean object machines (which steps overwrite which fields) to the real objects.

`hist` lines are also answered by the Lean object model (lean/Model/Objects.lean via lean/Driver/HistD.lean): model column =
probe after the history on the model, spec column = probe on the fresh model object.  `histp` lines are predicate-only
(steps the Lean object model does not cover: CRC helpers, SHAKE helpers, exactsum, Blake2 calls outside the documented
parameter domain): run_impl itself
returns `same` / `DIFF:<probe after history>|<probe on fresh>` and the driver answers the constant `same`."""
from props.common import *
import os, sys, itertools, importlib

ID = 'C10'
LEAN_PROOFS = ['Proofs.C10']
GEN_ITEMS = ['ObjectsG']
RULE = ('op lines = (object kind + constructor arguments, history of <= 3 steps over the per-kind call alphabet [default call, call with '
        'each optional parameter, erroring call, update/streaming step, duplex, setkey/setrate, keystream peek, key-schedule peek, '
        'sibling-instance call, shared-object call, module-singleton call], probe); ALL histories of length <= 2 (quick) / <= 3 (thorough) '
        'with every probe after the short ones and probes in rotation after the longest, plus seeded longer histories (quick: length 3, '
        'thorough: length 4..8); `histo` observation lines end in a streaming operation and compare code and model only; distinct lines; '
        'non-trivial = the probe returned a value after a non-empty history')
TRUSTED = ['the fresh object of the predicate is built by the same constructor call from the tokens of the line; explicit re-configuration '
           'steps (HMAC.setkey, Keccak.setrate) are replayed on it, every other step is dropped',
           'module-level singletons are re-created by importlib.reload of their module at the start of every line, so that lines replay exactly',
           'toy block ciphers ToyRot/ToyAff (tools/props/C05.py, mirrored in lean/Model/ToyCipher.lean) drive the real mode classes',
           'CPython object semantics (attribute persistence, generators abandoned half-way, exceptions leaving attributes half-written) are '
           'modelled in lean/Model/Objects.lean; the theorems quantify over ALL scratch states (for AES / the modes over AES / Salsa20-ChaCha: '
           'over all states satisfying the cache invariant that every operation is proved to preserve) so imprecision there cannot make them unsound',
           'tools/gen_items/objects.py (AST inventory of assigned attributes, module singletons, mutable defaults) is trusted to read the source faithfully']
ASSUMPTIONS = ['python -O (asserts stripped) is out of scope',
               '`histp` lines (CRC/SHAKE/exactsum helper functions; Blake2 calls outside the '
               'documented parameter domain: salt/pers of a wrong length, keylen > 64) are predicate-only: the real object after the history is '
               'compared with a fresh real object; the Lean driver answers the constant `same` for them',
               'steps are method calls of the public API; assigning attributes from outside or mutating a returned key schedule is not a call',
               'RC4 is a continuous stream by design and is not part of the property',
               'Salsa20/ChaCha theorems: messages are byte strings of fewer than 2^70 bytes; the constructor left 16 words in `p` (proved for '
               'every 16/32-byte key: stream_adm_of_constructor)',
               'ECB/CBC over Nullpadding: dec strips pad.padcnt bits, a number only the last enc on the same object knows (zero padding is not '
               'self-describing); recorded as known finding C10-nullpad-remove, the admissible paddings are pkcs7/X923/bitpadding/nopadding',
               'user-supplied counter objects of CTR (anything but None/bytes -> DefaultCounter) are outside the model']
LEVEL_TEXT = ('proof: for every object kind (MD4/MD5/SHA-0/1/2, Keccak/SHA3 + keccak_* singletons, MD6, Blake + blake*, Blake2 + '
              'blake2b/2s, Skein, HMAC, TLSH + tlsh, Nilsimsa, AES, DES, TDEA, Serpent, Threefish, ECB/CBC/CTR/CTS_*, Salsa20, Chacha) the two per-kind theorems '
              'X_cfg_preserved / X_result_depends_on_cfg and the generic corollary history_independent (one induction over the operation list, '
              'interleavings with sibling instances / singletons via Machine.pair) are proved at full strength; the state-field inventory of '
              'the live source is proved equal to the field lists of the state structures (Skein: scratch `G`, configuration = the constructor-only '
              'attributes; Threefish: no scratch, configuration = the constructor-only attributes incl. the key-schedule word lists).')
LEVEL_NOTE = ('the tie between the object machines and the code is the correspondence stream (hist: code/model/fresh-model three-way; histo: '
              'scratch-state tracking through streaming operations) plus the regenerated attribute inventory; one known finding '
              '(Nullpadding as the padding class of ECB/CBC) with a kernel-checked counter-example theorem')
TECHNIQUE = 'Lean 4 state machines per object kind + generic history induction; AST attribute inventory; exhaustive short-history differential check'
LINE_TIMEOUT = 120


# =============================================================================================
# data
def msg(n, seed=1):
    return bytes((seed * 37 + i * 11 + (i * i) // 7 + (i >> 3) * seed) % 256 for i in range(n))

def ob(v): return '-' if v is None else hx(v)
def unob(t): return None if t == '-' else unhx(t)


def kws(**pairs):
    """keyword arguments of a real call: a token `~` means the argument is omitted altogether (the default call form)"""
    out = {}
    for k, (tok, conv) in pairs.items():
        if tok != '~': out[k] = conv(tok)
    return out


def canon(v):
    if v is None: return 'none'
    if isinstance(v, (bytes, bytearray)): return hx(v)
    if isinstance(v, bool): return bo(v)
    if isinstance(v, int): return str(v)
    if hasattr(v, 'ival') and hasattr(v, 'size') and isinstance(getattr(v, 'ival'), int): return fb(v)
    if isinstance(v, (list, tuple)): return 'L' + ';'.join(canon(x) for x in v)
    return 'obj'


class _Harness(Exception):
    pass


def _reraise(e):
    if isinstance(e, (KeyboardInterrupt, SystemExit)) or type(e).__name__ == '_Timeout': raise e


# =============================================================================================
# families: make(kind, cfg) -> ctx (dict of named objects, 'obj' is the instance under test); do(ctx, target, op, args) -> value
ALGS = {'md4': ('md', 'MD4', ()), 'md5': ('md', 'MD5', ()), 'sha0': ('sha', 'SHA1', (0,)), 'sha1': ('sha', 'SHA1', (1,)),
        'sha224': ('sha', 'SHA2', (224,)), 'sha256': ('sha', 'SHA2', (256,)), 'sha384': ('sha', 'SHA2', (384,)),
        'sha512': ('sha', 'SHA2', (512,)), 'sha512_224': ('sha', 'SHA2', (512, 224)), 'sha512_256': ('sha', 'SHA2', (512, 256))}

def new_hash(alg):
    mod, cls, args = ALGS[alg]
    return getattr(importlib.import_module('crysp.' + mod), cls)(*args)


def hash_do(o, op, a):
    if op == 'call': return o(unhx(a[0]), **kws(bitlen=(a[1], unoi)))
    if op == 'update': return o.update(unhx(a[0]), **kws(bitlen=(a[1], unoi), padding=(a[2], unbo)))
    if op == 'initstate': return o.initstate()
    raise _Harness('hash op ' + op)


class HashFam:
    kinds = ('Hash',)
    def make(self, kind, cfg): return {'obj': new_hash(cfg[0]), 'sib': new_hash(cfg[0])}
    def do(self, ctx, tgt, op, a): return hash_do(ctx[tgt], op, a)


def _reload(modname):
    m = importlib.import_module(modname)
    return importlib.reload(m)


class KeccakFam:
    kinds = ('Keccak', 'SHA3', 'keccak_224', 'keccak_256', 'keccak_384', 'keccak_512')
    def make(self, kind, cfg):
        import crysp.keccak as K
        if kind == 'Keccak':
            o = K.Keccak(b=int(cfg[0]), r=int(cfg[1]), len=unoi(cfg[2]))
            if cfg[3] == 'L': o.duplexing = True
            s = K.Keccak(b=int(cfg[0]), r=int(cfg[1]), len=unoi(cfg[2]))
            if cfg[3] == 'L': s.duplexing = True
        elif kind == 'SHA3':
            from crysp.sha import SHA3
            o, s = SHA3(int(cfg[0])), SHA3(int(cfg[0]))
        else:
            K = _reload('crysp.keccak')
            o = getattr(K, kind); s = K.Keccak(b=1600, c=512, len=256)
            return {'obj': o, 'sib': s, 'sing': K.keccak_512 if kind != 'keccak_512' else K.keccak_224}
        return {'obj': o, 'sib': s, 'sing': K.keccak_256}
    def do(self, ctx, tgt, op, a):
        o = ctx[tgt]
        if op == 'call':
            if type(o).__name__ == 'SHA3' and len(a) == 1: return o(unhx(a[0]))
            return o(unhx(a[0]), **kws(bitlen=(a[1], unoi), r=(a[2], unoi)))
        if op == 'duplex': return o.duplex(unhx(a[0]), **kws(bitlen=(a[1], unoi), outlen=(a[2], unoi)))
        if op == 'setrate': return o.setrate(int(a[0]))
        raise _Harness('keccak op ' + op)
    def reconf(self, tgt, op): return tgt == 'obj' and op == 'setrate'


class Md6Fam:
    kinds = ('MD6',)
    def make(self, kind, cfg):
        from crysp.md import MD6
        mk = lambda: MD6(int(cfg[0]), Key=unhx(cfg[1]), L=int(cfg[2]))
        return {'obj': mk(), 'sib': mk()}
    def do(self, ctx, tgt, op, a):
        if op == 'call': return ctx[tgt](unhx(a[0]), **kws(bitlen=(a[1], unoi)))
        raise _Harness('md6 op ' + op)


def b2params(t):
    kw = {}
    if t != '-':
        for kv in t.split(','):
            k, v = kv.split('=')
            kw[k] = unhx(v) if v[0] == 'x' else int(v)
    return kw


class BlakeFam:
    kinds = ('Blake', 'blake224', 'blake256', 'blake384', 'blake512')
    def make(self, kind, cfg):
        if kind == 'Blake':
            from crysp.blake import Blake
            return {'obj': Blake(int(cfg[0])), 'sib': Blake(int(cfg[0]))}
        B = _reload('crysp.blake')
        return {'obj': getattr(B, kind), 'sib': B.Blake(int(kind[5:])), 'sing': B.blake512 if kind != 'blake512' else B.blake256}
    def do(self, ctx, tgt, op, a):
        o = ctx[tgt]
        if op == 'call': return o(unhx(a[0]), **kws(s=(a[1], int), bitlen=(a[2], unoi)))
        if op == 'update': return o.update(unhx(a[0]), **kws(bitlen=(a[1], unoi), padding=(a[2], unbo)))
        if op == 'initstate': return o.initstate(**kws(salt=(a[0], int)))
        raise _Harness('blake op ' + op)


class Blake2Fam:
    kinds = ('Blake2', 'blake2b', 'blake2s')
    def make(self, kind, cfg):
        if kind == 'Blake2':
            from crysp.blake import Blake2
            return {'obj': Blake2(int(cfg[0])), 'sib': Blake2(int(cfg[0]))}
        B = _reload('crysp.blake')
        return {'obj': getattr(B, kind), 'sib': B.Blake2(512 if kind == 'blake2b' else 256),
                'sing': B.blake2s if kind == 'blake2b' else B.blake2b}
    def do(self, ctx, tgt, op, a):
        o = ctx[tgt]
        if op == 'call': return o(unhx(a[0]), **b2params(a[1]))
        if op == 'update': return o.update(unhx(a[0]), **kws(padding=(a[1], unbo)))
        if op == 'initstate': return o.initstate(**b2params(a[0]))
        raise _Harness('blake2 op ' + op)


class SkeinFam:
    kinds = ('Skein',)
    def make(self, kind, cfg):
        from crysp.skein import Skein
        Y = unil(cfg[5])
        mk = lambda: Skein(int(cfg[0]), int(cfg[1]), Yl=Y[0], Yf=Y[1], Ym=Y[2], key=unob(cfg[2]), prs=unob(cfg[3]), nonce=unob(cfg[4]))
        return {'obj': mk(), 'sib': mk()}
    def do(self, ctx, tgt, op, a):
        o = ctx[tgt]
        if op == 'call': return o(unhx(a[0]), **kws(bitlen=(a[1], unoi)))
        if op == 'update': return o.update(unhx(a[0]))
        if op == 'initstate': return o._initstate()
        raise _Harness('skein op ' + op)


class HmacFam:
    kinds = ('HMAC',)
    def make(self, kind, cfg):
        from crysp.hmac import HMAC
        h = new_hash(cfg[0])
        k = unob(cfg[1])
        o = HMAC(h) if k is None else HMAC(h, k)
        return {'obj': o, 'h': h, 'sib': HMAC(h, b'another key sharing the hash object')}
    def do(self, ctx, tgt, op, a):
        o = ctx[tgt]
        if tgt == 'h': return hash_do(o, op, a)
        if op == 'call': return o(unhx(a[0]))
        if op == 'setkey': return o.setkey(None if a[0] == 'None' else unhx(a[0]))
        raise _Harness('hmac op ' + op)
    def reconf(self, tgt, op): return tgt == 'obj' and op == 'setkey'


class TlshFam:
    kinds = ('TLSH', 'tlsh')
    def make(self, kind, cfg):
        if kind == 'TLSH':
            from crysp.tlsh import TLSH
            mk = lambda: TLSH(int(cfg[0]), int(cfg[1]), int(cfg[2]))
            return {'obj': mk(), 'sib': mk()}
        T = _reload('crysp.tlsh')
        return {'obj': T.tlsh, 'sib': T.TLSH(128)}
    def do(self, ctx, tgt, op, a):
        o = ctx[tgt]
        if op == 'call': return o(unhx(a[0]), **kws(force=(a[1], unbo)))
        if op == 'update': return o.update(unhx(a[0]))
        if op == 'final': return o.final(unhx(a[0]), **kws(force=(a[1], unbo)))
        if op == 'digest': return o.digest()
        if op == 'from_hash': return o.from_hash(unhx(a[0]))
        if op == 'reset': return o.reset()
        raise _Harness('tlsh op ' + op)


class NilsimsaFam:
    kinds = ('Nilsimsa',)
    def make(self, kind, cfg):
        from crysp.nilsimsa import Nilsimsa
        mk = lambda: Nilsimsa(unoi(cfg[0]))
        return {'obj': mk(), 'sib': mk()}
    def do(self, ctx, tgt, op, a):
        o = ctx[tgt]
        if op == 'call': return o(unhx(a[0]))
        if op == 'update': return o.update(unhx(a[0]))
        if op == 'digest': return o.digest()
        if op == 'reset': return o.reset()
        raise _Harness('nilsimsa op ' + op)


def other_key(k): return bytes((x ^ 0x5a) for x in reversed(k))


def new_cipher(kind, cfg, sibling=False):
    f = other_key if sibling else (lambda k: k)
    if kind == 'AES':
        from crysp.aes import AES; return AES(f(unhx(cfg[0])))
    if kind == 'DES':
        from crysp.des import DES; return DES(f(unhx(cfg[0])))
    if kind == 'TDEA':
        from crysp.des import TDEA
        ks = [None if t == '-' else f(unhx(t)) for t in cfg[:3]]
        return TDEA(*ks)
    if kind == 'Serpent':
        from crysp.serpent import Serpent; return Serpent(f(unhx(cfg[0])))
    if kind == 'Threefish':
        from crysp.threefish import Threefish; return Threefish(f(unhx(cfg[0])), unhx(cfg[1]))
    raise _Harness('cipher ' + kind)


def cipher_do(o, op, a):
    if op == 'enc': return o.enc(unhx(a[0]))
    if op == 'dec': return o.dec(unhx(a[0]))
    if op == 'keyschedule': return len(o.keyschedule())
    raise _Harness('cipher op ' + op)


class CipherFam:
    kinds = ('AES', 'DES', 'TDEA', 'Serpent', 'Threefish')
    def make(self, kind, cfg):
        o = new_cipher(kind, cfg)
        ctx = {'obj': o, 'sib': new_cipher(kind, cfg, True)}
        if kind == 'TDEA': ctx['e1'] = o.E1; ctx['e2'] = o.E2
        return ctx
    def do(self, ctx, tgt, op, a): return cipher_do(ctx[tgt], op, a)


MODE_PADS = ('pkcs7', 'X923', 'bitpadding', 'nopadding', 'Nullpadding')

class ModeFam:
    kinds = ('ECB', 'CBC', 'CTR', 'CTS_ECB', 'CTS_CBC')
    def make(self, kind, cfg):
        from props import C05
        from crysp import mode as MO, padding as PA
        cid, n, key = cfg[0], int(cfg[1]), unhx(cfg[2])
        c = C05.TOYS[cid](n, key) if cid in C05.TOYS else new_cipher(cid, [cfg[2], '-', '-'] if cid == 'TDEA' else [cfg[2], hx(bytes(range(16)))])
        if kind in ('ECB', 'CTS_ECB'):
            o = getattr(MO, kind)(c, pad=getattr(PA, cfg[3])); pad = cfg[3]
            sib = MO.CBC(c, bytes(c.blocksize // 8), pad=getattr(PA, pad if kind == 'ECB' else 'pkcs7'))
        elif kind in ('CBC', 'CTS_CBC'):
            o = getattr(MO, kind)(c, unhx(cfg[3]), pad=getattr(PA, cfg[4])); pad = cfg[4]
            sib = MO.ECB(c, pad=getattr(PA, pad if kind == 'CBC' else 'pkcs7'))
        else:
            iv = unob(cfg[3])
            o = MO.CTR(c) if iv is None else MO.CTR(c, iv)
            sib = MO.ECB(c)
        return {'obj': o, 'c': c, 'sib': sib}
    def do(self, ctx, tgt, op, a):
        return cipher_do(ctx[tgt], op, a)


def mkbits_le(b):
    from crysp.bits import Bits
    return Bits(b, bitorder=1)


class StreamFam:
    kinds = ('Salsa20', 'Chacha')
    def make(self, kind, cfg):
        if kind == 'Salsa20':
            from crysp.salsa20 import Salsa20 as C
        else:
            from crysp.chacha import Chacha as C
        k = unhx(cfg[0])
        return {'obj': C(mkbits_le(k), int(cfg[1])), 'sib': C(mkbits_le(other_key(k)), int(cfg[1]))}
    def do(self, ctx, tgt, op, a):
        o = ctx[tgt]
        if op == 'enc': return o.enc(mkbits_le(unhx(a[0])), unhx(a[1]))
        if op == 'dec': return o.dec(mkbits_le(unhx(a[0])), unhx(a[1]))
        if op == 'keystream':
            g = o.keystream(mkbits_le(unhx(a[0])))
            out = [next(g) for _ in range(int(a[1]))]
            ctx.setdefault('_live', []).append(g)          # the generator stays suspended (not closed) during the rest of the line
            return len(out)
        if op == 'hash': return o.hash(unhx(a[0]))
        raise _Harness('stream op ' + op)


class FuncFam:
    """module-level helper functions (no object): the 'history' is earlier calls of the functions of the module"""
    kinds = ('Func',)
    def make(self, kind, cfg): return {'obj': None}
    def do(self, ctx, tgt, op, a):
        if op == 'crc32':
            from crysp import crc; return int(crc.crc32(unhx(a[0])))
        if op == 'crc32_fix':
            from crysp import crc; return crc.crc32_fix(unhx(a[0]), int(a[1]))
        if op == 'crc32_fix_pos':
            from crysp import crc; return crc.crc32_fix_pos(unhx(a[0]), int(a[1]), int(a[2]))
        if op == 'shake128':
            from crysp.sha import SHAKE128; return SHAKE128(unhx(a[0]), int(a[1]))
        if op == 'shake256':
            from crysp.sha import SHAKE256; return SHAKE256(unhx(a[0]), int(a[1]))
        if op == 'exactsum':
            from crysp.utils.knapsack import exactsum
            return repr(exactsum([(i, w) for i, w in enumerate(unil(a[0]))], int(a[1])))
        raise _Harness('func op ' + op)


FAMS = {}
for _f in (HashFam(), KeccakFam(), Md6Fam(), BlakeFam(), Blake2Fam(), SkeinFam(), HmacFam(), TlshFam(), NilsimsaFam(), CipherFam(),
           ModeFam(), StreamFam(), FuncFam()):
    for _k in _f.kinds: FAMS[_k] = _f


# =============================================================================================
def parse(line):
    parts = [p.split() for p in line.split(' | ')]
    head = parts[0]
    probe = parts[-1]
    if len(parts) < 2 or probe[0] != 'PROBE' or head[0] not in ('hist', 'histp', 'histo'): raise RuntimeError('malformed C10 line')
    return head[0], head[1], head[2:], parts[1:-1], probe[1:]


def target(ctx, optok):
    if '.' in optok:
        t, op = optok.split('.', 1)
        if t in ctx: return t, op
        raise _Harness('no target ' + t)
    return 'obj', optok


def run_line(line, fresh=False):
    _, kind, cfg, steps, probe = parse(line)
    fam = FAMS[kind]
    def go():
        ctx = fam.make(kind, cfg)
        for st in steps:
            t, op = target(ctx, st[0])
            if fresh and not (hasattr(fam, 'reconf') and fam.reconf(t, op)): continue
            try:
                fam.do(ctx, t, op, st[1:])
            except _Harness:
                raise
            except BaseException as e:
                _reraise(e)
        t, op = target(ctx, probe[0])
        return canon(fam.do(ctx, t, op, probe[1:]))
    try:
        return go()
    except _Harness:
        raise
    except BaseException as e:
        _reraise(e)
        return 'ERR'


_FRESH = {}

def fresh_result(line):
    _, kind, cfg, steps, probe = parse(line)
    fam = FAMS[kind]
    def is_rc(st):
        t, _, op = st[0].rpartition('.')
        return hasattr(fam, 'reconf') and fam.reconf(t or 'obj', op)
    rc = [st for st in steps if is_rc(st)]
    key = (kind, tuple(cfg), tuple(map(tuple, rc)), tuple(probe))
    if key not in _FRESH:
        if len(_FRESH) > 20000: _FRESH.clear()
        _FRESH[key] = run_line(line, fresh=True)
    return _FRESH[key]


def run_impl(line):
    op = line.split(' ', 1)[0]
    r = run_line(line)
    if op == 'histp':
        f = fresh_result(line)
        return 'same' if r == f else 'DIFF:%s|%s' % (r, f)
    return r


def check_impl(line, res):
    op, kind, cfg, steps, probe = parse(line)
    if op == 'histo': return None
    if op == 'histp':
        return None if res == 'same' else '%s: the probe %s depends on the history: %s (after the history | on a fresh object)' % (kind, ' '.join(probe), res[5:200])
    f = fresh_result(line)
    if f != res:
        return ('%s: after the history the probe %s returned %s, a fresh equally configured object returns %s'
                % (kind, ' '.join(probe)[:80], res[:80], f[:80]))
    return None


def nontrivial(line, res):
    return res not in ('ERR',) and ' | PROBE' in line and line.count(' | ') >= 2


# =============================================================================================
# alphabets
def H(*toks): return ' '.join(str(t) for t in toks)

M3, M64, M70, M128, M140, M200, M600, M260 = msg(3), msg(64, 2), msg(70, 3), msg(128, 4), msg(140, 5), msg(200, 6), msg(600, 7), msg(260, 8)


def hash_alpha(alg):
    big = ALGS[alg][1] == 'SHA2' and ALGS[alg][2][0] > 256
    mb, mx, bl = (M140, M128, 1043) if big else (M70, M64, 515)
    A = [H('call', hx(mb), '~'), H('call', hx(mb), 77), H('call', hx(M3), 9999), H('update', hx(mx), '~', '~'),
         H('update', hx(M3), None, 'T'), H('update', hx(mb), bl, 'T'), H('update', hx(M3), None, 'F'), H('initstate'),
         H('sib.call', hx(mb), 77), H('sib.update', hx(mx), None, 'F')]
    P = [H('call', hx(M3), '~'), H('call', hx(mb), None), H('call', hx(mb), 77), H('call', hx(M3), 9999)]
    return A, P


def keccak_alpha(kind, cfg):
    if kind == 'SHA3':
        A = [H('call', hx(M200)), H('call', hx(M3)), H('duplex', hx(M3), None, None), H('duplex', hx(M3), 13, 64),
             H('duplex', hx(M200), None, None), H('setrate', 576), H('sib.call', hx(M200)), H('sing.call', hx(M3), 13, 576)]
        P = [H('call', hx(M3)), H('call', hx(M200))]
        return A, P
    b = int(cfg[0]) if kind == 'Keccak' else 1600
    r2 = 576 if b == 1600 else 40
    mb = M200 if b == 1600 else M70
    A = [H('call', hx(mb), '~', '~'), H('call', hx(mb), 77, None), H('call', hx(M3), None, r2), H('call', hx(M3), 9999, None),
         H('call', hx(M3), 9999, r2), H('call', hx(M3), None, 2000), H('duplex', hx(M3), '~', '~'), H('duplex', hx(M3), 13, 64),
         H('duplex', hx(mb), None, None), H('setrate', r2), H('sib.call', hx(M3), 13, r2), H('sing.call', hx(M3), 13, 832)]
    P = [H('call', hx(M3), '~', '~'), H('call', hx(mb), 77, None), H('call', hx(M3), 13, r2), H('call', hx(M3), 9999, None)]
    return A, P


def md6_alpha(cfg):
    A = [H('call', hx(M70), '~'), H('call', hx(M70), 77), H('call', hx(M3), 9999), H('call', hx(M600), None), H('sib.call', hx(M70), 77)]
    P = [H('call', hx(M3), '~'), H('call', hx(M70), 77), H('call', hx(M600), 4797), H('call', hx(M3), 9999)]
    return A, P


def blake_alpha(size):
    big = size > 256
    mb, mx = (M140, M128) if big else (M70, M64)
    A = [H('call', hx(mb), '~', '~'), H('call', hx(mb), 12345, None), H('call', hx(mb), 0, 77), H('call', hx(M3), 0, 9999),
         H('update', hx(mx), '~', '~'), H('update', hx(M3), None, 'T'), H('update', hx(M3), None, 'F'), H('initstate', 99),
         H('sib.call', hx(mb), 12345, 77)]
    P = [H('call', hx(M3), '~', '~'), H('call', hx(mb), 0, None), H('call', hx(mb), 7, 77), H('call', hx(M3), 0, 9999)]
    return A, P


def blake2_alpha(size, modelled=True):
    big = size > 256
    mb, mx = (M140, M128) if big else (M70, M64)
    l = 16 if big else 8
    salt, pers = hx(msg(l, 9)), hx(msg(l, 10))
    tree = 'fanout=2,depth=2,leafl=5,noffset=7,ndepth=1,inner=3'
    A = [H('call', hx(mb), '-'), H('call', hx(mb), 'outlen=20'), H('call', hx(mb), 'salt=' + salt), H('call', hx(M3), 'pers=' + pers),
         H('call', hx(M3), tree), H('call', hx(M3), 'outlen=99'), H('call', hx(M3), 'keylen=5')] + ([] if modelled else [H('call', hx(M3), 'salt=x0102'), H('call', hx(M3), 'keylen=3,fanout=0,depth=255,outlen=1'), H('call', hx(M3), 'keylen=99'), H('initstate', 'pers=x01')]) + [
         H('update', hx(mx), '~'), H('update', hx(M3), 'T'), H('update', hx(M3), 'F'), H('initstate', 'outlen=7'),
         H('sib.call', hx(mb), 'outlen=20')]
    P = [H('call', hx(M3), '-'), H('call', hx(mb), '-'), H('call', hx(mb), 'outlen=20'), H('call', hx(M3), 'salt=%s,pers=%s' % (salt, pers)), H('call', hx(M3), 'outlen=99')]
    return A, P


def skein_alpha(cfg):
    A = [H('call', hx(M70), '~'), H('call', hx(M70), 77), H('call', hx(M3), 9999), H('update', hx(M70)), H('initstate'),
         H('sib.call', hx(M70), 77)]
    P = [H('call', hx(M3), '~'), H('call', hx(M70), None), H('call', hx(M70), 77)]
    return A, P


def hmac_alpha(alg):
    big = alg in ('sha384', 'sha512', 'sha512_224', 'sha512_256')
    longkey = msg(150 if big else 80, 11)
    A = [H('call', hx(M70)), H('call', hx(M3)), H('setkey', hx(b'k2')), H('setkey', hx(longkey)), H('setkey', 'None'),
         H('h.call', hx(M70), 77), H('h.update', hx(M128 if big else M64), None, 'F'), H('h.update', hx(M3), None, 'T'),
         H('sib.call', hx(M70))]
    P = [H('call', hx(M3)), H('call', hx(M70))]
    return A, P


def tlsh_alpha(cfg):
    dg = hx(bytes([0x12, 0x34, 0x56]) + msg(32, 13))                # a 35-byte digest for 128 buckets / chklen 1
    A = [H('call', hx(M260), '~'), H('call', hx(M140), 'T'), H('call', hx(M140), 'F'), H('call', hx(M3), 'T'), H('update', hx(M140)),
         H('final', hx(M140), 'T'), H('final', hx(M70), 'F'), H('final', 'x', 'F'), H('digest'), H('from_hash', dg), H('reset'),
         H('sib.call', hx(M140), 'T')]
    P = [H('call', hx(M260), '~'), H('call', hx(M140), 'T'), H('call', hx(M140), 'F')]
    return A, P


def nilsimsa_alpha(cfg):
    A = [H('call', hx(M70)), H('call', hx(M3)), H('update', hx(M70)), H('update', hx(M3)), H('digest'), H('reset'), H('sib.update', hx(M70))]
    P = [H('call', hx(M3)), H('call', hx(M70)), H('call', 'x')]
    return A, P


def cipher_alpha(kind, cfg):
    n = {'AES': 16, 'DES': 8, 'TDEA': 8, 'Serpent': 16}.get(kind) or len(unhx(cfg[0]))
    b1, b2 = msg(n, 21), msg(n, 22)
    A = [H('enc', hx(b1)), H('dec', hx(b2)), H('enc', hx(b1[:-1])), H('dec', hx(b1 + b'\0')), H('sib.enc', hx(b1)), H('sib.dec', hx(b2))]
    if kind == 'AES': A += [H('keyschedule'), H('sib.keyschedule')]
    if kind == 'TDEA': A += [H('e1.enc', hx(b2)), H('e2.dec', hx(b1[:-1]))]
    P = [H('enc', hx(b1)), H('dec', hx(b1)), H('enc', hx(b2[:-1]))]
    return A, P


def _toy_ct(kind, cid, n, key, iv, pad, M):
    """a well-formed ciphertext for the dec probes, from the plugin's own toy reference (C05)"""
    from props import C05
    if cid not in C05.TOYS: return None
    try:
        return C05.reference(kind, C05.TOYS[cid](n, key).enc, n, iv, pad, M)
    except Exception:
        return None


def mode_alpha(kind, cfg):
    cid, n, key = cfg[0], int(cfg[1]), unhx(cfg[2])
    iv = unhx(cfg[3]) if kind in ('CBC', 'CTS_CBC') else (unob(cfg[3]) if kind == 'CTR' else None)
    pad = cfg[3] if kind in ('ECB', 'CTS_ECB') else (cfg[4] if kind in ('CBC', 'CTS_CBC') else 'nopadding')
    ma, mb, mc = msg(2 * n + 3, 31), msg(2 * n, 32), msg(n, 33)
    if pad in ('nopadding',) and kind in ('ECB', 'CBC'): good, bad = mb, ma
    else: good, bad = ma, None
    ct = _toy_ct(kind, cid, n, key, iv if iv is not None or kind != 'CTR' else bytes(n), pad, good) if pad != 'Nullpadding' else None
    if ct is None: ct = msg(3 * n, 34)
    A = [H('enc', hx(good)), H('enc', hx(mc)), H('dec', hx(ct)), H('dec', hx(msg(2 * n, 35))), H('dec', hx(ct[:-1])),
         H('c.enc', hx(mc)), H('c.dec', hx(mc[:-1])), H('sib.enc', hx(ma)), H('sib.dec', hx(msg(2 * n, 36)))]
    if bad is not None: A.append(H('enc', hx(bad)))
    if kind in ('ECB', 'CBC', 'CTR'): A.append(H('enc', 'x'))
    P = [H('enc', hx(good)), H('dec', hx(ct)), H('enc', hx(mc))]
    return A, P


def stream_alpha(kind, cfg):
    n1, n2 = hx(msg(8, 41)), hx(msg(8, 42))
    A = [H('enc', n1, hx(M70)), H('enc', n2, hx(M3)), H('enc', n1, 'x'), H('dec', n2, hx(M70)), H('keystream', n2, 1), H('keystream', n1, 2),
         H('enc', hx(msg(4, 43)), hx(M3)), H('hash', hx(msg(64, 44))), H('sib.enc', n1, hx(M3))]
    P = [H('enc', n1, hx(M3)), H('enc', n2, hx(M70)), H('dec', n1, hx(M70))]
    return A, P


def func_alpha():
    A = [H('crc32', hx(M70)), H('crc32_fix', hx(M70), 305419896), H('crc32_fix_pos', hx(M70), 9, 0), H('crc32_fix', hx(M3), 1),
         H('shake128', hx(M3), 100), H('shake256', hx(M200), 300), H('exactsum', il([3, 5, 7, 11]), 15), H('exactsum', il([3, 5, 7, 11]), 4)]
    P = [H('crc32', hx(M3)), H('crc32_fix', hx(M70), 2271560481), H('shake128', hx(M200), 64), H('shake256', hx(M3), 8), H('exactsum', il([2, 3, 5, 7]), 10)]
    return A, P


K16, K24, K32, K8 = msg(16, 51), msg(24, 52), msg(32, 53), msg(8, 54)
IV8, IV16 = msg(8, 55), msg(16, 56)


def universe(tier):
    """(opname, kind, cfg tokens, alphabet, probes, weight class) for every object configuration of the tier"""
    U = []
    def add(op, kind, cfg, ap, cls='std'): U.append((op, kind, [str(c) for c in cfg], ap[0], ap[1], cls))
    full = tier != 'quick'
    for alg in (ALGS if full else ('md4', 'md5', 'sha0', 'sha1', 'sha256', 'sha512_224')):
        add('hist', 'Hash', [alg], hash_alpha(alg))
    add('hist', 'Keccak', [1600, 1088, 256, 'N'], keccak_alpha('Keccak', ['1600']), 'slow')
    add('hist', 'Keccak', [200, 72, 64, 'L'], keccak_alpha('Keccak', ['200']), 'slow')
    if full: add('hist', 'Keccak', [1600, 576, 128, 'L'], keccak_alpha('Keccak', ['1600']), 'slow')
    add('hist', 'SHA3', [256], keccak_alpha('SHA3', []), 'slow')
    if full: add('hist', 'SHA3', [512], keccak_alpha('SHA3', []), 'slow')
    for s in (('keccak_256',) if not full else ('keccak_224', 'keccak_256', 'keccak_384', 'keccak_512')):
        add('hist', s, [], keccak_alpha(s, []), 'slow')
    add('hist', 'MD6', [256, 'x', 64], md6_alpha(None), 'slow')
    add('hist', 'MD6', [160, hx(b'key'), 0], md6_alpha(None), 'slow')
    if full: add('hist', 'MD6', [224, hx(b'k'), 1], md6_alpha(None), 'slow')
    for size in ((256, 512) if not full else (224, 256, 384, 512)):
        add('hist', 'Blake', [size], blake_alpha(size))
    for s in (('blake256',) if not full else ('blake224', 'blake256', 'blake384', 'blake512')):
        add('hist', s, [], blake_alpha(int(s[5:])))
    for size in (512, 256):
        add('hist', 'Blake2', [size], blake2_alpha(size))
    add('hist', 'blake2b', [], blake2_alpha(512))
    a2, p2 = blake2_alpha(512, False)
    add('histp', 'Blake2', [512], ([a for a in a2 if a not in blake2_alpha(512)[0]] + a2[:2] + [a for a in a2 if a.startswith('update')][:2], p2[:3]))
    if full: add('hist', 'blake2s', [], blake2_alpha(256))
    add('hist', 'Skein', [256, 256, '-', '-', '-', 'l0,0,0'], skein_alpha(None))
    add('hist', 'Skein', [512, 512, hx(b'kk'), hx(b'p'), hx(b'n'), 'l0,0,0'], skein_alpha(None))
    add('hist', 'Skein', [256, 256, '-', '-', '-', 'l1,1,3'], skein_alpha(None))
    if full:
        add('hist', 'Skein', [1024, 1100, 'x', '-', '-', 'l0,0,0'], skein_alpha(None))
        add('hist', 'Skein', [512, 200, hx(msg(70, 61)), '-', hx(msg(9, 62)), 'l2,1,2'], skein_alpha(None))
    for alg, key in (('sha256', hx(b'key')), ('md5', hx(msg(80, 12))), ('sha1', '-')) + ((('sha512', hx(msg(150, 14))), ('md4', hx(msg(64, 15)))) if full else ()):
        add('hist', 'HMAC', [alg, key], hmac_alpha(alg))
    add('hist', 'TLSH', [128, 5, 1], tlsh_alpha(None))
    if full: add('hist', 'TLSH', [48, 4, 3], tlsh_alpha(None)); add('hist', 'TLSH', [256, 8, 1], tlsh_alpha(None))
    add('hist', 'tlsh', [], tlsh_alpha(None))
    add('hist', 'Nilsimsa', ['None'], nilsimsa_alpha(None))
    add('hist', 'Nilsimsa', [11], nilsimsa_alpha(None))
    add('hist', 'AES', [hx(K16)], cipher_alpha('AES', None))
    add('hist', 'AES', [hx(K32)], cipher_alpha('AES', None))
    if full: add('hist', 'AES', [hx(K24)], cipher_alpha('AES', None))
    add('hist', 'DES', [hx(K8)], cipher_alpha('DES', None))
    add('hist', 'TDEA', [hx(K16), '-', '-'], cipher_alpha('TDEA', None))
    add('hist', 'TDEA', [hx(K8), hx(msg(8, 57)), hx(msg(8, 58))], cipher_alpha('TDEA', None))
    if full: add('hist', 'TDEA', [hx(K24), '-', '-'], cipher_alpha('TDEA', None))
    add('hist', 'Serpent', [hx(K16)], cipher_alpha('Serpent', None))
    if full: add('hist', 'Serpent', [hx(K32)], cipher_alpha('Serpent', None))
    add('hist', 'Threefish', [hx(K32), hx(IV16)], cipher_alpha('Threefish', [hx(K32)]))
    add('hist', 'Threefish', [hx(msg(128, 60)), hx(msg(16, 63))], cipher_alpha('Threefish', [hx(msg(128, 60))]))
    if full: add('hist', 'Threefish', [hx(msg(64, 59)), hx(IV16)], cipher_alpha('Threefish', [hx(msg(64, 59))]))
    # modes over the toy ciphers (both sides model them) and over real ciphers
    for pad in ('pkcs7', 'X923', 'bitpadding', 'nopadding'):
        if full or pad in ('pkcs7', 'nopadding'):
            cfg = ['rot', 8, hx(K8), pad]; add('hist', 'ECB', cfg, mode_alpha('ECB', cfg))
        if full or pad in ('pkcs7', 'X923'):
            cfg = ['aff', 16, hx(K16), hx(IV16), pad]; add('hist', 'CBC', cfg, mode_alpha('CBC', cfg))
    cfg = ['rot', 8, hx(K8), hx(IV8)]; add('hist', 'CTR', cfg, mode_alpha('CTR', cfg))
    cfg = ['aff', 16, hx(K16), '-']; add('hist', 'CTR', cfg, mode_alpha('CTR', cfg))
    # counter whose low half wraps during the very first call (the high half must be the same in every later call)
    cfg = ['rot', 8, hx(K8), hx(msg(4, 57) + b'\xff\xff\xff\xfe')]; add('hist', 'CTR', cfg, mode_alpha('CTR', cfg))
    cfg = ['rot', 8, hx(K8), 'nopadding']; add('hist', 'CTS_ECB', cfg, mode_alpha('CTS_ECB', cfg))
    cfg = ['aff', 16, hx(K16), hx(IV16), 'nopadding']; add('hist', 'CTS_CBC', cfg, mode_alpha('CTS_CBC', cfg))
    cfg = ['AES', 16, hx(K16), 'pkcs7']; add('hist', 'ECB', cfg, mode_alpha('ECB', cfg))
    cfg = ['AES', 16, hx(K16), hx(IV16), 'bitpadding']; add('hist', 'CBC', cfg, mode_alpha('CBC', cfg))
    cfg = ['DES', 8, hx(K8), hx(IV8)]; add('hist', 'CTR', cfg, mode_alpha('CTR', cfg))
    if full:
        cfg = ['Serpent', 16, hx(K16), hx(IV16), 'X923']; add('hist', 'CBC', cfg, mode_alpha('CBC', cfg))
        cfg = ['TDEA', 8, hx(K16), 'pkcs7']; add('hist', 'ECB', cfg, mode_alpha('ECB', cfg))
        cfg = ['Threefish', 32, hx(K32), hx(msg(32, 64)), 'pkcs7']; add('hist', 'CBC', cfg, mode_alpha('CBC', cfg))
        cfg = ['Threefish', 64, hx(msg(64, 59)), '-']; add('hist', 'CTR', cfg, mode_alpha('CTR', cfg))
    cfg = ['rot', 8, hx(K8), 'Nullpadding']; add('hist', 'ECB', cfg, mode_alpha('ECB', cfg), 'known')
    add('hist', 'Salsa20', [hx(K32), 8], stream_alpha('Salsa20', None), 'slow')
    add('hist', 'Salsa20', [hx(K16), 20], stream_alpha('Salsa20', None), 'slow')
    add('hist', 'Chacha', [hx(K32), 8], stream_alpha('Chacha', None), 'slow')
    if full: add('hist', 'Chacha', [hx(K16), 20], stream_alpha('Chacha', None), 'slow')
    add('histp', 'Func', [], func_alpha())
    return U


OBSERVERS = ('update', 'duplex', 'digest', 'final', 'h.update')

def observers(A):
    """the streaming / stateful operations of an alphabet whose return value shows the scratch state"""
    return [a for a in A if a.split()[0] in OBSERVERS]


def mkline(op, kind, cfg, steps, probe):
    return ' | '.join([' '.join([op, kind] + cfg)] + list(steps) + ['PROBE ' + probe])


def cases(tier, rng):
    if tier != 'search':
        import random
        out = list(_cases(tier, rng))
        random.Random(20260927).shuffle(out)          # fixed permutation: spreads the slow kinds over the worker chunks
        yield from out
        return
    yield from _cases(tier, rng)


def _cases(tier, rng):
    if tier == 'search':
        U = universe('thorough')
        while True:
            op, kind, cfg, A, P, cls = rng.choice(U)
            if cls == 'known': continue
            n = rng.choice((1, 2, 2, 3, 3, 4, 5, 6, 8))
            yield mkline(op, kind, cfg, [rng.choice(A) for _ in range(n)], rng.choice(P)), 'search:%s' % kind
    U = universe(tier)
    exh = 2 if tier == 'quick' else 3
    for op, kind, cfg, A, P, cls in U:
        depth = 1 if cls == 'known' else exh
        for n in range(depth + 1):
            # every history of length n; followed by every probe (short histories) or by probes taken in rotation
            # (longest exhaustive length: one probe per history), so that every probe follows every step
            per = len(P) if (n < depth or n <= 1) else 1
            for j, seq in enumerate(itertools.product(A, repeat=n)):
                for k in range(per):
                    yield mkline(op, kind, cfg, seq, P[(j + k + sum(map(len, seq))) % len(P)]), '%s:len%d' % (kind, n)
        if cls == 'known': continue
        # observation lines (code <-> model only): every history of length <= 1 (quick) / <= 2 (thorough) followed by each observer
        O = observers(A) if op == 'hist' else []
        for n in range(2 if tier == 'quick' else 3):
            for seq in itertools.product(A, repeat=n):
                for o in O:
                    yield mkline('histo', kind, cfg, seq, o), '%s:observe%d' % (kind, n)
        # seeded longer histories
        if tier == 'quick':
            for _ in range(16 if cls == 'slow' else 40):
                yield mkline(op, kind, cfg, [rng.choice(A) for _ in range(3)], rng.choice(P)), '%s:len3-seeded' % kind
        else:
            for _ in range(60 if cls == 'slow' else 200):
                n = rng.randint(4, 8)
                yield mkline(op, kind, cfg, [rng.choice(A) for _ in range(n)], rng.choice(P)), '%s:len4-8-seeded' % kind


def shrink(line):
    op, kind, cfg, steps, probe = parse(line)
    steps = [' '.join(s) for s in steps]
    out = []
    for i in range(len(steps)):
        out.append(mkline(op, kind, cfg, steps[:i] + steps[i + 1:], ' '.join(probe)))
    return out
