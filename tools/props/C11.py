"""C11 — BLAKE and BLAKE2 digests equal their specifications for all inputs and parameters; per-block counter and
finalization-flag rules.

run_impl executes the op line on the real crysp.blake.  The driver answers with Model.Blake (mirror of the code) and
with Spec.Blake / Spec.Blake2 (the submission / RFC 7693).  check_impl is the property's own predicate on the
implementation's output: the digest length, hashlib.blake2b/blake2s as a second, independent oracle for every BLAKE2
line hashlib accepts, and for the trace ops the counter / final-flag rule written directly from the property text.
The `blakeseqs` / `blake2seq` / `blake2seq.trace` lines (one object through several calls and streams; streamed runs) are
executed by the C14 part (props/parts/c14_blake.py, Driver.BlakeD) and judged HERE against hashlib: every call / finished
stream is the digest for the parameters of that call / that initstate alone."""
import hashlib
from props.common import *
from props.parts import c14_blake as SEQ      # the streaming / whole-life ops (blake2seq, blakeseqs …) and their execution on the real code

ID = 'C11'
LEAN_PROOFS = ['Proofs.C11', 'Proofs.C11_Kat']
GEN_ITEMS = ['BlakeG']
RULE = ('op lines = (variant, salt/parameters, message, bit length); message lengths 0..4 blocks at every block multiple +-2 and '
        'around the spill boundaries 55/56/64, 111/112/128 (+-2), every L mod 8, salts and every BLAKE2 parameter at edge values, '
        'outlen 1..32/64 exhaustively, preset counters around 2^32 / 2^64 (low-word boundary); '
        'ONE object (`blakeseqs` lines on a new Blake2 object and on the module singletons blake2b/blake2s; ops and model of the C14 part): a call WITH each '
        'optional parameter (every digest length, salt, pers, fanout, depth, leaf length, node offset, node depth, inner length), a refused call / initstate, '
        'a parametrised stream - each followed by a default call and a default stream, both digests against hashlib; streamed runs initstate(); update(1-2 blocks) x 1..3; '
        'update(tail, padding=True) with tails 1, B-1, B, B+1 (`blake2seq` digest + bit counts against hashlib, `blake2seq.trace` (t,f) of every compression over all the calls: '
        'the flag on the last block of the message only); BLAKE: salted / bit-length / refused call, then default call and streams; distinct lines; '
        'non-trivial = the implementation returned a digest')
TRUSTED = ['Spec.Blake is typed from the BLAKE submission; the only executable cross-check of it in this image are the known answers of tests/test_blake.py (corpus/C11.ops); the submission\'s digests of the one-byte message 00 for BLAKE-224/256/384/512 hold for Spec.Blake in the kernel and for the model through blake_refines (Proofs.C11_Kat)',
           'Spec.Blake2 is typed from RFC 7693 and cross-checked against hashlib.blake2b/blake2s through check_impl on every line hashlib accepts',
           'struct.unpack / Bits(bytes,bitorder=1).split / pack plumbing of blake.py is modelled by its meaning (Model.Blake.wordsBE/wordsLE/digest)',
           'the counter trace of the real code is observed by wrapping the name `Bits` in crysp.blake (every Bits(x,2*wsize) call is the counter injection)']
ASSUMPTIONS = ['python -O (asserts stripped) is out of scope',
               'BLAKE2 keyed mode is out of scope (the property lists no key); salt / personalisation are empty or exactly the field width',
               'BLAKE2 tree parameters in range (fanout, depth, node depth < 256, leaf length < 2^32, node offset < 2^64 / 2^48, inner length <= 64 / 32)',
               'BLAKE salt 0 <= s < 2^(4*wordsize)']
LINE_TIMEOUT = 120

SIZES = (224, 256, 384, 512)
def blk(n): return 128 if n > 256 else 64         # block bytes of BLAKE-n
def wbits(n): return 64 if n > 256 else 32
B2 = {'b': (512, 128, 64), 's': (256, 64, 32)}    # size, block bytes, max outlen


# ---------------------------------------------------------------------------------------------
def _spy(h, f):
    """run f() while recording every counter injection Bits(x, 2*wsize) of crysp.blake (and Blake2's flag word)"""
    import crysp.blake as BL
    orig = BL.Bits
    w2 = 2 * h.wsize
    rec = []
    def spy(*a, **k):
        if len(a) == 2 and not k and a[1] == w2:
            rec.append(int(a[0]))
            if isinstance(h, BL.Blake2): rec.append(1 if h.f.ival[0] else 0)
        return orig(*a, **k)
    BL.Bits = spy
    try:
        f()
    finally:
        BL.Bits = orig
    return rec


SEQ_OPS = ('blakeseqs', 'blakeseq', 'blakeseq.trace', 'blake2seq', 'blake2seq.trace')
SINGLETONS = ('blake224', 'blake256', 'blake384', 'blake512', 'blake2b', 'blake2s')


def run_impl(line):
    import crysp.blake as BL
    t = line.split()
    op, a = t[0], t[1:]
    if op in SEQ_OPS:
        # the module singletons are shared by every line of this worker: later lines see them as this line found them
        saved = [(getattr(BL, n), dict(vars(getattr(BL, n)))) for n in SINGLETONS if hasattr(BL, n)]
        try: return SEQ.run_impl(line)
        finally:
            for o, d in saved: vars(o).clear(); vars(o).update(d)
    def go():
        if op == 'blake':
            return hx(BL.Blake(int(a[0]))(unhx(a[2]), int(a[1]), unoi(a[3])))
        if op == 'blake.s':
            return hx(getattr(BL, 'blake' + a[0])(unhx(a[2]), int(a[1]), unoi(a[3])))
        if op == 'blake.pre':
            h = BL.Blake(int(a[0])); h.initstate(int(a[1])); h.padmethod.bitcnt = int(a[2])
            return hx(h.update(unhx(a[3]), padding=True))
        if op == 'blake.trace':
            h = BL.Blake(int(a[0])); h.initstate(0); h.padmethod.bitcnt = int(a[1])
            return il(_spy(h, lambda: h.update(unhx(a[2]), bitlen=unoi(a[3]), padding=True)))
        if op == 'blake2':
            size = B2[a[0]][0]
            kw = dict(salt=unhx(a[2]), pers=unhx(a[3]), fanout=int(a[4]), depth=int(a[5]), leafl=int(a[6]),
                      noffset=int(a[7]), ndepth=int(a[8]), inner=int(a[9]))
            if a[1] != 'None': kw['outlen'] = int(a[1])
            return hx(BL.Blake2(size)(unhx(a[10]), **kw))
        if op == 'blake2.s':
            f = BL.blake2b if a[0] == 'b' else BL.blake2s
            kw = {} if a[1] == 'None' else {'outlen': int(a[1])}
            return hx(f(unhx(a[2]), **kw))
        if op == 'blake2.pre':
            h = BL.Blake2(B2[a[0]][0]); h.initstate(); h.padmethod.bitcnt = int(a[1])
            return hx(h.update(unhx(a[2]), padding=True))
        if op == 'blake2.trace':
            h = BL.Blake2(B2[a[0]][0]); h.initstate(); h.padmethod.bitcnt = int(a[1])
            return il(_spy(h, lambda: h.update(unhx(a[2]), padding=True)))
        raise RuntimeError('unknown op ' + op)
    return guarded(go)


# ---------------------------------------------------------------------------------------------
H2KW = {'outlen': 'digest_size', 'salt': 'salt', 'pers': 'person', 'fanout': 'fanout', 'depth': 'depth', 'leafl': 'leaf_size',
        'noffset': 'node_offset', 'ndepth': 'node_depth', 'inner': 'inner_size'}

def h2digest(v, M, kw):
    """hashlib's BLAKE2 digest for the crysp keywords kw (None: hashlib refuses the parameter set, e.g. depth 0)"""
    ref = hashlib.blake2b if v == 'b' else hashlib.blake2s
    try: return ref(M, **{H2KW[k]: x for k, x in kw.items()}).digest()
    except (ValueError, OverflowError): return None


def check_lives(line, res):
    """`blakeseqs`: ONE object (or the module singleton) through calls with optional parameters, default calls and streamed
    runs.  BLAKE2: every complete call and every finished stream is hashlib's digest for the parameters given to THAT call /
    THAT initstate (the defaults for every parameter not given there, whatever was given before), a digest length out of
    range is refused, a piece that is not whole blocks is refused, the counter after each piece is the bits fed since
    initstate.  BLAKE: digest length; the fresh-object comparison of the C14 part."""
    clss, steps = SEQ.parse_multi(line)
    outs = res.split(';')
    if len(outs) != len(steps): return 'blakeseqs: %d results for %d steps' % (len(outs), len(steps))
    stream, seen = {}, {}
    for i, ((k, st), o) in enumerate(zip(steps, outs)):
        if k is None: continue
        cls = clss[k].lstrip('@')
        seen.setdefault(k, []).append(' '.join([st[0]] + (st[1:] if st[0] == 'init' else st[2:] if st[0] == 'call' else [])))
        bad = lambda why: 'blakeseqs object %d (%s) step #%d after [%s]: %s' % (k, clss[k], i, ' | '.join(seen[k][:-1]), why)
        if cls not in B2:
            if st[0] in ('fin', 'call') and o != 'ERR' and len(unhx(o)) != int(cls) // 8:
                return bad('digest length %d, expected %d' % (len(unhx(o)), int(cls) // 8))
            continue
        size, bb, mx = B2[cls]
        if st[0] == 'new': stream[k] = None
        elif st[0] in ('init', 'call'):
            kw = SEQ.kw_of(st[1:] if st[0] == 'init' else st[2:])
            stream[k] = None
            if not 1 <= kw.get('outlen', mx) <= mx:
                if o != 'ERR': return bad('a digest length out of range must be refused')
                continue
            if o == 'ERR': return bad('unexpected exception')
            if st[0] == 'init':
                stream[k] = (b'', kw)
                if o != 'c0': return bad('counter %s right after initstate' % o)
                continue
            exp = h2digest(cls, unhx(st[1]), kw)
            if len(unhx(o)) != kw.get('outlen', mx): return bad('digest has %d bytes, this call asked for %d' % (len(unhx(o)), kw.get('outlen', mx)))
            if exp is not None and unhx(o) != exp:
                return bad('the call (%s) gives %s, hashlib with just these parameters %s' % (' '.join(st[2:]) or 'no keyword', o[:25], exp.hex()[:24]))
        elif stream.get(k) is None: continue
        else:
            msg, kw = stream[k]; p = unhx(st[1])
            if len(st) > 2 or (st[0] == 'upd' and len(p) % bb):
                stream[k] = None
                if o != 'ERR': return bad('a piece that must be refused was accepted')
            elif st[0] == 'upd':
                stream[k] = (msg + p, kw)
                if o != 'c%d' % (8 * len(msg + p)): return bad('%s after %d bits' % (o, 8 * len(msg + p)))
            else:
                stream[k] = None
                if not p and msg: continue                         # empty final piece after data: known finding of C14
                if o == 'ERR': return bad('unexpected exception')
                exp = h2digest(cls, msg + p, kw)
                if len(unhx(o)) != kw.get('outlen', mx): return bad('streamed digest has %d bytes, initstate asked for %d' % (len(unhx(o)), kw.get('outlen', mx)))
                if exp is not None and unhx(o) != exp:
                    return bad('initstate(%s); %d bytes in pieces; final piece of %d bytes gives %s, hashlib %s' % (
                        ' '.join('%s=%s' % kv for kv in kw.items()), len(msg), len(p), o[:25], exp.hex()[:24]))
    return SEQ.check_multi(line, res)


def check_streamed(op, a, res):
    """`blake2seq` / `blake2seq.trace` (and the BLAKE ones): initstate(); update(p1) … update(pk, padding=True)"""
    bad = lambda why: '%s: %s' % (op, why)
    two = op.startswith('blake2')
    first = 1 if two or op.endswith('.trace') else 2
    ps = [unhx(x) for x in a[first:]]
    bb = B2[a[0]][1] if two else blk(int(a[0]))
    if not ps or any(len(p) % bb for p in ps[:-1]):
        return None if res == 'ERR' else bad('a non-final piece that is not block aligned must be refused')
    if res == 'ERR': return bad('unexpected exception')
    M = b''.join(ps)
    if op == 'blake2seq':
        if not ps[-1] and M: return None                           # empty final piece after data: known finding of C14
        cnts, tot = [], 0
        for p in ps[:-1]: tot += 8 * len(p); cnts.append(tot)
        exp = hx(h2digest(a[0], M, {})) + ';' + il(cnts)
        return None if res == exp else bad('pieces of %s bytes: streamed %s, hashlib;bit counts %s' % ([len(p) for p in ps], res[:40], exp[:40]))
    if op == 'blake2seq.trace':
        # (byte counter, final flag) of every compression over ALL the calls: the bytes of the message up to the end of the
        # block, the flag on the last block of the message only
        if not ps[-1] and M: return None
        dd = max(1, (len(M) + bb - 1) // bb)
        exp = []
        for i in range(dd): exp += [min(len(M), (i + 1) * bb), 1 if i == dd - 1 else 0]
        return None if unil(res) == exp else bad('pieces of %s bytes: (t,f) %s, expected %s' % ([len(p) for p in ps], res, il(exp)))
    return SEQ.check_impl(' '.join([op] + a), res)


def check_impl(line, res):
    t = line.split(); op, a = t[0], t[1:]
    bad = lambda why: '%s: %s' % (op, why)
    if op == 'blakeseqs': return check_lives(line, res)
    if op in SEQ_OPS: return check_streamed(op, a, res)
    if op in ('blake', 'blake.s', 'blake.pre'):
        n = int(a[0])
        if n not in SIZES: return None if res == 'ERR' else bad('size must be refused')
        if op != 'blake.pre':
            M = unhx(a[2]); L = unoi(a[3])
            if L is not None and L > 8 * len(M): return None if res == 'ERR' else bad('bitlen > 8|M| must be refused')
        if res == 'ERR': return bad('unexpected exception')
        if len(unhx(res)) != n // 8: return bad('digest length %d, expected %d' % (len(unhx(res)), n // 8))
        return None
    if op == 'blake.trace':
        n = int(a[0]); done = int(a[1]); M = unhx(a[2]); L = unoi(a[3])
        if L is None: L = 8 * len(M)
        if L > 8 * len(M): return None
        if res == 'ERR': return bad('unexpected exception')
        Bb = 8 * blk(n)
        nblocks = (L + 2 + 2 * wbits(n) + Bb - 1) // Bb
        exp = [(done + min(L, (i + 1) * Bb)) if i * Bb < L else 0 for i in range(nblocks)]
        return None if unil(res) == exp else bad('counters %s, expected %s' % (res, il(exp)))
    if op in ('blake2', 'blake2.s', 'blake2.pre'):
        size, bb, mx = B2[a[0]]
        ref = hashlib.blake2b if a[0] == 'b' else hashlib.blake2s
        if op == 'blake2.pre':
            if res == 'ERR': return bad('unexpected exception')
            return None if len(unhx(res)) == mx else bad('digest length')
        outlen = mx if a[1] == 'None' else int(a[1])
        if not 1 <= outlen <= mx: return None if res == 'ERR' else bad('outlen out of range must be refused')
        if res == 'ERR': return bad('unexpected exception')
        if len(unhx(res)) != outlen: return bad('digest length %d, expected %d' % (len(unhx(res)), outlen))
        if op == 'blake2.s':
            exp = ref(unhx(a[2]), digest_size=outlen).digest()
        else:
            if int(a[5]) == 0: return None      # hashlib refuses depth 0; compared with Spec.Blake2 only
            exp = ref(unhx(a[10]), digest_size=outlen, salt=unhx(a[2]), person=unhx(a[3]), fanout=int(a[4]), depth=int(a[5]),
                      leaf_size=int(a[6]), node_offset=int(a[7]), node_depth=int(a[8]), inner_size=int(a[9])).digest()
        return None if unhx(res) == exp else bad('differs from hashlib')
    if op == 'blake2.trace':
        size, bb, mx = B2[a[0]]
        done = int(a[1]) // 8; ll = len(unhx(a[2]))
        if res == 'ERR': return bad('unexpected exception')
        dd = max(1, (ll + bb - 1) // bb)
        exp = []
        for i in range(dd): exp += [done + min(ll, (i + 1) * bb), 1 if i == dd - 1 else 0]
        return None if unil(res) == exp else bad('(t,f) %s, expected %s' % (res, il(exp)))
    return None


# ---------------------------------------------------------------------------------------------
def rb(rng, n): return bytes(rng.getrandbits(8) for _ in range(n))

def lens_for(bb, nb, wide):
    """message byte lengths: every block multiple up to nb blocks +-2, the spill boundary of BLAKE (bb-2w/8-1) +-2 in every block"""
    spill = bb - bb // 8 - 1          # 55 / 111
    s = {0, 1, 2, 3}
    for k in range(nb + 1):
        for d in range(-2, 3):
            for base in (k * bb, k * bb + spill, k * bb + spill + 1):
                v = base + d
                if 0 <= v <= nb * bb + 2: s.add(v)
    if not wide: s = {v for v in s if v <= 2 * bb + 2 or v % bb in (0, 1, bb - 1, spill, spill + 1)}
    return sorted(s)

def b2line(v, outlen, salt, pers, fanout, depth, leafl, noffset, ndepth, inner, M):
    return 'blake2 %s %s %s %s %d %d %d %d %d %d %s' % (v, oi(outlen), hx(salt), hx(pers), fanout, depth, leafl, noffset, ndepth, inner, hx(M))


def blake_cases(tier, rng):
    quick = tier == 'quick'
    for n in SIZES:
        bb = blk(n); w = wbits(n); Bb = 8 * bb
        # --- message lengths (byte aligned)
        for l in lens_for(bb, 4, not quick):
            M = rb(rng, l)
            yield 'blake %d 0 %s None' % (n, hx(M)), 'blake.len'
            yield 'blake.trace %d 0 %s None' % (n, hx(M)), 'blake.trace'
        # --- every L mod 8 around the spill boundary and the block boundary, in the first and second block
        bits = set()
        for base in (0, Bb):
            for L in list(range(Bb - 2 * w - 12, Bb - 2 * w + 3)) + list(range(Bb - 9, Bb + 10)) + list(range(0, 10)):
                bits.add(base + L)
        for L in sorted(bits):
            for extra in ((0,) if quick else (0, 1, bb)):         # M may be longer than the bits used
                M = rb(rng, (L + 7) // 8 + extra)
                yield 'blake %d 0 %s %d' % (n, hx(M), L), 'blake.bitlen'
                if extra == 0: yield 'blake.trace %d 0 %s %d' % (n, hx(M), L), 'blake.trace'
        # --- salts
        edge = [1, (1 << w) - 1, 1 << w, (1 << (2 * w)) + 5, (1 << (3 * w)) - 1, 1 << (4 * w - 1), (1 << (4 * w)) - 1]
        for s in edge + [rng.getrandbits(4 * w) for _ in range(3 if quick else 20)]:
            for l in (0, 3, bb - 9, bb, bb + 1):
                yield 'blake %d %d %s None' % (n, s, hx(rb(rng, l))), 'blake.salt'
            M = rb(rng, bb + 7)
            yield 'blake %d %d %s %d' % (n, s, hx(M), 8 * len(M) - 3), 'blake.salt'
        # --- singletons
        for l in (0, 5, bb, 2 * bb + 1):
            yield 'blake.s %d %d %s None' % (n, rng.getrandbits(9), hx(rb(rng, l))), 'blake.singleton'
        # --- counters crossing the low-word boundary 2^w (and the 2w-bit wrap) via the preset pad state
        for top in (1 << w, 1 << (2 * w)):
            for k in (1, 2, 3):
                pre = top - k * Bb
                for l in (0, 1, bb - 9, bb - 8, bb, bb + 1, 2 * bb, 2 * bb + 5, 3 * bb):
                    M = rb(rng, l)
                    yield 'blake.pre %d %d %d %s' % (n, rng.getrandbits(5), pre, hx(M)), 'blake.preset'
                    yield 'blake.trace %d %d %s None' % (n, pre, hx(M)), 'blake.trace.preset'
                    if l: yield 'blake.trace %d %d %s %d' % (n, pre, hx(M), 8 * l - 5), 'blake.trace.preset'
        # --- seeded random
        for _ in range(12 if quick else 1200):
            l = rng.randrange(0, 5 * bb) if quick or rng.random() < .8 else rng.randrange(5 * bb, 16 * bb + 2)
            M = rb(rng, l)
            L = rng.choice([None, None, rng.randrange(0, 8 * l + 1) or None])
            yield 'blake %d %d %s %s' % (n, rng.getrandbits(4 * w) if rng.random() < .5 else 0, hx(M), oi(L)), 'blake.random'
    # --- malformed
    yield 'blake 256 0 x0102 17', 'blake.malformed'
    yield 'blake 512 0 x 1', 'blake.malformed'
    yield 'blake 257 0 x00 None', 'blake.malformed'
    yield 'blake 128 0 x00 None', 'blake.malformed'
    yield 'blake 256 0 x None', 'blake.len'
    # explicit bitlen=0 with a non-empty message hashes the empty message
    for n in SIZES:
        for l in (3, blk(n), blk(n) + 1, 2 * blk(n)):
            yield "blake %d 0 %s 0" % (n, hx(rb(rng, l))), "blake.bitlen0"


def blake2_cases(tier, rng):
    quick = tier == 'quick'
    for v, (size, bb, mx) in B2.items():
        l8 = mx // 4                       # salt / personalisation width
        D = lambda M, **k: b2line(v, k.get('outlen'), k.get('salt', b''), k.get('pers', b''), k.get('fanout', 1), k.get('depth', 1),
                                  k.get('leafl', 0), k.get('noffset', 0), k.get('ndepth', 0), k.get('inner', 0), M)
        # --- message lengths: the defect of the unrepaired code shows on every message longer than one block
        for l in lens_for(bb, 4, not quick):
            M = rb(rng, l)
            yield D(M), 'blake2.len'
            yield 'blake2.trace %s 0 %s' % (v, hx(M)), 'blake2.trace'
        # --- every digest length
        for o in range(1, mx + 1):
            yield D(rb(rng, rng.choice([0, 3, bb, bb + 1, 2 * bb])), outlen=o), 'blake2.outlen'
        for o in (0, mx + 1, mx + 200):
            yield D(b'abc', outlen=o), 'blake2.malformed'
        # --- every parameter at its edge values
        nmax = (1 << 64) - 1 if v == 'b' else (1 << 48) - 1
        edges = {'fanout': [0, 2, 255], 'depth': [0, 2, 255], 'leafl': [1, 1 << 16, (1 << 32) - 1],
                 'noffset': [1, 1 << 32, nmax], 'ndepth': [1, 255], 'inner': [1, mx],
                 'salt': [b'\xff' * l8, bytes(range(1, l8 + 1))], 'pers': [b'\xff' * l8, bytes(range(0x81, 0x81 + l8))]}
        for k, vals in edges.items():
            for x in vals:
                for l in (0, 3, bb + 1):
                    yield D(rb(rng, l), **{k: x}), 'blake2.param.' + k
        yield D(b'abc', salt=b'\xff' * l8, pers=bytes(range(l8)), fanout=255, depth=255, leafl=(1 << 32) - 1, noffset=nmax, ndepth=255, inner=mx, outlen=1), 'blake2.param.all'
        # --- singletons
        for o in (None, 1, mx // 2, mx):
            for l in (0, 5, 2 * bb + 1):
                yield 'blake2.s %s %s %s' % (v, oi(o), hx(rb(rng, l))), 'blake2.singleton'
        # --- byte counter crossing the low word (2^w bytes) and the 2w-bit wrap, via the preset pad state
        w = mx
        for top in (1 << w, 1 << (2 * w)):
            for k in (1, 2, 3):
                pre = 8 * (top - k * bb)
                for l in (1, bb - 1, bb, bb + 1, 2 * bb, 2 * bb + 5, 3 * bb):   # an empty tail after data: see C14 known finding
                    M = rb(rng, l)
                    yield 'blake2.pre %s %d %s' % (v, pre, hx(M)), 'blake2.preset'
                    yield 'blake2.trace %s %d %s' % (v, pre, hx(M)), 'blake2.trace.preset'
        # --- seeded random
        for _ in range(30 if quick else 3000):
            M = rb(rng, rng.randrange(0, 5 * bb) if quick or rng.random() < .8 else rng.randrange(5 * bb, 16 * bb + 2))
            k = {}
            if rng.random() < .5: k['outlen'] = rng.randrange(1, mx + 1)
            if rng.random() < .3: k['salt'] = rb(rng, l8)
            if rng.random() < .3: k['pers'] = rb(rng, l8)
            if rng.random() < .3: k['fanout'] = rng.randrange(256)
            if rng.random() < .3: k['depth'] = rng.randrange(1, 256)
            if rng.random() < .3: k['leafl'] = rng.getrandbits(32)
            if rng.random() < .3: k['noffset'] = rng.getrandbits(64 if v == 'b' else 48)
            if rng.random() < .3: k['ndepth'] = rng.randrange(256)
            if rng.random() < .3: k['inner'] = rng.randrange(mx + 1)
            yield D(M, **k), 'blake2.random'


def b2_params(v, rng):
    """one keyword string per optional parameter of Blake2.__call__ / initstate (each at a non-default value)"""
    size, bb, mx = B2[v]; l8 = mx // 4
    return ['outlen=%d' % rng.choice([1, mx // 2, mx - 1]), 'outlen=%d' % rng.randrange(1, mx), 'salt=%s' % hx(rb(rng, l8)), 'pers=%s' % hx(rb(rng, l8)),
            'fanout=%d' % rng.randrange(2, 256), 'depth=%d' % rng.randrange(2, 256), 'leafl=%d' % (rng.getrandbits(32) | 1),
            'noffset=%d' % (rng.getrandbits(48) | 1), 'ndepth=%d' % rng.randrange(1, 256), 'inner=%d' % rng.randrange(1, mx + 1)]


def one_object_cases(tier, rng):
    """ONE Blake2 object — a new one and the module singleton — through a call WITH each optional parameter followed by a
    default call (and a default / differently parametrised stream), after a refused call; streamed runs `initstate();
    update(blocks) …; update(tail, padding=True)` with 1-3 non-final pieces of 1-2 blocks; the same for BLAKE's salt and
    bit length.  Every digest against hashlib (BLAKE2) / Spec.Blake through the driver (BLAKE)."""
    quick = tier == 'quick'
    ml = SEQ.mline
    for v, (size, bb, mx) in B2.items():
        for obj in (v, '@' + v):
            pars = b2_params(v, rng)
            for pi, par in enumerate(pars):
                M1, M2 = rb(rng, rng.choice([0, 3, bb, bb + 1])), rb(rng, rng.choice([1, bb - 1, 2 * bb + 5]))
                yield ml([obj], [(0, 'new'), (0, 'call %s %s' % (hx(M1), par)), (0, 'call ' + hx(M2))]), 'one object:call(%s), default call' % par.split('=')[0]
                if quick and pi % 2 and obj[0] == '@': continue
                # the streaming interface after it: default initstate, then a stream
                yield ml([obj], [(0, 'new'), (0, 'call %s %s' % (hx(M1), par))] + [(0, x) for x in SEQ.bstream(obj, rng, rng.randrange(0, 3), rng.choice([1, 5, bb - 1]))]), 'one object:call(%s), default stream' % par.split('=')[0]
                if quick and pi % 3: continue
                other = pars[(pi + 3) % len(pars)]
                yield ml([obj], [(0, 'new'), (0, 'call ' + hx(M2)), (0, 'call %s %s' % (hx(M1), par)), (0, 'call %s %s' % (hx(M2), other)), (0, 'call ' + hx(M2))]), 'one object:default, two parameters in turn, default'
                yield ml([obj], [(0, 'new')] + [(0, x) for x in SEQ.bstream(obj, rng, 1, 3, 'init ' + par)] + [(0, x) for x in SEQ.bstream(obj, rng, 2, 7)] + [(0, 'call ' + hx(M1))]), 'one object:stream(%s), default stream, default call' % par.split('=')[0]
            # every digest length once, then the default (the shared object must not remember it)
            for o in (range(1, mx) if not quick else rng.sample(range(1, mx), 6)):
                M = rb(rng, rng.choice([0, 5, bb + 1]))
                yield ml([obj], [(0, 'new'), (0, 'call %s outlen=%d' % (hx(M), o)), (0, 'call ' + hx(M))]), 'one object:call(outlen), default call'
            # refused calls / initstate, then the default
            for o in (0, mx + 1):
                M = rb(rng, 9)
                yield ml([obj], [(0, 'new'), (0, 'call ' + hx(M)), (0, 'call %s outlen=%d' % (hx(M), o)), (0, 'call ' + hx(M))]), 'one object:refused call, default call'
                yield ml([obj], [(0, 'new'), (0, 'init outlen=%d' % o)] + [(0, x) for x in SEQ.bstream(obj, rng, 1, 4)]), 'one object:refused initstate, default stream'
            # streamed runs: k non-final pieces of 1..2 blocks, tails around the block boundary
            for k in (1, 2, 3):
                for tail in ((1, bb - 1, bb, bb + 1) if not quick else (1, bb) if k > 1 else (1, bb - 1, bb, bb + 1)):
                    sizes = [rng.choice([1, 1, 2]) * bb for _ in range(k)]
                    M = rb(rng, sum(sizes) + tail)
                    ps, p = [], 0
                    for n in sizes: ps.append(M[p:p + n]); p += n
                    ps.append(M[p:])
                    if obj[0] != '@':
                        yield 'blake2seq %s %s' % (v, ' '.join(hx(x) for x in ps)), 'streamed:%d pieces + tail' % k
                        yield 'blake2seq.trace %s %s' % (v, ' '.join(hx(x) for x in ps)), 'streamed.trace'
                    else:
                        yield ml([obj], [(0, 'new'), (0, 'init')] + [(0, 'upd ' + hx(x)) for x in ps[:-1]] + [(0, 'fin ' + hx(ps[-1]))]), 'streamed on the singleton:%d pieces + tail' % k
            # two streams in a row on the object, the second one shorter (nothing of the first one is left)
            yield ml([obj], [(0, 'new')] + [(0, x) for x in SEQ.bstream(obj, rng, 3, 9)] + [(0, x) for x in SEQ.bstream(obj, rng, 1, 2)]), 'one object:two streams in a row'
    # BLAKE: salt and bit length of an earlier call / stream, then the defaults (spec = Spec.Blake through the driver)
    for n in SIZES:
        bb = blk(n); w = wbits(n)
        for obj in (str(n), '@%d' % n):
            if quick and obj[0] == '@' and n in (224, 384): continue
            X = rng.getrandbits(4 * w) | 1
            M1, M2 = rb(rng, bb + 9), rb(rng, rng.choice([0, 3, bb - 9, bb]))
            yield ml([obj], [(0, 'new'), (0, 'call %s s=%d' % (hx(M1), X)), (0, 'call ' + hx(M2))]), 'one object:blake call(s), default call'
            yield ml([obj], [(0, 'new'), (0, 'call %s bitlen=%d' % (hx(M1), 8 * bb + 3)), (0, 'call ' + hx(M2)), (0, 'call %s s=%d bitlen=%d' % (hx(M1), X, 8 * len(M1) + 1)), (0, 'call ' + hx(M2))]), 'one object:blake call(bitlen) / refused, default call'
            yield ml([obj], [(0, 'new'), (0, 'call %s s=%d' % (hx(M1), X))] + [(0, x) for x in SEQ.bstream(obj, rng, 2, 5)] + [(0, x) for x in SEQ.bstream(obj, rng, 1, 0, 'init salt=%d' % X)] + [(0, 'call ' + hx(M2))]), 'one object:blake call(s), default stream, salted stream, default call'


def cases(tier, rng):
    if tier == 'search':
        while True:
            v = rng.choice('bs'); size, bb, mx = B2[v]; obj = rng.choice([v, '@' + v])
            par = rng.choice(b2_params(v, rng))
            first = rng.choice(['call %s %s' % (hx(rb(rng, rng.randrange(0, 2 * bb))), par), 'init ' + par])
            yield SEQ.mline([obj], [(0, 'new'), (0, first)] + rng.choice([[(0, 'call ' + hx(rb(rng, rng.randrange(0, 3 * bb))))],
                            [(0, x) for x in SEQ.bstream(obj, rng, rng.randrange(0, 4), rng.randrange(1, bb + 2))]])), 'search'
            ps = [rb(rng, rng.choice([1, 2]) * bb) for _ in range(rng.randrange(1, 4))] + [rb(rng, rng.randrange(1, bb + 2))]
            yield 'blake2seq %s %s' % (v, ' '.join(hx(x) for x in ps)), 'search'
            n = rng.choice(SIZES); bb = blk(n)
            l = rng.choice([rng.randrange(0, 3 * bb), rng.randrange(bb, 5 * bb), rng.choice([bb, 2 * bb, 3 * bb]) + rng.randrange(-2, 3)])
            M = rb(rng, l)
            L = rng.choice([None, None, rng.randrange(1, 8 * l + 1) if l else None])
            yield 'blake %d %d %s %s' % (n, rng.choice([0, rng.getrandbits(4 * wbits(n))]), hx(M), oi(L)), 'blake.random'
            yield 'blake.trace %d 0 %s %s' % (n, hx(M), oi(L)), 'blake.trace'
            v = rng.choice('bs'); size, bb, mx = B2[v]
            l = rng.choice([rng.randrange(0, 3 * bb), rng.randrange(bb, 5 * bb), rng.choice([bb, 2 * bb, 3 * bb]) + rng.randrange(-2, 3)])
            M = rb(rng, l)
            yield b2line(v, rng.choice([None, rng.randrange(1, mx + 1)]), rng.choice([b'', rb(rng, mx // 4)]), rng.choice([b'', rb(rng, mx // 4)]),
                         rng.choice([1, rng.randrange(256)]), rng.choice([1, rng.randrange(1, 256)]), rng.choice([0, rng.getrandbits(32)]),
                         rng.choice([0, rng.getrandbits(48)]), rng.choice([0, rng.randrange(256)]), rng.choice([0, rng.randrange(mx + 1)]), M), 'blake2.random'
            yield 'blake2.trace %s 0 %s' % (v, hx(M)), 'blake2.trace'
        return
    yield from blake_cases(tier, rng)
    yield from blake2_cases(tier, rng)
    yield from one_object_cases(tier, rng)


def shrink(line):
    t = line.split()
    if t[0] in SEQ_OPS:
        yield from SEQ.shrink(line)
        return
    for i, tok in enumerate(t[1:], 1):
        if tok[0] == 'x' and len(tok) > 3 and i == len(t) - 1 or (t[0].startswith('blake') and not t[0].startswith('blake2') and i == 3 and tok[0] == 'x' and len(tok) > 3):
            n = (len(tok) - 1) // 2
            for cut in (64, 16, 1):
                if n > cut: yield ' '.join(t[:i] + [tok[:-2 * cut]] + t[i + 1:])
            yield ' '.join(t[:i] + ['x' + '00' * n] + t[i + 1:])


LEVEL_TEXT = ('Lean 4 theorems relating Model.Blake (the hand-written mirror of crysp/blake.py on Model.Bits/Model.Padding) to Spec.Blake (BLAKE '
              'submission) and Spec.Blake2 (RFC 7693): regenerated tables and constants equal the specification, the G / compression functions refine '
              'the specification for all words, the per-block counter and final-flag rules hold for every message length, and END TO END blake_refines '
              '(every BLAKE size, salt, message and bit length; over C09\'s blocks_concat / bitcnt_at_yield for the blake scheme) and blake2_refines '
              '(every message, digest length and parameter block in range): the call of the model returns the specified digest; the model is tied to the '
              'current source by the translator (tables, IVs, constants, rotation amounts, G schedule read from the live module and its AST) and by a '
              'boundary-directed correspondence stream that also evaluates hashlib.blake2b/blake2s on the real code\'s output.')
LEVEL_NOTE = ('Trusted: Lean kernel; axioms ⊆ {propext, Classical.choice, Quot.sound}; extract.py/runcheck.py/props/C11.py; Spec.Blake rests on the '
              'submission text and the four-size known answers only (no BLAKE-1 oracle in the image); Spec.Blake2 is cross-checked against hashlib. '
              'No theorem of this property is partial; list: evidence/C11.json coverage.theorems.')
TECHNIQUE = 'Lean 4 proof (refinement by word-level simulation, list induction, kernel enumeration of complete tables) + correspondence check'
