"""C16 — Poly: element-wise ring arithmetic, sequence indexing, consistent re-chunking.

run_impl executes the op line on the real crysp.poly.Poly; check_impl is the property's own predicate: an independent
reference on plain Python lists of ints (coefficient-wise operation modulo 2^k with missing coefficients = 0, Python's own
list indexing / int.to_bytes / bit lists), sharing no code with crysp or with the Lean model.

Tokens: `p<size>:<ints>` = Poly([ints],size) (ints may be negative/unreduced, the constructor reduces them);
right-hand sides `i<int>`, `b<size>:<ival>` (a Bits), `l…`, `p…`, `x…`.  A Poly result prints `<size>:<ints>`;
several observations of one line are joined by `;` (result ; reversed-operand result ; operands after the operation)."""
import itertools
from props.common import *

ID = 'C16'
LEAN_PROOFS = ['Proofs.C16']
GEN_ITEMS = []
RULE = ('op lines = (operation, ring k, coefficient vectors, index expression / value); vectors of dims 0..4 over k in {1,2,3} '
        'enumerated: all of them for unary / re-chunking operations; binary operators by poly.exh lines (one left operand against ALL right '
        'operands of one dimension): thorough = every ordered pair for k=1,2 and for k=3 every pair with dim a + dim b <= 6, a quarter of the left '
        'operands for the shapes (3,4),(4,3) and 2% for (4,4) (16.7M pairs); quick = a seeded fraction; k in {0,8,32,64} and random k in 1..64 '
        'with dims to 20 seeded; distinct lines; non-trivial = the implementation returned a value (not an exception) for the main operation')
TRUSTED = ['CPython int/list/slice semantics (Model.Py) are modelled, validated by enumeration in this stream',
           'bitwise operators on the ring Z use a two\'s-complement window in the model (Model.Poly.intBitOp); tied to Python ints by this stream and to Spec.Poly.land/lor/lxor by the executable echo']
ASSUMPTIONS = ['python -O (asserts stripped) is out of scope',
               'operands over different rings, split to element size 0 and negative element sizes are outside the property (different rings are compared code<->model only; split(0) does not terminate and is never generated)',
               'objects are built through the public constructor; states reachable only by writing .ival/.mask directly are out of scope']
LINE_TIMEOUT = 20


# ---------------------------------------------------------------------------------------------
def pt(k, l): return 'p%d:%s' % (k, ','.join(str(int(x)) for x in l))
def unpt(t):
    assert t[0] == 'p'; k, body = t[1:].split(':'); return int(k), ([int(x) for x in body.split(',')] if body else [])
def fp(p):
    """canonical print of a real Poly: every stored coefficient must be a plain int"""
    for x in p.ival:
        if type(x) is not int: return '!%s' % type(x).__name__
    return '%d:%s' % (p.size, ','.join(str(x) for x in p.ival))
def fl(k, l): return '%d:%s' % (k, ','.join(str(x) for x in l))

def mkpoly(t):
    from crysp.poly import Poly
    k, l = unpt(t)
    return Poly(l, k)

def rval(t):
    c = t[0]
    if c == 'p': return mkpoly(t)
    return operand(t)

import operator
OPS = {'and': operator.and_, 'or': operator.or_, 'xor': operator.xor, 'add': operator.add, 'sub': operator.sub}
COMM = ('and', 'or', 'xor', 'add')


def apply_step(p, st):
    """one mutating step on the real object"""
    if st[0] == 'setint': p[int(st[1])] = rval(st[2])
    elif st[0] == 'setslice': p[slice(unoi(st[1]), unoi(st[2]), unoi(st[3]))] = rval(st[4])
    elif st[0] == 'setlist': p[unil(st[1])] = rval(st[2])
    elif st[0] == 'setdim': p.dim = int(st[1])
    else: raise RuntimeError('unknown step ' + st[0])


def split_bar(toks):
    out, cur = [], []
    for t in toks:
        if t == '|': out.append(cur); cur = []
        else: cur.append(t)
    out.append(cur)
    return out


def run_impl(line):
    from crysp import poly as P
    from crysp.bits import pack
    Poly = P.Poly
    t = line.split()
    op, a = t[0], t[1:]
    g = guarded
    def go():
        if op == 'poly.oflist': return fp(Poly(unil(a[0]), int(a[1]), int(a[2])))
        if op == 'poly.ofint': return fp(Poly(int(a[0]), int(a[1]), int(a[2])))
        if op == 'poly.ofbytes': return fp(Poly(unhx(a[0]), int(a[1]), int(a[2])))
        if op == 'poly.ofpoly': return fp(Poly(mkpoly(a[0]), int(a[1]), int(a[2])))
        if op == 'poly.binop':
            q = mkpoly(a[2]); p = mkpoly(a[1]); f = OPS[a[0]]
            return ';'.join([g(lambda: fp(f(p, q))), g(lambda: fp(f(q, p))), fp(p), fp(q)])
        if op == 'poly.exh':
            # x op y for EVERY y of dimension dy over the ring of x: digest of the real results ; digest of the reference
            f = OPS[a[0]]; p = mkpoly(a[1]); k, x = vec(a[1]); dy = int(a[2])
            h = hr = 0
            for y in itertools.product(range(1 << k), repeat=dy):
                r = f(p, Poly(list(y), k))
                for c in r.ival:
                    if type(c) is not int or c < 0: return '!coefficient'
                h = digest(h, r.size, r.ival)
                hr = digest(hr, k, ref_op(a[0], k, x, list(y)))
            if fp(p) != fl(k, x): return '!operand-changed'
            return '%d;%d' % (h, hr)
        p = mkpoly(a[0])
        if op == 'poly.setdim':
            p.dim = int(a[1]); return fp(p)
        if op == 'poly.e':
            v = p.e(int(a[1]))
            if p.size:
                if v.size != p.size: return '!size'
                return str(v.int())
            return str(v)
        if op == 'poly.len': return str(len(p))
        if op == 'poly.iter': return il([int(x) for x in p])
        if op == 'poly.neg': return fp(-p) + ';' + fp(p)
        if op == 'poly.negadd': return fp(p + (-p))
        if op == 'poly.shl': return g(lambda: fp(p << int(a[1]))) + ';' + fp(p)
        if op == 'poly.shr': return g(lambda: fp(p >> int(a[1]))) + ';' + fp(p)
        if op == 'poly.getint': return g(lambda: fp(p[int(a[1])])) + ';' + fp(p)
        if op == 'poly.getslice':
            return g(lambda: fp(p[slice(unoi(a[1]), unoi(a[2]), unoi(a[3]))])) + ';' + fp(p)
        if op == 'poly.getlist': return g(lambda: fp(p[unil(a[1])])) + ';' + fp(p)
        if op == 'poly.getpoly': return g(lambda: fp(p[mkpoly(a[1])])) + ';' + fp(p)
        if op == 'poly.setint':
            p[int(a[1])] = rval(a[2]); return fp(p)
        if op == 'poly.setslice':
            p[slice(unoi(a[1]), unoi(a[2]), unoi(a[3]))] = rval(a[4]); return fp(p)
        if op == 'poly.setlist':
            p[unil(a[1])] = rval(a[2]); return fp(p)
        if op == 'poly.concat':
            q = mkpoly(a[1]); return fp(p // q) + ';' + fp(p) + ';' + fp(q)
        if op == 'poly.split':
            return g(lambda: fp(p.split(int(a[1]), unbo(a[2])))) + ';' + fp(p)
        if op == 'poly.pack': return hx(pack(p, '>L' if unbo(a[1]) else '<L'))
        if op == 'poly.eq': return bo(p == mkpoly(a[1]))
        if op == 'poly.ne': return bo(p != mkpoly(a[1]))
        if op == 'poly.iszero': return bo(p.is_zero())
        if op == 'poly.seq':
            out = []
            for st in split_bar(a[2:]):
                try:
                    apply_step(p, st)
                except (KeyboardInterrupt, SystemExit, RuntimeError): raise
                except Exception as e:
                    if type(e).__name__ == '_Timeout': raise
                    out.append('ERR'); break
                out.append(fp(p))
            return ';'.join(out)
        raise RuntimeError('unknown op ' + op)
    return guarded(go)


DIGEST_MOD = (1 << 61) - 1
def digest(h, size, l):
    h = (h * 31 + size + 1000 * len(l) + 7) % DIGEST_MOD
    for c in l: h = (h * 31 + c + 3) % DIGEST_MOD
    return h

# ---------------------------------------------------------------------------------------------
# independent reference on plain lists
class Refuse(Exception):
    """the reference says: this input must be refused"""

def nk(k, x): return x if k == 0 else x % (1 << k)
def vec(t):
    k, l = unpt(t); return k, [nk(k, x) for x in l]
def co(l, i): return l[i] if i < len(l) else 0
def fit(l, d): return list(l) if d <= 0 else [co(l, i) for i in range(d)]

def ref_op(op, k, a, b):
    f = OPS[op]
    return [nk(k, f(co(a, i), co(b, i))) for i in range(max(len(a), len(b)))]

def ref_indices(n, s, e, st):
    """index sequence of a slice on a vector of dimension n (negative steps are refused by Poly; an explicit stop beyond the
    dimension is honoured: the missing coefficients read as zero)"""
    if st == 0: raise Refuse()
    if st is not None and st < 0: raise Refuse()
    if e is None or e <= n:
        return list(range(n))[s:e:st]
    sta = slice(s, None, None).indices(n)[0]
    return list(range(sta, e, st or 1))

def ref_value(k, idx, v):
    """the values assigned to the index sequence idx by right-hand side token v"""
    c = v[0]
    if c == 'i': vals = [int(v[1:])]; scalar = True
    elif c == 'b': vals = [unbt(v)[1] % (1 << unbt(v)[0])]; scalar = True
    elif c == 'l': vals = unil(v); scalar = False
    elif c == 'p': vals = vec(v)[1]; scalar = False
    elif c == 'x': vals = list(unhx(v)); scalar = False
    if scalar or len(vals) != len(idx): vals = fit(vals, len(idx))
    return vals

def ref_assign(k, a, idx, vals):
    r = list(a)
    try:
        for j, x in zip(idx, vals): r[j] = nk(k, x)
    except IndexError:
        raise Refuse()
    return r

def ref_step(k, a, st):
    if st[0] == 'setint':
        v = st[2]
        if v[0] not in 'ib': return None
        return ref_assign(k, a, [int(st[1])], ref_value(k, [0], v))
    if st[0] == 'setslice':
        idx = ref_indices(len(a), unoi(st[1]), unoi(st[2]), unoi(st[3]))
        return ref_assign(k, a, idx, ref_value(k, idx, st[4]))
    if st[0] == 'setlist':
        idx = unil(st[1]); return ref_assign(k, a, idx, ref_value(k, idx, st[2]))
    if st[0] == 'setdim':
        d = int(st[1])
        if d <= 0: raise Refuse()
        return fit(a, d)

def ref_digits(k, k2, x, be):
    bits_ = [(x >> i) & 1 for i in range(k)]
    out = []
    for c in range(0, k, k2):
        out.append(sum(b << i for i, b in enumerate(bits_[c:c + k2])))
    return out[::-1] if be else out


def check_impl(line, res):
    t = line.split(); op, a = t[0], t[1:]
    bad = lambda why: '%s: %s' % (op, why)
    def expect(k, l, got, what='result'):
        e = fl(k, l)
        return None if got == e else bad('%s %s, expected %s' % (what, got, e))
    if res.startswith('!') or ';!' in res: return bad('a stored coefficient is not an int')
    if op in ('poly.oflist', 'poly.ofint', 'poly.ofbytes', 'poly.ofpoly'):
        d = int(a[2])
        if op == 'poly.oflist': k = int(a[1]); l = [nk(k, x) for x in unil(a[0])]
        elif op == 'poly.ofint': k = int(a[1]); l = [nk(k, int(a[0]))]
        elif op == 'poly.ofbytes': k = 8; l = list(unhx(a[0]))
        else: k, l = vec(a[0])
        return expect(k, fit(l, d), res)
    if op == 'poly.exh':
        r = res.split(';')
        if len(r) != 2: return bad('unexpected exception / %s' % res)
        return None if r[0] == r[1] else bad('digest over all right operands of dim %s differs from the reference' % a[2])
    if op == 'poly.binop':
        (k, x), (k2, y) = vec(a[1]), vec(a[2])
        r = res.split(';')
        if len(r) != 4: return bad('unexpected exception')
        if r[2] != fl(k, x) or r[3] != fl(k2, y): return bad('an operand was changed')
        if k != k2: return None
        e = expect(k, ref_op(a[0], k, x, y), r[0]) or expect(k, ref_op(a[0], k, y, x), r[1], 'reversed result')
        if e: return e
        if a[0] in COMM and r[0] != r[1]: return bad('a op b != b op a')
        return None
    k, x = vec(a[0])
    if op == 'poly.setdim':
        d = int(a[1])
        if d <= 0: return None if res == 'ERR' else bad('dim <= 0 must be refused')
        return expect(k, fit(x, d), res)
    if op == 'poly.e': return None if res == str(co(x, int(a[1]))) else bad('expected %d' % co(x, int(a[1])))
    if op == 'poly.len': return None if res == str(len(x)) else bad('len')
    if op == 'poly.iter': return None if res == il(x) else bad('iter')
    if op == 'poly.neg':
        r = res.split(';')
        if len(r) != 2: return bad('unexpected exception')
        if r[1] != fl(k, x): return bad('the operand was changed')
        return expect(k, [nk(k, -v) for v in x], r[0])
    if op == 'poly.negadd': return expect(k, [0] * len(x), res)
    if op in ('poly.shl', 'poly.shr'):
        n = int(a[1]); r = res.split(';')
        if len(r) != 2 or r[1] != fl(k, x): return bad('the operand was changed')
        if n < 0: return None if (r[0] == 'ERR' or not x) else bad('negative shift count accepted')
        e = [nk(k, v * 2 ** n) for v in x] if op == 'poly.shl' else [v // 2 ** n for v in x]
        return expect(k, e, r[0])
    if op in ('poly.getint', 'poly.getslice', 'poly.getlist', 'poly.getpoly'):
        r = res.split(';')
        if len(r) != 2 or r[1] != fl(k, x): return bad('the operand was changed')
        try:
            if op == 'poly.getint': e = [x[int(a[1])]]
            elif op == 'poly.getlist': e = [x[j] for j in unil(a[1])]
            elif op == 'poly.getpoly': e = [x[j] for j in vec(a[1])[1]]
            else: e = [co(x, i) for i in ref_indices(len(x), unoi(a[1]), unoi(a[2]), unoi(a[3]))]
        except (IndexError, Refuse):
            return None if r[0] == 'ERR' else bad('must be refused, got %s' % r[0])
        return expect(k, e, r[0])
    if op in ('poly.setint', 'poly.setslice', 'poly.setlist'):
        st = [op[5:]] + a[1:]
        try:
            e = ref_step(k, x, st)
        except Refuse:
            return None if res == 'ERR' else bad('must be refused, got %s' % res)
        if e is None: return None
        return expect(k, e, res)
    if op == 'poly.seq':
        cur = x; r = res.split(';'); steps = split_bar(a[2:])
        for i, st in enumerate(steps):
            if i >= len(r): return bad('missing observation %d' % i)
            try:
                cur = ref_step(k, cur, st)
            except Refuse:
                return None if r[i] == 'ERR' and len(r) == i + 1 else bad('step %d must be refused' % i)
            if cur is None: return None
            e = expect(k, cur, r[i], 'state after step %d' % i)
            if e: return e
        return None
    if op == 'poly.concat':
        k2, y = vec(a[1]); r = res.split(';')
        if len(r) != 3 or r[1] != fl(k, x) or r[2] != fl(k2, y): return bad('an operand was changed')
        if k != k2: return None
        return expect(k, x + y, r[0])
    if op == 'poly.split':
        k2 = int(a[1]); be = unbo(a[2]); r = res.split(';')
        if len(r) != 2 or r[1] != fl(k, x): return bad('the operand was changed')
        if k2 == k: return expect(k, x, r[0])
        if k == 0 or k2 <= 0: return None
        return expect(k2, [d for v in x for d in ref_digits(k, k2, v, be)], r[0])
    if op == 'poly.pack':
        if k == 0: return None
        s = b''.join(v.to_bytes((k + 7) // 8, 'little') for v in x)
        if unbo(a[1]): s = s[::-1]
        return None if res == hx(s) else bad('expected %s' % hx(s))
    if op in ('poly.eq', 'poly.ne'):
        k2, y = vec(a[1])
        if k != k2: return None
        n = max(len(x), len(y)); same = fit(x, n) == fit(y, n) if n else True
        return None if res == bo(same == (op == 'poly.eq')) else bad('expected %s' % bo(same == (op == 'poly.eq')))
    if op == 'poly.iszero': return None if res == bo(all(v == 0 for v in x)) else bad('is_zero')
    return None


def nontrivial(line, res): return not res.startswith('ERR')


# ---------------------------------------------------------------------------------------------
# generators
BOPS = ('and', 'or', 'xor', 'add', 'sub')

def all_vectors(k, maxdim):
    for d in range(maxdim + 1):
        yield from itertools.product(range(1 << k), repeat=d)

def pair_lines(k, x, y, tag):
    for o in BOPS: yield 'poly.binop %s %s %s' % (o, pt(k, x), pt(k, y)), tag
    yield 'poly.concat %s %s' % (pt(k, x), pt(k, y)), tag.replace('binop', 'concat')
    yield 'poly.eq %s %s' % (pt(k, x), pt(k, y)), tag.replace('binop', 'eq')

def unary_lines(k, x, tag, shifts=None):
    p = pt(k, x)
    yield 'poly.neg ' + p, tag + 'neg'
    yield 'poly.negadd ' + p, tag + 'negadd'
    for n in (shifts if shifts is not None else sorted({0, 1, 2, max(k - 1, 0), k, k + 1, -1})):
        yield 'poly.shl %s %d' % (p, n), tag + 'shl'
        yield 'poly.shr %s %d' % (p, n), tag + 'shr'
    yield 'poly.iszero ' + p, tag + 'misc'
    yield 'poly.len ' + p, tag + 'misc'
    yield 'poly.iter ' + p, tag + 'misc'
    for i in {0, 1, len(x) - 1 if x else 0, len(x), len(x) + 3}:
        yield 'poly.e %s %d' % (p, i), tag + 'misc'
    for d in {-1, 0, 1, len(x), len(x) + 2, max(len(x) - 1, 1)}:
        yield 'poly.setdim %s %d' % (p, d), tag + 'setdim'
        yield 'poly.ofpoly %s %d %d' % (p, (k + 1) % 5, d), tag + 'ctor'

def split_lines(k, x, tag, sizes=None):
    p = pt(k, x)
    if k == 0:
        for k2 in (0, 8):
            for be in 'FT': yield 'poly.split %s %d %s' % (p, k2, be), tag + 'split-Z'
        for be in 'FT': yield 'poly.pack %s %s' % (p, be), tag + 'pack-Z'
        return
    if sizes is None:
        sizes = sorted({d for d in range(1, k + 1) if k % d == 0} | {k + 1, 2 * k, 8})
        if k <= 12: sizes = sorted(set(sizes) | set(range(1, k + 2)))
    for k2 in sizes:
        for be in 'FT':
            yield 'poly.split %s %d %s' % (p, k2, be), tag + ('split-div' if k % k2 == 0 else 'split-ragged')
    for be in 'FT': yield 'poly.pack %s %s' % (p, be), tag + 'pack'

OPT = lambda lo, hi: [None] + list(range(lo, hi + 1))

def value_tokens(k, n, rng):
    """right-hand sides for an index sequence of length n: scalar, Bits, equal length, shorter, longer, Poly, bytes"""
    hi = (1 << k) if k else 1 << 9
    rv = lambda: rng.randrange(-hi, 2 * hi)
    out = ['i%d' % rv(), 'i0', bt(max(k, 1), rng.getrandbits(max(k, 1)))]
    out.append(il([rv() for _ in range(n)]))
    if n > 0: out.append(il([rv() for _ in range(n - 1)]))
    out.append(il([rv() for _ in range(n + 1)]))
    out.append(pt(k, [rv() for _ in range(n)]))
    out.append(pt(k + 3 if k else 5, [rv() for _ in range(n + 2)]))
    out.append(hx(bytes(rng.getrandbits(8) for _ in range(n))))
    out.append(hx(bytes(rng.getrandbits(8) for _ in range(max(n - 1, 0)))))
    return out

def index_lines(k, x, rng, tag, setfrac=1.0, span=None):
    """every index expression on vector x: ints incl. negative, slices with None/negative/beyond-the-end bounds and steps,
    index lists with repeats; reads always, writes for a fraction of the expressions"""
    p = pt(k, x); n = len(x)
    span = span if span is not None else n + 3
    for i in range(-span, span + 1):
        yield 'poly.getint %s %d' % (p, i), tag + 'getint'
        for v in ('i%d' % rng.randrange(-9, 300), bt(max(k, 1), rng.getrandbits(max(k, 1)))):
            yield 'poly.setint %s %d %s' % (p, i, v), tag + 'setint'
    for s in OPT(-span, span):
        for e in OPT(-span, span):
            for st in (None, 1, 2, 3, -1, -2, 0):
                yield 'poly.getslice %s %s %s %s' % (p, oi(s), oi(e), oi(st)), tag + 'getslice'
                if rng.random() < setfrac:
                    try: m = len(ref_indices(n, s, e, st))
                    except Refuse: m = 1
                    for v in rng.sample(value_tokens(k, m, rng), 3):
                        yield 'poly.setslice %s %s %s %s %s' % (p, oi(s), oi(e), oi(st), v), tag + 'setslice'
    dom = list(range(-n - 1, n + 1))
    lists = [[]] + [[i] for i in dom] + [[i, j] for i in dom for j in dom]
    if n <= 3: lists += [[i, j, l] for i in dom for j in dom for l in dom if rng.random() < 0.3]
    for idx in lists:
        yield 'poly.getlist %s %s' % (p, il(idx)), tag + 'getlist'
        yield 'poly.getpoly %s %s' % (p, pt(rng.choice([0, 4, 8]), idx)), tag + 'getlist'
        if rng.random() < setfrac:
            for v in rng.sample(value_tokens(k, len(idx), rng), 3):
                yield 'poly.setlist %s %s %s' % (p, il(idx), v), tag + 'setlist'

def rand_vec(k, d, rng):
    if k == 0:
        return [rng.choice([0, 1, -1, rng.randrange(-300, 300), rng.randrange(-(1 << 70), 1 << 70), (1 << 64) - 1, -(1 << 32)]) for _ in range(d)]
    return [rng.choice([0, 1, (1 << k) - 1, 1 << (k - 1), rng.getrandbits(k), rng.getrandbits(k)]) for _ in range(d)]

def rand_slice(n, rng):
    b = lambda: rng.choice([None, None, rng.randrange(-n - 3, n + 4), rng.randrange(0, n + 1), -1, n, n + 1])
    return b(), b(), rng.choice([None, None, 1, 1, 2, 3, 5, -1, 0])

def rand_step(k, n, rng):
    c = rng.randrange(5)
    if c == 0: return ['setint', str(rng.randrange(-n - 1, n + 1)), 'i%d' % rng.randrange(-5, 1 << (k or 9))], n
    if c == 1:
        s, e, st = rand_slice(n, rng)
        try: m = len(ref_indices(n, s, e, st))
        except Refuse: m = 1
        return ['setslice', oi(s), oi(e), oi(st), rng.choice(value_tokens(k, m, rng))], n
    if c == 2:
        idx = [rng.randrange(-n, n) if n else 0 for _ in range(rng.randrange(0, 4))]
        return ['setlist', il(idx), rng.choice(value_tokens(k, len(idx), rng))], n
    d = rng.choice([n, n + 1, max(n - 1, 1), rng.randrange(1, 8)])
    return ['setdim', str(d)], d

def random_lines(rng, count, ks, maxdim=20):
    for _ in range(count):
        k = rng.choice(ks)
        da = rng.choice([0, 1, 2, rng.randrange(0, maxdim + 1), rng.randrange(0, maxdim + 1)])
        db = rng.choice([0, da, da, rng.randrange(0, maxdim + 1), da + 1, max(da - 1, 0)])
        x, y = rand_vec(k, da, rng), rand_vec(k, db, rng)
        tag = 'rand.k%s.' % (k if k in (0, 8, 32, 64) else 'other')
        shape = 'empty-empty' if da == db == 0 else 'one-empty' if 0 in (da, db) else 'equal' if da == db else 'left-shorter' if da < db else 'left-longer'
        yield from pair_lines(k, x, y, tag + 'binop.' + shape)
        yield from unary_lines(k, x, tag, shifts=sorted({0, 1, rng.randrange(0, (k or 40) + 3), k, -1}))
        if k and rng.random() < 0.5:
            sizes = sorted({rng.choice([d for d in range(1, k + 1) if k % d == 0]), rng.randrange(1, k + 9), 8})
            yield from split_lines(k, x, tag, sizes)
        n = da; p = pt(k, x)
        for _ in range(3):
            s, e, st = rand_slice(n, rng)
            yield 'poly.getslice %s %s %s %s' % (p, oi(s), oi(e), oi(st)), tag + 'getslice'
            try: m = len(ref_indices(n, s, e, st))
            except Refuse: m = 1
            yield 'poly.setslice %s %s %s %s %s' % (p, oi(s), oi(e), oi(st), rng.choice(value_tokens(k, m, rng))), tag + 'setslice'
            idx = [rng.randrange(-n - 1, n + 1) for _ in range(rng.randrange(0, 6))]
            yield 'poly.getlist %s %s' % (p, il(idx)), tag + 'getlist'
            yield 'poly.setlist %s %s %s' % (p, il(idx), rng.choice(value_tokens(k, len(idx), rng))), tag + 'setlist'
            i = rng.randrange(-n - 2, n + 2)
            yield 'poly.getint %s %d' % (p, i), tag + 'getint'
            yield 'poly.setint %s %d i%d' % (p, i, rng.randrange(-(1 << 66), 1 << 66)), tag + 'setint'
        # a mutating history, observed after every step
        steps, m = [], n
        for _ in range(rng.randrange(1, 7)):
            st, m = rand_step(k, m, rng); steps.append(' '.join(st))
        yield 'poly.seq %s | %s' % (p, ' | '.join(steps)), tag + 'seq'
        # constructors
        l = [rng.randrange(-(1 << (k + 2)), 1 << (k + 2)) for _ in range(rng.randrange(0, 6))]
        d = rng.choice([0, 0, len(l), len(l) + 2, max(len(l) - 1, 0), -1])
        yield 'poly.oflist %s %d %d' % (il(l), k, d), tag + 'ctor'
        yield 'poly.ofint %d %d %d' % (rng.randrange(-(1 << (k + 2)), 1 << (k + 2)), k, d), tag + 'ctor'
        yield 'poly.ofbytes %s %d %d' % (hx(bytes(rng.getrandbits(8) for _ in range(rng.randrange(0, 6)))), k, d), tag + 'ctor'


def malformed_lines(rng):
    for o in BOPS:
        for (k, x), (k2, y) in [((8, [1, 2]), (16, [1, 2])), ((0, [1]), (8, [1])), ((3, []), (4, [])), ((8, []), (0, [5]))]:
            yield 'poly.binop %s %s %s' % (o, pt(k, x), pt(k2, y)), 'malformed.rings-differ'
    yield 'poly.concat p8:1,2 p16:300', 'malformed.rings-differ'
    yield 'poly.eq p8:1,2 p16:1,2', 'malformed.rings-differ'
    yield 'poly.eq p8:1,2 p16:1,2,0', 'malformed.rings-differ'
    yield 'poly.ne p8:1,2 p16:1,2,0', 'malformed.rings-differ'
    for k in (8, 0):
        for be in 'FT':
            yield 'poly.split %s 0 %s' % (pt(k, []), be), 'malformed.split'
            yield 'poly.split %s 8 %s' % (pt(k, []), be), 'malformed.split'
            yield 'poly.split %s 5 %s' % (pt(k, []), be), 'malformed.split'
            yield 'poly.pack %s %s' % (pt(k, []), be), 'malformed.pack'
    yield 'poly.split p0:1,2 8 F', 'malformed.split'
    yield 'poly.pack p0:1,2 F', 'malformed.pack'


def cases(tier, rng):
    if tier == 'search':
        while True:
            yield from random_lines(rng, 50, [0, 1, 2, 3, 8, 32, 64] + [rng.randrange(1, 65) for _ in range(4)])
            k = rng.choice([1, 2, 3]); x = rand_vec(k, rng.randrange(0, 5), rng)
            yield from index_lines(k, x, rng, 'search.', 0.05)
        return
    quick = tier == 'quick'
    # 1. rings k in {1,2,3}, dims 0..4: every vector through every unary operation, split, pack
    for k in (1, 2, 3):
        for x in all_vectors(k, 4):
            if quick and k == 3 and len(x) == 4 and rng.random() > 0.1: continue
            tag = 'small.k%d.' % k
            yield from unary_lines(k, x, tag)
            yield from split_lines(k, x, tag)
    # 2. pairs: all unordered pairs (each line evaluates both operand orders)
    for k in (1, 2, 3):
        vs = list(all_vectors(k, 4))
        for i, x in enumerate(vs):
            for y in vs[i:]:
                dx, dy = len(x), len(y)
                if k == 1: keep = True
                elif k == 2: keep = (rng.random() < 0.12) if quick else True
                else:
                    if quick: keep = rng.random() < (0.5 if dx + dy <= 3 else 0.001)
                    else: keep = True if max(dx, dy) <= 2 else (rng.random() < (0.05 if max(dx, dy) == 3 else 0.004))
                if not keep: continue
                shape = 'empty-empty' if dx == dy == 0 else 'one-empty' if 0 in (dx, dy) else 'equal' if dx == dy else 'unequal'
                yield from pair_lines(k, x, y, 'small.k%d.binop.%s' % (k, shape))
    # 2b. EVERY ordered pair of vectors of dims 0..4 over k in {1,2,3}: one line = one left operand x all right operands of one dimension
    for k in (1, 2, 3):
        for x in all_vectors(k, 4):
            for dy in range(5):
                for o in BOPS:
                    if quick and rng.random() > (0.2 if k == 1 else 0.02 if k == 2 else 0.0015 if dy == 4 else 0.004): continue
                    # thorough: every ordered pair with dx+dy <= 6; of the 4.2M pairs of shapes (3,4)/(4,3) over Z/8 a quarter of the
                    # left operands, of the 16.7M pairs of shape (4,4) 2% of them (each against ALL right operands of that dimension)
                    if not quick and k == 3 and len(x) + dy == 7 and rng.random() > 0.25: continue
                    if not quick and k == 3 and len(x) + dy == 8 and rng.random() > 0.02: continue
                    yield 'poly.exh %s %s %d' % (o, pt(k, x), dy), 'exh.k%d.dy%d' % (k, dy)
    # 3. every index expression on dims 0..4 (values distinct so that order is visible)
    for k, xs in ((3, [[], [5], [1, 6], [3, 1, 4], [7, 2, 5, 1]]), (8, [[200, 7, 99], [1, 2, 3, 4, 250]]), (0, [[-3, 7, 1 << 40], []])):
        for x in xs:
            yield from index_lines(k, x, rng, 'index.k%d.' % k, 0.2 if quick else 0.6)
    if not quick:
        for k in (1, 2):
            for x in all_vectors(k, 3): yield from index_lines(k, x, rng, 'index.k%d.' % k, 0.02, span=len(x) + 1)
    # 4. wide rings, the ring Z, dims to 20
    n = 400 if quick else 4000
    yield from random_lines(rng, n, [0, 8, 32, 64])
    yield from random_lines(rng, n, [0, 8, 32, 64] + [rng.randrange(1, 65) for _ in range(12)])
    for k in range(1, 65):
        x = rand_vec(k, rng.randrange(1, 6), rng)
        yield from split_lines(k, x, 'allk.', sizes=sorted({d for d in range(1, k + 1) if k % d == 0} | {8, k + 1}))
        yield from unary_lines(k, x, 'allk.', shifts=[0, 1, k - 1, k, k + 1])
        yield from pair_lines(k, x, rand_vec(k, rng.randrange(0, 8), rng), 'allk.binop')
    # 5. malformed
    yield from malformed_lines(rng)


def shrink(line):
    t = line.split()
    for i, tok in enumerate(t[1:], 1):
        if tok[0] == 'p' and ':' in tok:
            k, l = unpt(tok)
            if l:
                yield ' '.join(t[:i] + [pt(k, l[:-1])] + t[i + 1:])
                yield ' '.join(t[:i] + [pt(k, l[1:])] + t[i + 1:])
                for j, v in enumerate(l):
                    if v not in (0, 1):
                        yield ' '.join(t[:i] + [pt(k, l[:j] + [v // 2] + l[j + 1:])] + t[i + 1:])
    if t[0] == 'poly.seq':
        steps = split_bar(t[3:])
        for j in range(len(steps)):
            rest = steps[:j] + steps[j + 1:]
            if rest: yield ' '.join(t[:3] + ' | '.join(' '.join(s) for s in rest).split())

LEVEL_TEXT = ('Lean 4 theorems about Model.Poly (the hand-written mirror of class Poly/SubPoly of crysp/poly.py and bits.pack) for every ring '
              'Z/2^k, every coefficient list and every index expression; the model is tied to the current source by a correspondence stream '
              '(all vectors of dims 0..4 over k in {1,2,3}, wide rings and Z seeded) that also evaluates an independent plain-list reference '
              'and both operand orders on the real code; Spec.Poly is echoed by the driver on every arithmetic / re-chunking line.')
LEVEL_NOTE = ('Trusted: Lean kernel; axioms ⊆ {propext, Classical.choice, Quot.sound}; runcheck.py/props/C16.py; CPython int/list/slice semantics are '
              'modelled (Model.Py). "Operands unchanged" is a fact about Python object identity: decided by the stream (operands printed after every '
              'operation), an immutable model satisfies it by construction. Theorem list: evidence/C16.json coverage.theorems.')
TECHNIQUE = 'Lean 4 proof (list induction / extensionality, Nat.testBit and div-mod arithmetic) + correspondence check'
