"""C06 — Salsa20, ChaCha, RC4: specified keystream, length-preserving XOR streams, RC4 continuity, Salsa20 core.

run_impl executes the op line on the real crysp classes (the guarded hook `_verif_block0` positions the block counter);
check_impl is the property's own predicate on the implementation's answer: an independent integer reference of
Salsa20/r, ChaCha/r and RC4 written from the specifications (no crysp, no Lean), length laws, round trips, the prefix
law, and for RC4 the comparison of the pieces with a one-shot encryption on a *fresh* real object."""
from props.common import *
from props.parts import c03_streams as _idx

ID = 'C06'
LEAN_PROOFS = ['Proofs.C06']
GEN_ITEMS = ['Streams']
LINE_TIMEOUT = 120
RULE = ('op lines = (cipher, key size 16/32, rounds 2..20, nonce, start block, message) with every |M| in 0..192 for the default '
        'configurations and the block-boundary set elsewhere, start blocks around 2^32 and 2^64 through the guarded hook, '
        'RC4 keys of every length 1..256 with split messages incl. empty pieces; distinct lines; non-trivial = the implementation returned a value')
TRUSTED = ['the reference Salsa20/ChaCha/RC4 in tools/props/C06.py (written from the specifications; used only as predicate on the real code)',
           'Spec.Salsa20 / Spec.Chacha / Spec.Rc4 as renderings of Bernstein\'s specifications and of RC4 (validated against the vectors of tests/test_*.py and the reference)']
ASSUMPTIONS = ['python -O (asserts stripped) is out of scope',
               'keys and nonces are handed over as Bits(bytes, bitorder=1) as in the test-suite; messages are bytes',
               'block numbers reaching 2^64 (messages of 2^70 bytes) are outside the specifications: compared code<->model only']
M32 = 0xffffffff


# ---------------------------------------------------------------------------------------------
# implementation side
def _cls(name):
    if name == 'salsa':
        from crysp.salsa20 import Salsa20; return Salsa20
    from crysp.chacha import Chacha; return Chacha


def _obj(name, k, r, b0=0):
    from crysp.bits import Bits
    K = None if k == 'None' else Bits(unhx(k), bitorder=1)
    o = _cls(name)(K, int(r))
    if int(b0): o._verif_block0 = int(b0)
    return o


def _nonce(v):
    from crysp.bits import Bits
    return Bits(unhx(v), bitorder=1)


def run_impl(line):
    t = line.split(); op, a = t[0], t[1:]
    if op.startswith('idx.'): return _idx.run_impl(line)
    def go():
        from crysp.poly import Poly
        fam, _, o = op.partition('.')
        if fam in ('salsa', 'chacha'):
            if o in ('enc', 'dec'):
                S = _obj(fam, a[0], a[2], a[3])
                return hx(getattr(S, o)(_nonce(a[1]), unhx(a[4])))
            if o == 'state':
                S = _obj(fam, a[0], a[2], a[3])
                c = S.enc(_nonce(a[1]), unhx(a[4]))
                return hx(c) + ';' + il(S.p.ival) + ';' + str(S.dround)
            if o == 'rt':
                S = _obj(fam, a[0], a[2], a[3]); v = _nonce(a[1])
                return hx(S.dec(v, S.enc(v, unhx(a[4]))))
            if o == 'prefix':
                S = _obj(fam, a[0], a[2], a[3]); v = _nonce(a[1]); m = unhx(a[4]); n = int(a[5])
                x = S.enc(v, m[:n]); y = S.enc(v, m)
                return hx(x) + '|' + hx(y)
            if o == 'ks':
                S = _obj(fam, a[0], a[2], a[3]); g = S.keystream(_nonce(a[1]))
                return ';'.join(hx(bytes(next(g).split(8).ival)) for _ in range(int(a[4])))
            if o == 'hash':
                return hx(_cls(fam)().hash(unhx(a[0])))
            if o in ('qr', 'row', 'col', 'dbl'):
                S = _cls(fam)()
                f = {'qr': S.quarterround, 'row': S.rowround, 'col': S.columnround, 'dbl': S.doubleround}[o]
                return il(f(Poly(unil(a[0]), 32)).ival)
        if op == 'rc4.seq':
            from crysp.rc4 import RC4
            X = RC4(unhx(a[0]))
            out = []
            rest = a[1:]
            steps = []
            if rest:
                assert rest[0] == '|'
                cur = []
                for tok in rest[1:]:
                    if tok == '|': steps.append(cur); cur = []
                    else: cur.append(tok)
                steps.append(cur)
            for s in steps:
                try:
                    if s[0] == 'e': out.append(hx(X.enc(unhx(s[1]))))
                    elif s[0] == 'd': out.append(hx(X.dec(unhx(s[1]))))
                    elif s[0] == 'k': out.append(il(X.keystream(int(s[1])).ival))
                    elif s[0] == 's':
                        try: r = X.enc(unhx(s[1]).decode('latin-1'))
                        except Exception: out.append('REFUSED')
                        else: out.append(hx(r) if isinstance(r, bytes) else 'RET')
                    else: raise RuntimeError('unknown step')
                except RuntimeError: raise
                except Exception:
                    out.append('ERR'); return ';'.join(out)
            out.append('%d,%d,%s' % (X.i, X.j, hx(bytes(X.S.ival))))
            return ';'.join(out)
        raise RuntimeError('unknown op ' + op)
    return guarded(go)


# ---------------------------------------------------------------------------------------------
# independent reference (integers only), from the specifications
def R(x, n): x &= M32; return ((x << n) & M32) | (x >> (32 - n))

def s_qr(y0, y1, y2, y3):
    z1 = y1 ^ R(y0 + y3, 7); z2 = y2 ^ R(z1 + y0, 9); z3 = y3 ^ R(z2 + z1, 13); z0 = y0 ^ R(z3 + z2, 18)
    return z0, z1, z2, z3

def s_row(y):
    z = [0] * 16
    z[0], z[1], z[2], z[3] = s_qr(y[0], y[1], y[2], y[3])
    z[5], z[6], z[7], z[4] = s_qr(y[5], y[6], y[7], y[4])
    z[10], z[11], z[8], z[9] = s_qr(y[10], y[11], y[8], y[9])
    z[15], z[12], z[13], z[14] = s_qr(y[15], y[12], y[13], y[14])
    return z

def s_col(x):
    y = [0] * 16
    y[0], y[4], y[8], y[12] = s_qr(x[0], x[4], x[8], x[12])
    y[5], y[9], y[13], y[1] = s_qr(x[5], x[9], x[13], x[1])
    y[10], y[14], y[2], y[6] = s_qr(x[10], x[14], x[2], x[6])
    y[15], y[3], y[7], y[11] = s_qr(x[15], x[3], x[7], x[11])
    return y

def s_dbl(x): return s_row(s_col(x))

def c_qr(a, b, c, d):
    a = (a + b) & M32; d = R(d ^ a, 16); c = (c + d) & M32; b = R(b ^ c, 12)
    a = (a + b) & M32; d = R(d ^ a, 8); c = (c + d) & M32; b = R(b ^ c, 7)
    return a, b, c, d

def _c_round(x, groups):
    y = list(x)
    for g in groups:
        r = c_qr(*[x[i] for i in g])
        for i, v in zip(g, r): y[i] = v
    return y

def c_col(x): return _c_round(x, [(0, 4, 8, 12), (1, 5, 9, 13), (2, 6, 10, 14), (3, 7, 11, 15)])
def c_diag(x): return _c_round(x, [(0, 5, 10, 15), (1, 6, 11, 12), (2, 7, 8, 13), (3, 4, 9, 14)])
def c_dbl(x): return c_diag(c_col(x))

def core(dbl, x, dr):
    z = list(x)
    for _ in range(dr): z = dbl(z)
    return [(a + b) & M32 for a, b in zip(x, z)]

def words(b): return [int.from_bytes(b[i:i + 4], 'little') for i in range(0, len(b), 4)]
def unwords(w): return b''.join(int(x).to_bytes(4, 'little') for x in w)

def ref_block(fam, key, nonce, i, dr):
    c = b'expand 32-byte k' if len(key) == 32 else b'expand 16-byte k'
    k0, k1 = key[:16], key[-16:]
    ctr = int(i).to_bytes(8, 'little')
    if fam == 'salsa':
        inp = c[0:4] + k0 + c[4:8] + nonce + ctr + c[8:12] + k1 + c[12:16]
        return unwords(core(s_dbl, words(inp), dr))
    inp = c + k0 + k1 + ctr + nonce
    return unwords(core(c_dbl, words(inp), dr))

def ref_enc(fam, key, nonce, rounds, b0, m):
    """None where the specifications define nothing"""
    if len(key) not in (16, 32) or len(nonce) != 8 or rounds <= 0 or rounds % 2: return None
    n = (len(m) + 63) // 64
    if b0 + n > 1 << 64: return None
    ks = b''.join(ref_block(fam, key, nonce, b0 + j, rounds // 2) for j in range(n))
    return bytes(x ^ y for x, y in zip(m, ks))

def ref_rc4_state(key):
    S = list(range(256)); j = 0
    for i in range(256):
        j = (j + S[i] + key[i % len(key)]) % 256
        S[i], S[j] = S[j], S[i]
    return [S, 0, 0]

def ref_rc4_ks(st, n):
    S, i, j = st; out = []
    for _ in range(n):
        i = (i + 1) % 256; j = (j + S[i]) % 256
        S[i], S[j] = S[j], S[i]
        out.append(S[(S[i] + S[j]) % 256])
    st[1], st[2] = i, j
    return out


# published vectors (tests/test_chacha.py, tests/test_salsa20.py, tests/test_rc4.py): op line -> (required prefix, required suffix)
KAT = {
    'chacha.ks x00000000000000000000000000000000 x0000000000000000 8 0 2':
        ('xe28a5fa4a67f8c5defed3e6fb7303486aa8427d31419a729572d777953491120b64ab8e72b8deb85cd6aea7cb6089a101824beeb08814a428aab1fa2c816081b;x8a26af448a1ba906368fd8c83831c18c', '19925f5d338e430d'),
    'chacha.ks x00000000000000000000000000000000 x0000000000000000 12 0 2':
        ('xe1047ba9476bf8ff312c01b4345a7d8ca5792b0ad467313f1dc412b5fdce3241', '8357991e784ea20f'),
    'chacha.ks x01000000000000000000000000000000 x0000000000000000 20 0 1':
        ('xae56060d04f5b597897ff2af1388dbceff5a2a4920335dc17a3cb1b1b10fbe70', '6be4449376ed7c42'),
    'chacha.ks x00112233445566778899aabbccddeeffffeeddccbbaa99887766554433221100 x0f1e2d3c4b5a6978 20 0 1':
        ('x9fadf409c00811d00431d67efbd88fba59218d5d6708b1d685863fabbb0e961e', 'a212e2167ccab931'),
    'salsa.hash xd39f0d734c3752b70375de25bfbbea8831edb330016ab2dbafc7a6305610b3cf1ff0203f0f535da174933071ee37cc244fc9eb4f03519c2fcb1af4f358766836':
        ('x6d2ab2', '1330ca'),
    'rc4.seq x4b6579 | e x506c61696e74657874': ('xbbf316e8d940af0ad3;', ''),
    'rc4.seq x536563726574 | e x41747461636b206174206461776e': ('x45a01f645fc35b383552544b9bf5;', ''),
}


def check_impl(line, res):
    t = line.split(); op, a = t[0], t[1:]
    if op.startswith('idx.'): return _idx.check_impl(line, res)
    if line in KAT:
        pre, suf = KAT[line]
        if not (res.startswith(pre) and res.endswith(suf)): return op + ': published test vector not reproduced'
    bad = lambda why: '%s: %s' % (op, why)
    fam, _, o = op.partition('.')
    if fam in ('salsa', 'chacha'):
        if o in ('enc', 'dec', 'state', 'rt', 'prefix', 'ks'):
            if a[0] == 'None': return None if res == 'ERR' else bad('no key: must be refused')
            key, nonce, rounds, b0 = unhx(a[0]), unhx(a[1]), int(a[2]), int(a[3])
            defined = len(key) in (16, 32) and len(nonce) == 8 and rounds > 0 and rounds % 2 == 0
            if not defined: return None          # outside the specifications: code <-> model only
            if o == 'ks':
                n = int(a[4])
                if b0 + n > 1 << 64: return None
                exp = ';'.join(hx(ref_block(fam, key, nonce, b0 + j, rounds // 2)) for j in range(n))
                return None if res == exp else bad('keystream blocks differ from the specification')
            m = unhx(a[4])
            if b0 + (len(m) + 63) // 64 > 1 << 64: return None
            if res == 'ERR': return bad('exception on a valid input')
            if o in ('enc', 'dec', 'state'):
                c = unhx(res.split(';')[0])
                if len(c) != len(m): return bad('|enc(M)| = %d, |M| = %d' % (len(c), len(m)))
                return None if c == ref_enc(fam, key, nonce, rounds, b0, m) else bad('ciphertext is not M xor specified keystream')
            if o == 'rt':
                return None if unhx(res) == m else bad('dec(enc(M)) != M')
            if o == 'prefix':
                n = int(a[5]); x, y = [unhx(s) for s in res.split('|')]
                if len(x) != min(n, len(m)) or len(y) != len(m): return bad('length')
                return None if y[:len(x)] == x else bad('enc(M[:n]) is not a prefix of enc(M)')
        if o == 'hash':
            m = unhx(a[0])
            if len(m) != 64: return None
            exp = unwords(core(s_dbl if fam == 'salsa' else c_dbl, words(m), 10))
            return None if res == hx(exp) else bad('hash differs from the specification')
        if o in ('qr', 'row', 'col', 'dbl'):
            y = unil(a[0])
            if o == 'qr':
                if len(y) != 4: return None
                exp = list((s_qr if fam == 'salsa' else c_qr)(*y))
            else:
                if len(y) != 16: return None
                f = {'salsa': {'row': s_row, 'col': s_col, 'dbl': s_dbl}, 'chacha': {'row': c_diag, 'col': c_col, 'dbl': c_dbl}}[fam][o]
                exp = f(y)
            return None if res == il(exp) else bad('differs from the specification')
        return None
    if op == 'rc4.seq':
        key = unhx(a[0])
        if not (1 <= len(key) <= 256): return None if res == 'ERR' else bad('key length outside 1..256 must be refused')
        if res == 'ERR': return bad('exception on a valid key')
        steps = []
        cur = None
        for tok in a[1:]:
            if tok == '|':
                if cur is not None: steps.append(cur)
                cur = []
            else: cur.append(tok)
        if cur is not None: steps.append(cur)
        outs = res.split(';')
        if len(outs) != len(steps) + 1: return bad('a step raised an exception')
        st = ref_rc4_state(key)
        stream = b''          # all bytes that went through enc/dec, and the corresponding outputs
        got = b''
        only_enc = True
        for s, o_ in zip(steps, outs):
            if s[0] in ('e', 'd'):
                m = unhx(s[1]); c = unhx(o_)
                if len(c) != len(m): return bad('|enc(M)| = %d for |M| = %d' % (len(c), len(m)))
                ks = ref_rc4_ks(st, len(m))
                if c != bytes(x ^ y for x, y in zip(m, ks)): return bad('piece differs from M xor RC4 keystream')
                stream += m; got += c
            elif s[0] == 's':
                # a text message is not a byte string; when the call is refused the object must still be the same stream
                if o_ != 'REFUSED': return None
            else:
                only_enc = False
                if unil(o_) != ref_rc4_ks(st, int(s[1])): return bad('keystream(n) differs from RC4')
        i, j, S = outs[-1].split(',')
        if (int(i), int(j), list(unhx(S))) != (st[1], st[2], st[0]): return bad('state (i,j,S) after the calls differs from RC4')
        if only_enc and steps:
            # continuity, evaluated on the real code: the pieces equal a one-shot encryption by a fresh object
            from crysp.rc4 import RC4
            one = guarded(lambda: hx(RC4(key).enc(stream)))
            if one != hx(got): return bad('pieces %s != one-shot on a fresh object %s' % (hx(got)[:80], one[:80]))
            back = guarded(lambda: hx(RC4(key).dec(got)))
            if back != hx(stream): return bad('dec(enc(M)) != M on fresh objects')
        return None
    return None


# ---------------------------------------------------------------------------------------------
# generators
def rb(rng, n): return bytes(rng.getrandbits(8) for _ in range(n))

def cline(fam, o, key, nonce, rounds, b0, m, extra=None):
    l = '%s.%s %s %s %d %d %s' % (fam, o, key if key == 'None' else hx(key), hx(nonce), rounds, b0, m if isinstance(m, str) else str(m) if isinstance(m, int) else hx(m))
    return l if extra is None else l + ' ' + str(extra)

BOUND = [0, 1, 2, 31, 62, 63, 64, 65, 66, 127, 128, 129, 190, 191, 192]
CARRY = [(1 << 32) - 2, (1 << 32) - 1, 1 << 32, (1 << 33) - 1, (1 << 40) + 5, (1 << 63) - 1, (1 << 64) - 3, (1 << 64) - 2, (1 << 64) - 1, 1 << 64]
WORDS = [0, 1, M32, 1 << 31, (1 << 31) - 1, 0x01234567, 0x89abcdef]

def wvec(rng, n): return [rng.choice(WORDS) if rng.random() < 0.3 else rng.getrandbits(32) for _ in range(n)]

def rc4_line(key, steps):
    return 'rc4.seq ' + hx(key) + ''.join(' | %s %s' % (k, v if isinstance(v, (str, int)) and not isinstance(v, bytes) else hx(v)) for k, v in steps)

def split_pieces(rng, m, n):
    cuts = sorted(rng.randrange(len(m) + 1) for _ in range(n - 1))
    cuts = [0] + cuts + [len(m)]
    return [m[cuts[i]:cuts[i + 1]] for i in range(n)]


def cases(tier, rng):
    fams = ('salsa', 'chacha')
    if tier == 'search':
        while True:
            fam = rng.choice(fams)
            key = rb(rng, rng.choice((16, 32))); nonce = rb(rng, 8); rounds = 2 * rng.randrange(1, 11)
            b0 = rng.choice([0, 0, 0, rng.choice(CARRY[:8]), rng.getrandbits(rng.randrange(1, 64))])
            L = rng.choice([rng.randrange(0, 200), rng.choice(BOUND), 64 * rng.randrange(0, 4)])
            m = rb(rng, L)
            yield cline(fam, 'enc', key, nonce, rounds, b0, m), fam + '.enc'
            yield cline(fam, 'rt', key, nonce, rounds, b0, m), fam + '.rt'
            yield cline(fam, 'prefix', key, nonce, rounds, b0, m, rng.randrange(0, L + 2)), fam + '.prefix'
            yield '%s.hash %s' % (fam, hx(rb(rng, 64))), fam + '.hash'
            for o, n in (('qr', 4), ('row', 16), ('col', 16), ('dbl', 16)):
                yield '%s.%s %s' % (fam, o, il(wvec(rng, n))), fam + '.' + o
            k = rb(rng, rng.randrange(1, 257)); m = rb(rng, rng.randrange(0, 80))
            yield rc4_line(k, [('e', p) for p in split_pieces(rng, m, rng.randrange(1, 5))]), 'rc4.split'
            yield from _idx.cases('quick', rng)
        return
    quick = tier == 'quick'
    yield from ((l, t) for l, t in _idx.cases(tier, rng) if l.startswith('idx.map'))

    # -- 1. every |M| in 0..192 (all residues mod 64 over three blocks, empty message included), default configurations
    for fam, ksz, rounds in (('salsa', 32, 20), ('chacha', 32, 20)) + (() if quick else (('salsa', 16, 20), ('chacha', 16, 8), ('salsa', 32, 12), ('chacha', 32, 12))):
        key = rb(rng, ksz); nonce = rb(rng, 8)
        for L in range(0, 193):
            yield cline(fam, 'enc', key, nonce, rounds, 0, rb(rng, L)), fam + '.enc.alllen'
    # -- 2. key sizes x every even round count x block-boundary lengths, non-zero nonces
    for fam in fams:
        for ksz in (16, 32):
            for rounds in range(2, 21, 2):
                key = rb(rng, ksz); nonce = rb(rng, 8)
                Ls = BOUND + ([] if quick else [rng.randrange(0, 260) for _ in range(6)])
                for L in Ls:
                    yield cline(fam, 'enc', key, nonce, rounds, 0, rb(rng, L)), '%s.enc.k%d.r%d' % (fam, ksz, rounds)
                yield cline(fam, 'ks', key, nonce, rounds, 0, 2), fam + '.ks'
                yield cline(fam, 'dec', key, nonce, rounds, 0, rb(rng, rng.randrange(1, 100))), fam + '.dec'
    # -- 3. structured keys / nonces (all-zero, all-ones, single bits) — the suite only ever uses the zero nonce
    for fam in fams:
        for key, nonce in ((bytes(16), bytes(8)), (bytes(32), bytes(8)), (b'\xff' * 32, b'\xff' * 8), (bytes(31) + b'\x80', bytes(7) + b'\x80'),
                           (b'\x01' + bytes(15), b'\x01' + bytes(7)), (bytes(range(1, 33)), bytes(range(101, 109)))):
            yield cline(fam, 'enc', key, nonce, 20, 0, bytes(70)), fam + '.enc.structured'
            yield cline(fam, 'state', key, nonce, 8, 0, bytes(65)), fam + '.state'
    # -- 4. round trip and prefix law
    for fam in fams:
        for ksz in (16, 32):
            for rounds in ((20, 8) if quick else (2, 8, 12, 20)):
                key = rb(rng, ksz); nonce = rb(rng, 8)
                for L in ([0, 1, 64, 65, 129] if quick else BOUND):
                    yield cline(fam, 'rt', key, nonce, rounds, 0, rb(rng, L)), fam + '.rt'
                for _ in range(4 if quick else 24):
                    L = rng.choice([rng.randrange(0, 193), rng.choice(BOUND)])
                    n = rng.choice([0, L, L + 1, max(L - 1, 0), rng.randrange(0, L + 1), 64 * rng.randrange(0, 3)])
                    yield cline(fam, 'prefix', key, nonce, rounds, 0, rb(rng, L), n), fam + '.prefix'
    # -- 5. block counter: carry from the low to the high word at 2^32, both words full, exhaustion at 2^64 (hook)
    for fam in fams:
        for ksz in (16, 32):
            key = rb(rng, ksz); nonce = rb(rng, 8)
            for b0 in CARRY:
                yield cline(fam, 'enc', key, nonce, 20 if ksz == 32 else 8, b0, rb(rng, 130)), fam + '.enc.counter'
                yield cline(fam, 'state', key, nonce, 4, b0, rb(rng, 64)), fam + '.state.counter'
            for b0 in CARRY[:4] + CARRY[-4:]:
                yield cline(fam, 'ks', key, nonce, 6, b0, 3), fam + '.ks.counter'
                yield cline(fam, 'rt', key, nonce, 2, b0, rb(rng, 100)), fam + '.rt.counter'
                yield cline(fam, 'prefix', key, nonce, 2, b0, rb(rng, 150), 70), fam + '.prefix.counter'
    if not quick:
        for fam in fams:
            for _ in range(60):
                key = rb(rng, rng.choice((16, 32))); nonce = rb(rng, 8)
                b0 = rng.choice([(1 << 32) - rng.randrange(1, 5), rng.getrandbits(64), (1 << 64) - rng.randrange(1, 6), rng.getrandbits(rng.randrange(1, 64))])
                yield cline(fam, 'enc', key, nonce, 2 * rng.randrange(1, 11), b0, rb(rng, rng.randrange(0, 330))), fam + '.enc.counter.random'
    # -- 6. seeded random
    for _ in range(40 if quick else 1200):
        fam = rng.choice(fams)
        key = rb(rng, rng.choice((16, 32))); nonce = rb(rng, 8); rounds = 2 * rng.randrange(1, 11)
        L = rng.choice([rng.randrange(0, 200), rng.randrange(0, 70), 64 * rng.randrange(0, 5), rng.randrange(0, 1100) if not quick else rng.randrange(0, 320)])
        yield cline(fam, 'enc', key, nonce, rounds, 0, rb(rng, L)), fam + '.enc.random'
    # -- 7. malformed: key / nonce sizes, rounds, missing key
    for fam in fams:
        good_k, good_v = rb(rng, 32), rb(rng, 8)
        for kl in (0, 1, 15, 17, 24, 31, 33, 48, 64):
            yield cline(fam, 'enc', rb(rng, kl), good_v, 20, 0, bytes(5)), fam + '.malformed.key'
        for vl in (0, 4, 7, 9, 12, 16):
            yield cline(fam, 'enc', good_k, rb(rng, vl), 20, 0, bytes(5)), fam + '.malformed.nonce'
            yield cline(fam, 'ks', good_k, rb(rng, vl), 20, 0, 1), fam + '.malformed.nonce'
        for r in (0, 1, 3, 7, 19, 21, -2, -1):
            yield cline(fam, 'enc', good_k, good_v, r, 0, bytes(5)), fam + '.malformed.rounds'
        for r in (22, 24, 40):
            yield cline(fam, 'enc', good_k, good_v, r, 0, bytes(65)), fam + '.enc.rounds>20'
        yield cline(fam, 'enc', 'None', good_v, 20, 0, bytes(5)), fam + '.malformed.nokey'
        yield cline(fam, 'enc', 'None', good_v, 20, 0, b''), fam + '.malformed.nokey'
        yield cline(fam, 'ks', 'None', good_v, 20, 0, 1), fam + '.malformed.nokey'
        yield cline(fam, 'ks', good_k, good_v, 20, (1 << 64) - 1, 2), fam + '.ks.exhausted'
    # -- 8. Salsa20 hash / core and the round components on Polys
    for fam in fams:
        for m in (bytes(64), b'\xff' * 64, bytes(range(64)), bytes([211, 159, 13, 115, 76, 55, 82, 183, 3, 117, 222, 37, 191, 187, 234, 136, 49, 237, 179, 48, 1, 106, 178, 219, 175, 199, 166, 48, 86, 16, 179, 207, 31, 240, 32, 63, 15, 83, 93, 161, 116, 147, 48, 113, 238, 55, 204, 36, 79, 201, 235, 79, 3, 81, 156, 47, 203, 26, 244, 243, 88, 118, 104, 54])):
            yield '%s.hash %s' % (fam, hx(m)), fam + '.hash'
        for _ in range(12 if quick else 300):
            yield '%s.hash %s' % (fam, hx(rb(rng, 64))), fam + '.hash'
        for L in (0, 3, 4, 60, 63, 65, 68, 128):
            yield '%s.hash %s' % (fam, hx(rb(rng, L))), fam + '.hash.not64'
        for o, n in (('qr', 4), ('row', 16), ('col', 16), ('dbl', 16)):
            for w in WORDS: yield '%s.%s %s' % (fam, o, il([w] * n)), fam + '.' + o
            for _ in range(16 if quick else 400): yield '%s.%s %s' % (fam, o, il(wvec(rng, n))), fam + '.' + o
            for bad_n in (n - 1, n + 1, 0):
                yield '%s.%s %s' % (fam, o, il(wvec(rng, bad_n))), fam + '.' + o + '.malformed'
    # -- 9. RC4: every key length 1..256; one-shot, splits with empty pieces, keystream(n) interleaved, dec
    for kl in range(1, 257):
        key = rb(rng, kl)
        L = rng.randrange(0, 40 if quick else 200)
        m = rb(rng, L)
        yield rc4_line(key, [('e', m)]), 'rc4.oneshot'
        pcs = split_pieces(rng, m, rng.randrange(2, 6))
        if rng.random() < 0.5: pcs.insert(rng.randrange(len(pcs) + 1), b'')
        yield rc4_line(key, [('e', p) for p in pcs]), 'rc4.split'
    for key in (b'Key', b'Wiki', b'Secret', b'\x00', b'\xff', bytes(256), bytes(range(256)), b'\x01\x02\x03\x04\x05'):
        yield rc4_line(key, []), 'rc4.ksa'
        yield rc4_line(key, [('e', b'')]), 'rc4.empty'
        yield rc4_line(key, [('e', b''), ('e', b''), ('e', b'Plaintext'), ('e', b'')]), 'rc4.split.empty'
        yield rc4_line(key, [('k', 16)]), 'rc4.keystream'
        yield rc4_line(key, [('k', 0), ('e', b'Attack at dawn'), ('k', 3), ('d', b'abc'), ('k', 0)]), 'rc4.mixed'
        yield rc4_line(key, [('e', b'Attack '), ('s', b'at dawn, refused'), ('e', b'at dawn'), ('s', b'x'), ('e', b'!')]), 'rc4.split.refused'
        m = rb(rng, 300 if quick else 1500)        # i wraps around 256 several times
        yield rc4_line(key, [('e', m)]), 'rc4.long'
        yield rc4_line(key, [('e', p) for p in split_pieces(rng, m, 4)]), 'rc4.split.long'
        for cut in (0, 1, 255, 256, 257):
            yield rc4_line(key, [('e', m[:cut]), ('e', m[cut:])]), 'rc4.split.at%d' % cut
    for _ in range(30 if quick else 1500):
        key = rb(rng, rng.choice([rng.randrange(1, 257), rng.randrange(1, 17)]))
        m = rb(rng, rng.randrange(0, 120))
        pcs = split_pieces(rng, m, rng.randrange(1, 7))
        yield rc4_line(key, [('e', p) for p in pcs]), 'rc4.split.random'
    for kl in (0, 257, 300):
        yield rc4_line(rb(rng, kl), [('e', b'abc')]), 'rc4.malformed.key'


def shrink(line):
    t = line.split()
    if t[0].startswith('idx.'): return
    for i, tok in enumerate(t[1:], 1):
        if tok[0] == 'x' and len(tok) > 3 and not (t[0].split('.')[0] in ('salsa', 'chacha') and i in (1, 2)):
            yield ' '.join(t[:i] + ['x' + tok[3:]] + t[i + 1:])
            yield ' '.join(t[:i] + [tok[:-2]] + t[i + 1:])
            yield ' '.join(t[:i] + ['x' + '00' * ((len(tok) - 1) // 2)] + t[i + 1:])
            if len(tok) > 129: yield ' '.join(t[:i] + [tok[:-128]] + t[i + 1:])


LEVEL_TEXT = ('Lean 4 theorems: Model.Salsa / Model.Chacha / Model.Rc4 (hand-written mirrors of salsa20.py, chacha.py, rc4.py on the Poly/Bits models) '
              'refine Spec.Salsa20 / Spec.Chacha / Spec.Rc4 (Bernstein\'s specifications, RC4) for every key, nonce, even round count, block number < 2^64 '
              'and message; stream laws (length, dec∘enc, prefix, RC4 continuity over any split) by induction. The model is tied to the current source by '
              'the translator (index maps, sigma/tau, rotation amounts) and a boundary-directed correspondence stream (every |M| mod 64, counter carry at 2^32 via the guarded hook).')
LEVEL_NOTE = ('Trusted: Lean kernel; axioms ⊆ {propext, Classical.choice, Quot.sound}; Spec.* as renderings of the specifications; extract.py/runcheck.py/props/C06.py; '
              'Model.Poly/Model.Bits/Model.Py as models of crysp Poly/Bits and CPython. Theorem list incl. any *_partial: evidence/C06.json coverage.theorems.')
TECHNIQUE = 'Lean 4 proof (refinement, list induction, kernel enumeration of the index maps) + correspondence check'
