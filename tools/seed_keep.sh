#!/bin/bash
# tools/seed_keep.sh <srcdir with patch.diff demo.py meta.json> <seeded id> : confirm a seeded change in a scratch worktree
# (patch applies, existing suite passes with it, demo fails with it and passes without) and keep it under /verif/seeded/<id>/
set -u
src="$1"; id="$2"; S=/tmp/mv_$$
git -C /repo worktree add -q --detach $S HEAD || exit 3
cd $S
ok=1
PYTHONPATH=$S /venv/bin/python "$src/demo.py" >/tmp/mv_clean.out 2>&1; rc_clean=$?
git apply "$src/patch.diff" || { echo "patch does not apply"; ok=0; }
if [ $ok = 1 ]; then
  PYTHONPATH=$S /venv/bin/python -m pytest -q -p no:cacheprovider >/tmp/mv_tests.out 2>&1; rc_tests=$?
  PYTHONPATH=$S /venv/bin/python "$src/demo.py" >/tmp/mv_mut.out 2>&1; rc_mut=$?
  echo "clean demo rc=$rc_clean; tests with change rc=$rc_tests ($(tail -1 /tmp/mv_tests.out)); demo with change rc=$rc_mut"
  if [ $rc_clean = 0 ] && [ $rc_tests = 0 ] && [ $rc_mut != 0 ]; then
    mkdir -p /verif/seeded/$id && cp "$src/patch.diff" "$src/demo.py" /verif/seeded/$id/
    /venv/bin/python - "$src/meta.json" /verif/seeded/$id/meta.json "$(tail -1 /tmp/mv_tests.out)" "$(tail -3 /tmp/mv_mut.out | tr '\n' ' ' | cut -c1-300)" <<'PY'
import json,sys
m=json.load(open(sys.argv[1]))
m['confirmed_by_integrator']={'scratch_worktree':'git worktree of /repo HEAD under /tmp, removed afterwards','suite_with_change':sys.argv[3],'demo_clean':'exit 0','demo_with_change':'exit !=0: '+sys.argv[4]}
json.dump(m,open(sys.argv[2],'w'),indent=1)
PY
    echo "KEPT /verif/seeded/$id"
  else echo "NOT KEPT"; fi
fi
cd /; git -C /repo worktree remove --force $S
