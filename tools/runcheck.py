#!/venv/bin/python
"""
runcheck.py — one check run for one property (DESIGN.md section 5).

  ./check Cxx quick|thorough      env: VERIF_SEED (int, default 0), VERIF_REPO (default /repo)
  ./check --replay <path>

exit 0  every obligation discharged, audit clean, model tied to the code, property held on every explored input
exit 1  + line `VIOLATION property=<id> replay=<path>[ no-failing-input-found]`
exit 2  infrastructure failure (no VIOLATION line)
"""
import os, sys, re, json, time, subprocess, importlib, hashlib, random, signal, shutil, fcntl, traceback
import multiprocessing as mp

ROOT = os.path.dirname(os.path.dirname(os.path.abspath(__file__)))
LEAN = os.path.join(ROOT, 'lean')
REPO = os.environ.get('VERIF_REPO', '/repo')
PY = '/venv/bin/python'
GUARD = 'BDCHT_CRYSP_VERIF'
ALLOWED_AXIOMS = {'propext', 'Classical.choice', 'Quot.sound'}
FORBIDDEN = re.compile(r'\b(sorry|admit|native_decide|bv_decide|implemented_by|unsafe)\b|^\s*axiom\s|maxHeartbeats\s+0\b', re.M)

sys.path.insert(0, os.path.join(ROOT, 'tools'))


def log(*a):
    print(*a, file=sys.stderr, flush=True)


# ------------------------------------------------------------------------------------------------
# build side
# ------------------------------------------------------------------------------------------------
def run(cmd, cwd=None, timeout=None, env=None):
    p = subprocess.run(cmd, cwd=cwd, stdout=subprocess.PIPE, stderr=subprocess.STDOUT, text=True,
                       timeout=timeout, env=env)
    return p.returncode, p.stdout


def strip_comments(src):
    # nested /- -/ and -- line comments (good enough: string literals containing "--" are rare in our files)
    out, i, depth, n = [], 0, 0, len(src)
    while i < n:
        if src.startswith('/-', i):
            depth += 1; i += 2; continue
        if depth and src.startswith('-/', i):
            depth -= 1; i += 2; continue
        if depth:
            if src[i] == '\n': out.append('\n')
            i += 1; continue
        if src.startswith('--', i):
            while i < n and src[i] != '\n': i += 1
            continue
        out.append(src[i]); i += 1
    return ''.join(out)


def grep_forbidden():
    hits = []
    for d in ('Model', 'Spec', 'Proofs', 'Driver'):
        for dp, _, fs in os.walk(os.path.join(LEAN, d)):
            for f in fs:
                if f.endswith('.lean'):
                    p = os.path.join(dp, f)
                    src = strip_comments(open(p).read())
                    for m in FORBIDDEN.finditer(src):
                        ln = src.count('\n', 0, m.start()) + 1
                        hits.append('%s:%d:%s' % (os.path.relpath(p, LEAN), ln, m.group(0).strip()))
    return hits


def theorems_of(module):
    """property theorems = every `theorem` declared in lean/<module path>.lean, inside `namespace <module>`"""
    path = os.path.join(LEAN, *module.split('.')) + '.lean'
    src = strip_comments(open(path).read())
    out = []
    for m in re.finditer(r'^\s*(?:@\[[^\]]*\]\s*)?(?:private\s+|protected\s+)?theorem\s+([^\s:({\[]+)', src, re.M):
        out.append((module + '.' + m.group(1), src.count('\n', 0, m.start()) + 1))
    return path, out


def build_and_audit(plugin, report):
    """extract -> lake build driver -> lake build proofs -> axiom audit.  Fills report; returns path of a private
    copy of the driver binary (or None)."""
    os.makedirs(os.path.join(ROOT, '.run'), exist_ok=True)
    lock = open(os.path.join(ROOT, '.run', 'lock'), 'w')
    fcntl.flock(lock, fcntl.LOCK_EX)
    try:
        t = time.time()
        env = dict(os.environ, PYTHONPATH=REPO, **{GUARD: '1'})
        rc, out = run([PY, os.path.join(ROOT, 'tools', 'extract.py'), '--repo', REPO, '--json'], env=env, timeout=600)
        try:
            ext = json.loads(out.strip().splitlines()[-1])
        except Exception:
            ext = {'failed': {'*': 'extract.py crashed: ' + out[-2000:]}, 'items': [], 'sources': {}}
        report['extract'] = ext
        report['extract_s'] = round(time.time() - t, 2)
        needed = set(getattr(plugin, 'GEN_ITEMS', []))
        failed = ext.get('failed', {})
        report['tie_broken'] = []
        for it, why in failed.items():
            if it == '*' or it in needed:
                report['tie_broken'].append('translator: item %s could not be extracted from the current source (%s); golden copy used' % (it, why))
        subprocess.run([sys.executable, os.path.join(ROOT, 'tools', 'mkmain.py')], check=True)

        t = time.time()
        rc, out = run(['lake', 'build', 'driver'], cwd=LEAN, timeout=3600)
        report['driver_build_s'] = round(time.time() - t, 2)
        if rc != 0:
            # the regenerated Gen does not even compile: fall back to golden Gen for every item, remember the tie is broken
            log(out[-3000:])
            report['tie_broken'].append('translator: Model does not compile against the regenerated Gen files; golden copies used: '
                                        + '; '.join(l for l in out.splitlines() if l.startswith('error'))[:600])
            rc2, out2 = run([PY, os.path.join(ROOT, 'tools', 'extract.py'), '--repo', REPO, '--json', '--golden'], env=env)
            rc, out = run(['lake', 'build', 'driver'], cwd=LEAN, timeout=3600)
            if rc != 0:
                report['infra'] = 'driver does not build even with golden Gen:\n' + out[-3000:]
                return None
        # proofs
        obligations, broken = [], []
        t = time.time()
        for mod in plugin.LEAN_PROOFS:
            path, ths = theorems_of(mod)
            obligations += [n for n, _ in ths]
            rc, out = run(['lake', 'build', mod], cwd=LEAN, timeout=7200)
            if rc != 0:
                errs = re.findall(r'error: ([^\s:]+\.lean):(\d+):(\d+): (.*)', out)
                rel = os.path.relpath(path, LEAN)
                hit = set()
                for f, ln, _, msg in errs:
                    if f.endswith(rel):
                        ln = int(ln)
                        cands = [n for n, l in ths if l <= ln]
                        hit.add(cands[-1] if cands else mod)
                    else:
                        hit.add('%s (in %s:%s: %s)' % (mod, f, ln, msg[:120]))
                if not hit: hit.add(mod + ' (build failed: ' + out[-400:].replace('\n', ' ') + ')')
                broken += sorted(hit)
        report['proof_build_s'] = round(time.time() - t, 2)
        # audit
        axioms = {}
        if not broken:
            aud = os.path.join(LEAN, '.audit_%s_%d.lean' % (plugin.ID, os.getpid()))
            with open(aud, 'w') as f:
                for mod in plugin.LEAN_PROOFS: f.write('import %s\n' % mod)
                for n in obligations: f.write('#print axioms %s\n' % n)
            rc, out = run(['lake', 'env', 'lean', aud], cwd=LEAN, timeout=1800)
            os.unlink(aud)
            for m in re.finditer(r"'([^']+)' depends on axioms: \[([^\]]*)\]", out):
                axioms[m.group(1)] = [a.strip() for a in m.group(2).replace('\n', ' ').split(',') if a.strip()]
            for m in re.finditer(r"'([^']+)' does not depend on any axioms", out):
                axioms[m.group(1)] = []
            for n in obligations:
                if n not in axioms:
                    broken.append(n + ' (no #print axioms output)')
                elif not set(axioms[n]) <= ALLOWED_AXIOMS:
                    broken.append(n + ' (axioms: %s)' % ','.join(axioms[n]))
        forb = grep_forbidden()
        if forb:
            broken.append('forbidden tokens: ' + ' '.join(forb[:10]))
        report['obligations'] = obligations
        report['broken_obligations'] = broken
        report['axioms'] = sorted({a for v in axioms.values() for a in v})
        # private copy of the driver
        priv = os.path.join(ROOT, '.run', 'driver_%s_%d' % (plugin.ID, os.getpid()))
        shutil.copy2(os.path.join(LEAN, '.lake', 'build', 'bin', 'driver'), priv)
        return priv
    finally:
        fcntl.flock(lock, fcntl.LOCK_UN)
        lock.close()


# ------------------------------------------------------------------------------------------------
# implementation side (real code, in worker processes)
# ------------------------------------------------------------------------------------------------
class _Timeout(Exception):
    pass


def _alarm(sig, frm):
    raise _Timeout()


_PLUGIN = None


def _worker_init(prop):
    global _PLUGIN
    os.environ[GUARD] = '1'
    if REPO not in sys.path: sys.path.insert(0, REPO)
    _PLUGIN = importlib.import_module('props.' + prop)
    signal.signal(signal.SIGALRM, _alarm)


def _worker_run(chunk):
    """for each line: (canonical result of the real code, failure text of the property's own predicate or None)"""
    out = []
    for line in chunk:
        pred = None
        try:
            signal.alarm(getattr(_PLUGIN, 'LINE_TIMEOUT', 60))
            try:
                res = _PLUGIN.run_impl(line)
                if hasattr(_PLUGIN, 'check_impl'):
                    try:
                        pred = _PLUGIN.check_impl(line, res)
                    except _Timeout:
                        raise
                    except Exception as e:
                        res = 'HARNESS:check_impl:' + type(e).__name__ + ':' + str(e)[:200]
            finally:
                signal.alarm(0)
        except _Timeout:
            res = 'TIMEOUT'; pred = 'the real code did not return within the per-line time limit'
        except RecursionError:
            res = 'ERR'
        except BaseException as e:   # harness bug, not an exception of the code under test (those are caught in run_impl)
            res = 'HARNESS:' + type(e).__name__ + ':' + str(e)[:200]
        out.append((res, pred))
    return out


def run_impl_lines(prop, lines, procs=None):
    if not lines: return []
    procs = procs or min(16, max(1, len(lines) // 8))
    k = max(1, min(64, len(lines) // (procs * 4) or 1))
    chunks = [lines[i:i + k] for i in range(0, len(lines), k)]
    ctx = mp.get_context('fork')
    with ctx.Pool(procs, initializer=_worker_init, initargs=(prop,)) as pool:
        res = pool.map(_worker_run, chunks)
    return [r for c in res for r in c]


def run_driver(driver, lines):
    if not lines: return []
    p = subprocess.run([driver], input='\n'.join(lines) + '\n', stdout=subprocess.PIPE, text=True, timeout=3600)
    outs = p.stdout.split('\n')
    if outs and outs[-1] == '': outs.pop()
    if len(outs) != len(lines):
        raise RuntimeError('driver answered %d lines for %d inputs' % (len(outs), len(lines)))
    r = []
    for o in outs:
        a = o.split('\t')
        r.append((a[0], a[1] if len(a) > 1 else '-'))
    return r


# ------------------------------------------------------------------------------------------------
# known findings
# ------------------------------------------------------------------------------------------------
def load_known(prop):
    """known_findings.json plus per-property fragments known/<Cxx>*.json (same format)"""
    import glob
    out = []
    for p in [os.path.join(ROOT, 'known_findings.json')] + sorted(glob.glob(os.path.join(ROOT, 'known', '*.json'))):
        if os.path.exists(p):
            out += [e for e in json.load(open(p)).get('findings', []) if e.get('property') == prop and e.get('status') == 'known']
    return out


def match_known(known, line):
    for e in known:
        if re.search(e['match'], line): return e
    return None


# ------------------------------------------------------------------------------------------------
def evaluate(plugin, driver, lines):
    """returns list of dicts per line: impl, model, spec, pred (failure text or None), kinds"""
    impl = run_impl_lines(plugin.ID, lines)
    drv = run_driver(driver, lines)
    res = []
    for line, (p, pred), (m, s) in zip(lines, impl, drv):
        kinds = []
        if p.startswith('HARNESS:') or m == '?':
            kinds.append('harness')
        else:
            if s != '-' and p != s: kinds.append('impl!=spec')
            if pred: kinds.append('predicate')
            if p != m: kinds.append('impl!=model')
            if s != '-' and m != s: kinds.append('model!=spec')
        res.append({'line': line, 'impl': p, 'model': m, 'spec': s, 'pred': pred, 'kinds': kinds})
    return res


def property_fails(r):
    return 'impl!=spec' in r['kinds'] or 'predicate' in r['kinds']


def shrink(plugin, driver, r):
    if not hasattr(plugin, 'shrink'): return r
    best = r
    t0 = time.time()
    improved = True
    while improved and time.time() - t0 < 60:
        improved = False
        cands = list(plugin.shrink(best['line']))[:200]
        if not cands: break
        try:
            rs = evaluate(plugin, driver, cands)
        except Exception:
            break
        for c in rs:
            if property_fails(c) and len(c['line']) < len(best['line']):
                best = c; improved = True; break
    return best


def write_replay(prop, payload):
    os.makedirs(os.path.join(ROOT, 'replays'), exist_ok=True)
    h = hashlib.sha256(json.dumps(payload, sort_keys=True).encode()).hexdigest()[:12]
    path = os.path.join(ROOT, 'replays', '%s-%s.json' % (prop, h))
    json.dump(payload, open(path, 'w'), indent=1)
    return os.path.relpath(path, ROOT)


def write_evidence(prop, ev):
    os.makedirs(os.path.join(ROOT, 'evidence'), exist_ok=True)
    json.dump(ev, open(os.path.join(ROOT, 'evidence', prop + '.json'), 'w'), indent=1)


def check(prop, tier):
    t0 = time.time()
    seed = int(os.environ.get('VERIF_SEED', '0') or 0)
    plugin = importlib.import_module('props.' + prop)
    report = {}
    driver = build_and_audit(plugin, report)
    if driver is None:
        log('INFRA: ' + report.get('infra', '?'))
        return 2
    try:
        return check2(prop, tier, seed, plugin, report, driver, t0)
    finally:
        try: os.unlink(driver)
        except OSError: pass


def check2(prop, tier, seed, plugin, report, driver, t0):
    known = load_known(prop)
    rng = random.Random(seed)
    # ---- case stream: corpus, then generated
    cases = []
    import glob
    for corpus in sorted(glob.glob(os.path.join(ROOT, 'corpus', prop + '*.ops'))):
        for l in open(corpus):
            l = l.strip()
            if l and not l.startswith('#'): cases.append((l, 'corpus'))
    # changed-source escalation: when a source file the property is anchored in differs from the copy the goldens were
    # taken from, the quick tier explores with the thorough tier's generators (nothing changes on the unchanged tree)
    gen_tier, changed, escalate = tier, [], False
    try:
        gold_src = json.load(open(os.path.join(LEAN, 'Golden', 'SOURCES.json')))
        anchors = [json.loads(l) for l in open(os.path.join(ROOT, 'properties.jsonl'))]
        files = set(next(a for a in anchors if a['id'] == prop)['anchors']['files']) | set(getattr(plugin, 'SOURCE_FILES', []))
        cur = report['extract'].get('sources', {})
        changed = sorted(f for f in files if cur.get(f) != gold_src.get(f))
        escalate = bool(changed) and tier == 'quick' and os.environ.get('VERIF_NO_ESCALATE') != '1'
    except Exception:
        pass
    report['source_changed'] = changed
    for line, tag in plugin.cases(gen_tier, rng):
        cases.append((line, tag))
    seen, lines, tags = set(), [], {}
    for line, tag in cases:
        tags[tag] = tags.get(tag, 0) + 1
        if line not in seen:
            seen.add(line); lines.append(line)
    results = evaluate(plugin, driver, lines)
    if escalate and not any((property_fails(r) and match_known(known, r['line']) is None) or 'impl!=model' in r['kinds'] or 'harness' in r['kinds'] for r in results) \
            and not report['broken_obligations'] and not report['tie_broken']:
        # an anchored source file changed and the quick stream saw nothing: look again with the thorough generators
        # (time-boxed: VERIF_ESCALATE_S seconds, default 180; evaluated in chunks so that a hit ends it at once)
        budget = float(os.environ.get('VERIF_ESCALATE_S', '180'))
        t_esc, n_esc, chunk = time.time(), 0, []
        def flush():
            nonlocal results, lines, chunk, n_esc
            if not chunk: return False
            rs = evaluate(plugin, driver, chunk)
            results += rs; lines += chunk; n_esc += len(chunk); chunk = []
            return any(property_fails(r) or 'impl!=model' in r['kinds'] or 'harness' in r['kinds'] for r in rs)
        hit = False
        for line, tag in plugin.cases('thorough', random.Random(seed)):
            if line in seen: continue
            tags['esc:' + tag] = tags.get('esc:' + tag, 0) + 1
            seen.add(line); chunk.append(line)
            if len(chunk) >= 5000:
                hit = flush()
                if hit or time.time() - t_esc > budget: break
        if not hit and time.time() - t_esc <= budget: flush()
        report['escalated'] = n_esc
    harness = [r for r in results if 'harness' in r['kinds']]
    if harness:
        log('INFRA: harness failure on %d lines, first: %r' % (len(harness), harness[0]))
        return 2
    fails = [r for r in results if property_fails(r)]
    disagree = [r for r in results if 'impl!=model' in r['kinds']]
    echo = [r for r in results if 'model!=spec' in r['kinds']]
    tie_broken = list(report['tie_broken'])
    if disagree:
        tie_broken.append('correspondence: code and model differ on %d of %d lines, first: %s -> impl %s / model %s'
                          % (len(disagree), len(lines), disagree[0]['line'][:300], disagree[0]['impl'][:120], disagree[0]['model'][:120]))
    broken = list(report['broken_obligations'])
    if echo and not fails:
        broken.append('executable echo: model and spec differ on %s' % echo[0]['line'][:300])

    out_lines, violations, known_hits = [], [], {}
    new_fails = []
    for r in fails:
        e = match_known(known, r['line'])
        if e is not None: known_hits.setdefault(e['id'], (e, r))
        else: new_fails.append(r)
    # witnesses of known findings are re-executed on every run
    for e in known:
        if e['id'] not in known_hits and e.get('witness'):
            rr = evaluate(plugin, driver, [e['witness']])[0]
            if property_fails(rr): known_hits[e['id']] = (e, rr)
    for eid, (e, r) in sorted(known_hits.items()):
        print('KNOWN-FINDING: property=%s %s' % (prop, e['what']))

    searched = 0
    if not new_fails and (broken or tie_broken):
        # something no longer checks: search the implementation for a failing input of the property itself
        budget = 60 if tier == 'quick' else 600
        ts = time.time()
        srng = random.Random(seed * 7919 + 1)
        gen = plugin.cases('search', srng)
        while time.time() - ts < budget and not new_fails:
            batch = []
            for line, tag in gen:
                if line not in seen:
                    seen.add(line); batch.append(line)
                if len(batch) >= 400: break
            if not batch: break
            rs = evaluate(plugin, driver, batch)
            searched += len(batch)
            for r in rs:
                if property_fails(r) and match_known(known, r['line']) is None:
                    new_fails.append(r)
    rc = 0
    if new_fails:
        r = shrink(plugin, driver, new_fails[0])
        payload = {'property': prop, 'kind': 'failing-input', 'line': r['line'], 'impl': r['impl'], 'model': r['model'],
                   'spec': r['spec'], 'predicate': r['pred'], 'why': r['kinds'], 'seed': seed, 'tier': tier,
                   'broken_obligations': broken, 'tie_broken': tie_broken, 'other_failing_lines': [x['line'][:400] for x in new_fails[1:6]],
                   'sources': report['extract'].get('sources', {}), 'replay': './check --replay <this file>'}
        path = write_replay(prop, payload)
        print('VIOLATION property=%s replay=%s' % (prop, path))
        violations.append(path); rc = 1
    elif broken or tie_broken:
        payload = {'property': prop, 'kind': 'no-failing-input-found', 'broken_obligations': broken, 'tie_broken': tie_broken,
                   'searched_inputs': len(lines) + searched, 'seed': seed, 'tier': tier,
                   'disagreeing_lines': [{k: x[k] for k in ('line', 'impl', 'model', 'spec')} for x in disagree[:5]],
                   'sources': report['extract'].get('sources', {})}
        path = write_replay(prop, payload)
        print('VIOLATION property=%s replay=%s no-failing-input-found' % (prop, path))
        violations.append(path); rc = 1

    nontrivial = set()
    for r in results:
        if hasattr(plugin, 'nontrivial'):
            if plugin.nontrivial(r['line'], r['impl']): nontrivial.add(r['line'])
        elif r['impl'] != 'ERR': nontrivial.add(r['line'])
    obligations = report['obligations']
    nbroken = len([b for b in report['broken_obligations'] if not b.startswith('forbidden')])
    discharged = max(len(obligations) - nbroken, 0) if not report['broken_obligations'] else max(min(len(obligations) - nbroken, len(obligations) - 1), 0)
    ev = {
        'property_id': prop, 'tier': tier, 'seed': seed, 'level': 'proof',
        'coverage': {
            'obligations': len(obligations), 'discharged': discharged,
            'checker_cmd': 'cd lean && lake build driver ' + ' '.join(plugin.LEAN_PROOFS) + ' && lake env lean <#print axioms of every property theorem>'
                           + (' && lake env leanchecker ' + ' '.join(plugin.LEAN_PROOFS) if tier == 'thorough' else ''),
            'trusted_base': ['Lean 4.33.0 kernel', 'axioms used: ' + (', '.join(report['axioms']) or 'none'),
                             'tools/extract.py (translator) and tools/runcheck.py + tools/props/%s.py (correspondence check)' % prop]
                            + list(getattr(plugin, 'TRUSTED', [])),
            'theorems': obligations,
            'broken_obligations': report['broken_obligations'],
            'tie_broken': tie_broken,
            'evaluations': len(lines) + searched,
            'distinct_nontrivial': len(nontrivial),
            'traces_validated_against_impl': len(lines) - len(disagree),
            'rule': getattr(plugin, 'RULE', 'distinct op lines; non-trivial = the implementation returned a value (not an exception)'),
            'distribution': tags,
            'compared_with_spec': len([r for r in results if r['spec'] != '-']),
            'compared_with_predicate': len([r for r in results if r['impl'] != 'ERR']) if hasattr(plugin, 'check_impl') else 0,
            'samples': [{'line': r['line'][:300], 'impl': r['impl'][:200], 'model': r['model'][:200], 'spec': r['spec'][:200]}
                        for r in (results[:2] + results[len(results) // 2:len(results) // 2 + 2] + results[-2:])],
            'source_changed_since_golden': report.get('source_changed', []), 'escalated_lines': report.get('escalated', 0),
            'translator': {'items': report['extract'].get('items', []), 'failed': report['extract'].get('failed', {})},
            'known_findings_reproduced': sorted(known_hits),
            'exhaustive': False,
        },
        'assumptions': list(getattr(plugin, 'ASSUMPTIONS', [])),
        'wall_s': round(time.time() - t0, 2),
        'violations': len(violations),
    }
    if tier == 'thorough' and not report['broken_obligations']:
        t = time.time()
        rc2, out = run(['lake', 'env', 'leanchecker'] + list(plugin.LEAN_PROOFS), cwd=LEAN, timeout=7200)
        ev['coverage']['leanchecker'] = {'rc': rc2, 'wall_s': round(time.time() - t, 1), 'tail': out[-300:]}
        if rc2 != 0:
            log('leanchecker failed:\n' + out[-2000:])
            ev['wall_s'] = round(time.time() - t0, 2)
            write_evidence(prop, ev)
            return 2
        ev['wall_s'] = round(time.time() - t0, 2)
    write_evidence(prop, ev)
    log('%s %s: %d obligations (%d broken), %d lines (%d disagree, %d property failures, %d known), %.1fs'
        % (prop, tier, len(obligations), len(report['broken_obligations']), len(lines), len(disagree), len(fails), len(known_hits), time.time() - t0))
    return rc


def replay(path):
    payload = json.load(open(path if os.path.isabs(path) else os.path.join(ROOT, path)))
    prop = payload['property']
    plugin = importlib.import_module('props.' + prop)
    report = {}
    driver = build_and_audit(plugin, report)
    if driver is None: return 2
    try:
        if payload.get('kind') == 'failing-input':
            r = evaluate(plugin, driver, [payload['line']])[0]
            print(json.dumps(r, indent=1))
            if property_fails(r):
                print('REPLAY: property %s still fails on this input' % prop); return 1
            print('REPLAY: property holds on this input now'); return 0
        print('REPLAY: broken obligations now: %s ; tie: %s' % (report['broken_obligations'], report['tie_broken']))
        return 1 if (report['broken_obligations'] or report['tie_broken']) else 0
    finally:
        os.unlink(driver)


def main():
    a = sys.argv[1:]
    try:
        if len(a) == 2 and a[0] == '--replay':
            sys.exit(replay(a[1]))
        if len(a) == 2 and re.fullmatch(r'C\d\d', a[0]) and a[1] in ('quick', 'thorough'):
            sys.exit(check(a[0], a[1]))
        print(__doc__); sys.exit(2)
    except SystemExit:
        raise
    except BaseException:
        traceback.print_exc()
        sys.exit(2)


if __name__ == '__main__':
    main()
