#!/usr/bin/env python3
"""Regenerate MANIFEST.json from the per-property plugins (tools/props/Cxx.py: LEVEL_TEXT, LEVEL_NOTE, TECHNIQUE,
DESIGN_REF) — properties without a plugin are listed under not_applicable with the reason from tools/props/PENDING.json."""
import os, sys, json, importlib
ROOT = os.path.dirname(os.path.dirname(os.path.abspath(__file__)))
sys.path.insert(0, os.path.join(ROOT, 'tools'))
def main():
    ids = [json.loads(l)['id'] for l in open(os.path.join(ROOT, 'properties.jsonl'))]
    pending = json.load(open(os.path.join(ROOT, 'tools', 'props', 'PENDING.json')))
    checks, na = [], []
    for i in ids:
        if os.path.exists(os.path.join(ROOT, 'tools', 'props', i + '.py')) and i not in pending.get('_disabled', []):
            p = importlib.import_module('props.' + i)
            checks.append({
                'property_id': i,
                'quick_cmd': './check %s quick' % i,
                'thorough_cmd': './check %s thorough' % i,
                'evidence_file': 'evidence/%s.json' % i,
                'replay_cmd_template': './check --replay {path}',
                'engine': 'lean4-proof+correspondence',
                'level_claimed': {'category': 'proof', 'text': p.LEVEL_TEXT, 'design_ref': getattr(p, 'DESIGN_REF', 'DESIGN.md section 7, ' + i)},
                'level_note': p.LEVEL_NOTE,
                'technique': getattr(p, 'TECHNIQUE', 'Lean 4 theorems about a model of the code + translator/correspondence tie'),
            })
        else:
            na.append({'property_id': i, 'reason': pending.get(i, 'check not built yet (see DESIGN.md section 12, build order); nothing is claimed for this property')})
    m = {
        'version': 1,
        'setup_cmd': 'cd lean && /venv/bin/python ../tools/extract.py --repo /repo --json >/dev/null && python3 ../tools/mkmain.py && lake build',
        'hooks': {'guard': 'BDCHT_CRYSP_VERIF', 'enable': 'environment variable BDCHT_CRYSP_VERIF=1 (set by ./check for the real-code side)',
                  'baseline_off_cmd': 'cd /repo && /venv/bin/python -m pytest -ra -q -p no:cacheprovider --timeout=900 --continue-on-collection-errors',
                  'source_commits': pending.get('_hook_commits', []), 'add_only': True},
        'engines': [{'name': 'lean4-proof+correspondence', 'path': 'lean/ tools/',
                     'serves_properties': [c['property_id'] for c in checks],
                     'kind_free_text': 'Lean 4 model (lean/Model, regenerated tables in lean/Model/Gen), specifications (lean/Spec), property theorems (lean/Proofs/Cxx.lean, kernel-checked, axioms audited on every run), compiled model driver, differential correspondence check against the real code (tools/runcheck.py, tools/props/)'}],
        'checks': checks,
        'not_applicable': na,
        'notes': 'See DESIGN.md. Exit codes: 0 held, 1 VIOLATION line, 2 infrastructure. known_findings.json lists known/fixed findings.',
    }
    json.dump(m, open(os.path.join(ROOT, 'MANIFEST.json'), 'w'), indent=1)
if __name__ == '__main__':
    main()
