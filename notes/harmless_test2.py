import json,glob,subprocess,os,re
out=[]
for d in sorted([d for g in ('H8','H9','H10','H11','H12','H14','H13') for d in sorted(glob.glob('/tmp/m/%s/out/*'%g))]):
    p=os.path.join(d,'patch.diff'); m=json.load(open(os.path.join(d,'meta.json')))
    props=m.get('properties') or []
    props=[x for x in props if re.fullmatch(r'C\d\d',x)]
    a=subprocess.run(['git','-C','/repo','apply',p],capture_output=True,text=True)
    if a.returncode!=0:
        out.append((d,'PATCH-DOES-NOT-APPLY',a.stderr[:100])); print(out[-1],flush=True); continue
    try:
        for c in props:
            r=subprocess.run(['/verif/check',c,'quick'],capture_output=True,text=True,cwd='/verif')
            v=[l for l in r.stdout.splitlines() if l.startswith('VIOLATION')]
            line=''
            if v:
                mm=re.search(r'replay=(\S+)',v[0])
                try:
                    rp=json.load(open('/verif/'+mm.group(1))); line=(rp.get('line') or '; '.join(rp.get('broken_obligations',[])+rp.get('tie_broken',[])))[:220]
                except Exception: pass
            out.append((d.replace('/tmp/m/',''),c,r.returncode,'nfi' if v and 'no-failing-input-found' in v[0] else ('FAILING-INPUT' if v else ''),m['summary'][:70],line))
            print(out[-1],flush=True)
    finally:
        subprocess.run(['git','-C','/repo','checkout','--','.'])
json.dump(out,open('/tmp/harmless_results2.json','w'),indent=1)
