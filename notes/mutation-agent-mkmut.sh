#!/bin/bash
set -e
id="$1"; mkdir -p /tmp/m/$id/out
git -C /repo worktree add -q --detach /tmp/m/$id/repo HEAD
