import hashlib, random, itertools
from crysp.bits import *
from crysp.md import MD6,MD5
from crysp.tlsh import TLSH,distance as tdist, tlsh
from crysp.nilsimsa import Nilsimsa, distance as ndist
from crysp.utils import perms, knapsack
random.seed(4)
def rnd(n): return bytes(random.getrandbits(8) for _ in range(n))
def trycall(f,*a,**k):
    try: return f(*a,**k)
    except Exception as e: return 'EXC:'+type(e).__name__+':'+str(e)[:80]
m=rnd(600)
print('md6 L=64 bitlen full == none (600B, 2 levels):',trycall(MD6(256,L=64),m,4800)==MD6(256,L=64)(m), trycall(MD6(256,L=64),m,4800) if isinstance(trycall(MD6(256,L=64),m,4800),str) else '')
print('md6 L=1 bitlen:',trycall(MD6(256,L=1),m,4800)==MD6(256,L=1)(m))
m=rnd(100)
print('md6 SEQ key sensitivity (L=0):',MD6(256,Key=b'k1',L=0)(m)!=MD6(256,Key=b'k2',L=0)(m))
print('md6 PAR key sensitivity     :',MD6(256,Key=b'k1',L=64)(m)!=MD6(256,Key=b'k2',L=64)(m))
print('md6 d=250 SEQ vs PAR tail bytes', MD6(250,L=0)(m).hex()[-4:], MD6(250,L=64)(m).hex()[-4:], len(MD6(250,L=0)(m)))
print('md6 d=1:',trycall(MD6(1,L=64),m), trycall(MD6(1,L=0),m))
t=TLSH(128); d=rnd(300); h1=t(d); print('tlsh len',len(h1) if h1 else h1, 'short:',trycall(t,rnd(40)), trycall(t,rnd(100)), 'force:', type(trycall(t,rnd(100),True)))
for cfg in ((48,4,1),(256,8,3),(128,6,3),(48,7,3)):
    t=TLSH(*cfg); h=trycall(t,rnd(1000)); print(cfg,len(h) if h else h, cfg[2]+2+cfg[0]//4, trycall(lambda: TLSH(*cfg).from_hash(h).digest().lsh_code==h))
h1=TLSH(128)(rnd(500)); h2=TLSH(128)(rnd(500)); print('dist sym',tdist(h1,h2),tdist(h2,h1),tdist(h1,h1))
print('tlsh uniform:',trycall(TLSH(128),b'a'*1000))
l=[1,2,3]; P=list(perms.permutk(l,0)); print(P,l)
print('nextperm:',[perms.nextperm(list(p)) for p in itertools.permutations([1,2,3])])
print('nextperm rep:',perms.nextperm([2,1,1]),perms.nextperm([1,2,1]), 'empty:',trycall(perms.nextperm,[]))
print('combink:',trycall(lambda:list(perms.combink([1,2,3,4],2,0))))
L=[('a',3),('b',5),('c',7)]
print('exactsum:',trycall(knapsack.exactsum,L,8),trycall(knapsack.exactsum,L,8),trycall(knapsack.exactsum,L,12),trycall(knapsack.exactsum,L,4),trycall(knapsack.exactsum,L,0))
print('dynprog:',trycall(knapsack.dynprog,L,8),trycall(knapsack.dynprog,L,4))
