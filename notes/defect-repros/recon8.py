import struct, os, random
from crysp.md import MD4
from crysp.blake import Blake
random.seed(9)
# --- MD4 reference (RFC 1320)
def md4(msg):
    def rl(x,n): return ((x<<n)|(x>>(32-n)))&0xffffffff
    F=lambda x,y,z:(x&y)|(~x&z); G=lambda x,y,z:(x&y)|(x&z)|(y&z); H=lambda x,y,z:x^y^z
    ml=len(msg)*8; msg+=b'\x80'; msg+=b'\0'*((56-len(msg))%64); msg+=struct.pack('<Q',ml)
    a,b,c,d=0x67452301,0xefcdab89,0x98badcfe,0x10325476
    for o in range(0,len(msg),64):
        X=struct.unpack('<16L',msg[o:o+64]); A,B,C,D=a,b,c,d
        for i in range(16):
            k=i; s=(3,7,11,19)[i%4]
            a=rl((a+F(b,c,d)+X[k])&0xffffffff,s); a,b,c,d=d,a,b,c
        for i in range(16):
            k=(i%4)*4+i//4; s=(3,5,9,13)[i%4]
            a=rl((a+G(b,c,d)+X[k]+0x5a827999)&0xffffffff,s); a,b,c,d=d,a,b,c
        for i in range(16):
            k=(0,8,4,12,2,10,6,14,1,9,5,13,3,11,7,15)[i]; s=(3,9,11,15)[i%4]
            a=rl((a+H(b,c,d)+X[k]+0x6ed9eba1)&0xffffffff,s); a,b,c,d=d,a,b,c
        a,b,c,d=(a+A)&0xffffffff,(b+B)&0xffffffff,(c+C)&0xffffffff,(d+D)&0xffffffff
    return struct.pack('<4L',a,b,c,d)
bad=[n for n in range(0,200) for m in [os.urandom(n)] if MD4()(m)!=md4(m)]
print('md4 bad',bad)
# --- BLAKE-256/224 and 512/384 reference (bit-level, with salt)
PI=[0x243F6A8885A308D3,0x13198A2E03707344,0xA4093822299F31D0,0x082EFA98EC4E6C89,0x452821E638D01377,0xBE5466CF34E90C6C,0xC0AC29B7C97C50DD,0x3F84D5B5B5470917,
    0x9216D5D98979FB1B,0xD1310BA698DFB5AC,0x2FFD72DBD01ADFB7,0xB8E1AFED6A267E96,0xBA7C9045F12C7F99,0x24A19947B3916CF7,0x0801F2E2858EFC16,0x636920D871574E69]
SIG=[[0,1,2,3,4,5,6,7,8,9,10,11,12,13,14,15],[14,10,4,8,9,15,13,6,1,12,0,2,11,7,5,3],[11,8,12,0,5,2,15,13,10,14,3,6,7,1,9,4],[7,9,3,1,13,12,11,14,2,6,5,10,4,0,15,8],
     [9,0,5,7,2,4,10,15,14,1,11,12,6,8,3,13],[2,12,6,10,0,11,8,3,4,13,7,5,15,14,1,9],[12,5,1,15,14,13,4,10,0,7,6,3,9,2,8,11],[13,11,7,14,12,1,3,9,5,0,15,4,8,6,2,10],
     [6,15,14,9,11,3,0,8,12,2,13,7,1,4,10,5],[10,2,8,4,7,6,1,5,15,11,9,14,3,12,13,0]]
IV={256:[0x6a09e667,0xbb67ae85,0x3c6ef372,0xa54ff53a,0x510e527f,0x9b05688c,0x1f83d9ab,0x5be0cd19],
    224:[0xc1059ed8,0x367cd507,0x3070dd17,0xf70e5939,0xffc00b31,0x68581511,0x64f98fa7,0xbefa4fa4],
    512:[0x6a09e667f3bcc908,0xbb67ae8584caa73b,0x3c6ef372fe94f82b,0xa54ff53a5f1d36f1,0x510e527fade682d1,0x9b05688c2b3e6c1f,0x1f83d9abfb41bd6b,0x5be0cd19137e2179],
    384:[0xcbbb9d5dc1059ed8,0x629a292a367cd507,0x9159015a3070dd17,0x152fecd8f70e5939,0x67332667ffc00b31,0x8eb44a8768581511,0xdb0c2e0d64f98fa7,0x47b5481dbefa4fa4]}
def blake(n,msg,L,salt):
    w=64 if n>256 else 32; W=(1<<w)-1; bs=16*w; rounds=16 if w==64 else 14
    rot=(32,25,16,11) if w==64 else (16,12,8,7)
    c=PI if w==64 else [x for p in PI[:8] for x in (p>>32,p&0xffffffff)]
    bits=''.join(format(b,'08b') for b in msg)[:L]
    bits+='1'
    while (len(bits)+1+2*w)%bs: bits+='0'
    bits+=('1' if n in (256,512) else '0')+format(L,'0%db'%(2*w))
    s=[(salt>>(w*(3-i)))&W for i in range(4)]
    h=list(IV[n]); nb=len(bits)//bs
    def ror(x,r): return ((x>>r)|(x<<(w-r)))&W
    for i in range(nb):
        blk=bits[i*bs:(i+1)*bs]; m=[int(blk[j*w:(j+1)*w],2) for j in range(16)]
        t=min(L,(i+1)*bs)
        if i*bs>=L and not (L==0 and i==0 and False): t=0 if i*bs>=L else t
        if L>0 and i*bs>=L: t=0
        if L==0: t=0
        t0,t1=t&W,(t>>w)&W
        v=h+[s[0]^c[0],s[1]^c[1],s[2]^c[2],s[3]^c[3],t0^c[4],t0^c[5],t1^c[6],t1^c[7]]
        def G(a,b,cc,d,r,i_):
            p,q=SIG[r%10][2*i_],SIG[r%10][2*i_+1]
            v[a]=(v[a]+v[b]+(m[p]^c[q]))&W; v[d]=ror(v[d]^v[a],rot[0]); v[cc]=(v[cc]+v[d])&W; v[b]=ror(v[b]^v[cc],rot[1])
            v[a]=(v[a]+v[b]+(m[q]^c[p]))&W; v[d]=ror(v[d]^v[a],rot[2]); v[cc]=(v[cc]+v[d])&W; v[b]=ror(v[b]^v[cc],rot[3])
        for r in range(rounds):
            G(0,4,8,12,r,0);G(1,5,9,13,r,1);G(2,6,10,14,r,2);G(3,7,11,15,r,3);G(0,5,10,15,r,4);G(1,6,11,12,r,5);G(2,7,8,13,r,6);G(3,4,9,14,r,7)
        h=[h[j]^s[j%4]^v[j]^v[j+8] for j in range(8)]
    out=b''.join(x.to_bytes(w//8,'big') for x in h)
    return out[:n//8]
bad=[]
for n in (224,256,384,512):
    w=64 if n>256 else 32; bl=2*w
    for ln in [0,1,3,bl-2*w//8-2,bl-2*w//8-1,bl-2*w//8,bl-1,bl,bl+1,2*bl,2*bl+7,3*bl-1]:
        for trial in range(3):
            msg=os.urandom(ln); L=8*ln if trial==0 else (random.randrange(max(1,8*ln-7),8*ln+1) if ln else 0)
            salt=0 if trial<2 else random.getrandbits(4*w)
            try: r=Blake(n)(msg,salt,L if L!=8*ln else None)
            except Exception as e: r='EXC '+type(e).__name__
            if L==0 and ln>0: continue
            e=blake(n,msg,L,salt)
            if r!=e: bad.append((n,ln,L,salt!=0,r if isinstance(r,str) else 'DIFF'))
print('blake bad',len(bad),bad[:12])
