import os, random, itertools
random.seed(8)
from crysp.bits import Bits
from crysp.sha import SHA1,SHA2,SHA3
from crysp.md import MD4,MD5,MD6
from crysp.blake import Blake,Blake2
import crysp.blake as BL, crysp.keccak as KK, crysp.tlsh as TL
from crysp.keccak import Keccak
from crysp.skein import Skein
from crysp.hmac import HMAC
from crysp.tlsh import TLSH
from crysp.nilsimsa import Nilsimsa
from crysp.aes import AES
from crysp.des import DES,TDEA
from crysp.serpent import Serpent
from crysp.threefish import Threefish
from crysp.mode import ECB,CBC,CTR
from crysp.salsa20 import Salsa20
from crysp.chacha import Chacha
from crysp.padding import pkcs7
def T(f):
    try: return ('ok',f())
    except Exception as e: return ('ERR',type(e).__name__)
m1=os.urandom(70); m2=os.urandom(200); big=os.urandom(600)
k16=os.urandom(16); iv16=os.urandom(16)
KB=Bits(os.urandom(32),bitorder=1); NB=Bits(os.urandom(8),bitorder=1); NB2=Bits(os.urandom(8),bitorder=1)
kinds={
 'SHA1':(lambda:SHA1(),[lambda o:o(m1),lambda o:o(m2,bitlen=77),lambda o:o(m1,bitlen=9999),lambda o:o.update(m1[:64]),lambda o:o.update(m1,padding=True)]),
 'SHA2-256':(lambda:SHA2(256),[lambda o:o(m1),lambda o:o(m2,bitlen=77),lambda o:o(m1,bitlen=9999),lambda o:o.update(m1[:64]),lambda o:o.update(m1,padding=True)]),
 'SHA2-512/224':(lambda:SHA2(512,224),[lambda o:o(m1),lambda o:o(m2,bitlen=77),lambda o:o.update(m2[:128])]),
 'MD5':(lambda:MD5(),[lambda o:o(m1),lambda o:o(m2,bitlen=77),lambda o:o(m1,bitlen=9999),lambda o:o.update(m1[:64])]),
 'MD4':(lambda:MD4(),[lambda o:o(m1),lambda o:o(m2,bitlen=77),lambda o:o.update(m1[:64])]),
 'MD6':(lambda:MD6(256,L=64),[lambda o:o(m1),lambda o:o(big),lambda o:o(m2,bitlen=77),lambda o:o(m1,bitlen=9999)]),
 'SHA3-256':(lambda:SHA3(256),[lambda o:o(m1),lambda o:o(m2)]),
 'Keccak':(lambda:Keccak(r=1088,c=512,len=256),[lambda o:o(m1),lambda o:o(m2,bitlen=77),lambda o:o(m1,bitlen=9999)]),
 'Blake256':(lambda:Blake(256),[lambda o:o(m1),lambda o:o(m2,s=12345),lambda o:o(m2,bitlen=77),lambda o:o(m1,bitlen=9999)]),
 'Blake512':(lambda:Blake(512),[lambda o:o(m1),lambda o:o(m2,s=12345),lambda o:o(m2,bitlen=77)]),
 'Blake2b':(lambda:Blake2(512),[lambda o:o(m1),lambda o:o(m2,salt=b's'*16),lambda o:o(m2,pers=b'p'*16),lambda o:o(m1,fanout=2,depth=2,leafl=5,noffset=7,ndepth=1,inner=3),lambda o:o(m1,keylen=5),lambda o:o(m1,outlen=99)]),
 'Skein':(lambda:Skein(256,256),[lambda o:o(m1),lambda o:o(m2,bitlen=77),lambda o:o(m1,bitlen=9999)]),
 'SkeinKey':(lambda:Skein(512,512,key=b'kk',prs=b'p',nonce=b'n'),[lambda o:o(m1),lambda o:o(m2,bitlen=77)]),
 'SkeinTree':(lambda:Skein(256,256,Yl=1,Yf=1,Ym=3),[lambda o:o(m1),lambda o:o(m2)]),
 'HMAC':(lambda:HMAC(SHA2(256),b'key'),[lambda o:o(m1),lambda o:o(m2)]),
 'TLSH':(lambda:TLSH(128),[lambda o:o(big),lambda o:o(m2,True),lambda o:o(m1),lambda o:o.update(m2)]),
 'Nilsimsa':(lambda:Nilsimsa(),[lambda o:o(m1),lambda o:o(m2)]),
 'AES':(lambda:AES(k16),[lambda o:o.enc(iv16),lambda o:o.dec(iv16),lambda o:o.enc(m1[:15]),lambda o:o.keyschedule() and None]),
 'DES':(lambda:DES(k16[:8]),[lambda o:o.enc(iv16[:8]),lambda o:o.dec(iv16[:8]),lambda o:o.enc(m1[:7])]),
 'TDEA':(lambda:TDEA(k16),[lambda o:o.enc(iv16[:8]),lambda o:o.dec(iv16[:8])]),
 'Serpent':(lambda:Serpent(k16),[lambda o:o.enc(iv16),lambda o:o.dec(iv16),lambda o:o.enc(m1[:15])]),
 'Threefish':(lambda:Threefish(os.urandom(0) or k16*2,iv16),[lambda o:o.enc(m1[:32]),lambda o:o.dec(m1[:32]),lambda o:o.enc(m1[:31])]),
 'CTR':(lambda:CTR(AES(k16),iv16),[lambda o:o.enc(m1),lambda o:o.enc(m2),lambda o:o.enc(b'')]),
 'CBCx923':(lambda:CBC(AES(k16),iv16),[lambda o:o.dec(iv16+iv16*2),lambda o:o.dec(iv16*3)]),
 'Salsa20':(lambda:Salsa20(KB,20),[lambda o:o.enc(NB,m1),lambda o:o.enc(NB2,m2),lambda o:o.enc(NB,b''),lambda o:next(o.keystream(NB2)) and None]),
 'Chacha':(lambda:Chacha(KB,8),[lambda o:o.enc(NB,m1),lambda o:o.enc(NB2,m2),lambda o:next(o.keystream(NB2)) and None]),
}
for name,(mk,calls) in kinds.items():
    leaks=[]
    fresh=[T(lambda c=c: c(mk())) for c in calls]
    for seq in itertools.product(range(len(calls)),repeat=2):
        o=mk()
        T(lambda: calls[seq[0]](o))
        r=T(lambda: calls[seq[1]](o))
        if r!=fresh[seq[1]]: leaks.append((seq,r[0],fresh[seq[1]][0]))
    print(name,'leaks:',leaks[:6],len(leaks))
# singletons
a=BL.blake2b(m1); BL.blake2b(m1,outlen=10); print('singleton blake2b',BL.blake2b(m1)==a)
a=KK.keccak_256(m1); KK.keccak_256(m1,bitlen=77); print('singleton keccak',KK.keccak_256(m1)==a)
a=TL.tlsh(big); TL.tlsh(m2,True); print('singleton tlsh',TL.tlsh(big)==a)
a=BL.blake256(m1); BL.blake256(m2,s=5); print('singleton blake256',BL.blake256(m1)==a)
