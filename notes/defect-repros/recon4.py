import hashlib, random, itertools
from crysp.bits import *
from crysp.md import MD6,MD5
from crysp.skein import Skein
from crysp.blake import Blake,Blake2,blake2b
from crysp.sha import SHA2,SHA1
from crysp.keccak import Keccak
from crysp.tlsh import TLSH,distance as tdist, tlsh
from crysp.nilsimsa import Nilsimsa, distance as ndist
from crysp.utils import perms, knapsack
random.seed(4)
def rnd(n): return bytes(random.getrandbits(8) for _ in range(n))
def trycall(f,*a,**k):
    try: return f(*a,**k)
    except Exception as e: return 'EXC:'+type(e).__name__+':'+str(e)[:80]
# MD6
m=rnd(600)
print('md6 bitlen full == none (600B, 2 levels):',trycall(MD6(256),m,4800)==MD6(256)(m))
m=rnd(100)
print('md6 bitlen full == none (100B):',trycall(MD6(256),m,800)==MD6(256)(m))
print('md6 SEQ key sensitivity (L=0):',MD6(256,Key=b'k1',L=0)(m)!=MD6(256,Key=b'k2',L=0)(m))
print('md6 PAR key sensitivity     :',MD6(256,Key=b'k1')(m)!=MD6(256,Key=b'k2')(m))
print('md6 d=250 L=0 vs L=64 small msg equal? (both single compression? no) ', MD6(250,L=0)(m).hex()[:16], MD6(250)(m).hex()[:16])
# Skein
m=rnd(10)
print('skein bitlen=80 == none:',Skein(256,256)(m,80)==Skein(256,256)(m))
print('skein empty key == no key:',Skein(256,256,key=b'')(m)==Skein(256,256)(m))
o=Skein(256,512)(m); print('skein 512-bit out from 256: first 32 equal Skein(256,256)? (should differ, cfg)',len(o))
print('skein tree empty msg:',trycall(Skein(256,256,Yl=1,Yf=1,Ym=2),b''))
# Skein output: block 1 of long output should equal UBI(G, 1, Tout) fresh
from crysp.skein import UBI,Tweak
from crysp.threefish import Threefish
S=Skein(256,768); S._initstate(); S.update(m,'msg'); G=S.G
exp=b''.join(UBI(Threefish,G,Tweak(Type='out'))(pack(Bits(n,64))) for n in range(3))
print('skein long output ok:',S.output(G)==exp)
# Blake2 outlen persistence
h=Blake2(512); a=h(b'x',outlen=20); b=h(b'x'); print('blake2 outlen persists:',len(a),len(b))
print('blake2 salt/pers:',Blake2(512)(b'abc',salt=b's'*16,pers=b'p'*16)==hashlib.blake2b(b'abc',salt=b's'*16,person=b'p'*16).digest())
print('blake2s tree:',Blake2(256)(b'abc',outlen=17,fanout=2,depth=3,leafl=1000,noffset=5,ndepth=1,inner=9)==hashlib.blake2s(b'abc',digest_size=17,fanout=2,depth=3,leaf_size=1000,node_offset=5,node_depth=1,inner_size=9).digest())
# Blake2 streaming
h=Blake2(512); h.initstate(); h.update(rnd(128)); 
# streaming SHA
mm=rnd(200)
h=SHA2(256); h.initstate(); h.update(mm[:64]); h.update(mm[64:128]); r=h.update(mm[128:],padding=True); print('sha256 stream ok:',r==hashlib.sha256(mm).digest())
h=SHA2(256); h.initstate(); h.update(mm[:128]); r=h.update(mm[128:],padding=True); print('sha256 stream 2blk piece ok:',r==hashlib.sha256(mm).digest())
h=Blake2(256); h.initstate(); h.update(mm[:64]); r=trycall(h.update,mm[64:],padding=True); print('blake2s stream ok:',r==hashlib.blake2s(mm).digest())
h=Blake2(256); h.initstate(); r=trycall(h.update,mm[:40],padding=True); print('blake2s one-piece stream ok:',r==hashlib.blake2s(mm[:40]).digest())
# Keccak history
k=Keccak(r=1088,c=512,len=256); a=k(b'ab',bitlen=13); k.duplex(b'',bitlen=0); b=k(b'ab',bitlen=13); print('keccak call after duplex same:',a==b)
k=Keccak(r=1088,c=512,len=256); a=k(b'abc'); k(b'abc',r=576); b=k(b'abc'); print('keccak r param persists -> same?',a==b)
# Nilsimsa history
n=Nilsimsa(); a=n(b'hello world'); n.update(b'xx'); b=n(b'hello world'); print('nilsimsa call after update same:',a==b)
n=Nilsimsa(); print('nilsimsa split:', n.update(b'hello ').update(b'world').digest()==Nilsimsa()(b'hello world'))
# TLSH
t=TLSH(128); d=rnd(300); h1=t(d); print('tlsh len',len(h1) if h1 else h1, 'short:',t(rnd(40)), t(rnd(100)), 'force:', type(t(rnd(100),True)))
for cfg in ((48,4,1),(256,8,3),(128,6,3),(48,7,3)):
    t=TLSH(*cfg); h=t(rnd(1000)); print(cfg,len(h) if h else h, cfg[2]+2+cfg[0]//4, trycall(lambda: TLSH(*cfg).from_hash(h).digest().lsh_code==h))
h1=TLSH(128)(rnd(500)); h2=TLSH(128)(rnd(500)); print('dist sym',tdist(h1,h2),tdist(h2,h1),tdist(h1,h1))
print('tlsh uniform:',TLSH(128)(b'a'*1000))
# perms
l=[1,2,3]; P=list(perms.permutk(l,0)); print(P,l)
print('nextperm:',[perms.nextperm(list(p)) for p in itertools.permutations([1,2,3])])
print('nextperm rep:',perms.nextperm([2,1,1]),perms.nextperm([1,2,1]), 'empty:',trycall(perms.nextperm,[]))
print('combink:',trycall(lambda:list(perms.combink([1,2,3,4],2,0))))
L=[('a',3),('b',5),('c',7)]
print('exactsum:',trycall(knapsack.exactsum,L,8),trycall(knapsack.exactsum,L,8),trycall(knapsack.exactsum,L,12),trycall(knapsack.exactsum,L,4),trycall(knapsack.exactsum,L,0))
print('dynprog:',trycall(knapsack.dynprog,L,8),trycall(knapsack.dynprog,L,4))
