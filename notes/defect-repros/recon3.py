import hashlib, os, random, traceback, zlib, subprocess, struct
from crysp.bits import *
from crysp.poly import Poly
from crysp.aes import AES,gmul
from crysp.des import DES,TDEA
from crysp.serpent import Serpent
from crysp.threefish import Threefish
from crysp.mode import *
from crysp.padding import *
from crysp.salsa20 import Salsa20
from crysp.chacha import Chacha
from crysp.rc4 import RC4
from crysp import crc as C
random.seed(3)
def rnd(n): return bytes(random.getrandbits(8) for _ in range(n))
def trycall(f,*a,**k):
    try: return f(*a,**k)
    except Exception as e: return 'EXC:'+type(e).__name__+':'+str(e)[:80]
def ossl(alg,key,data,iv=None,dec=False):
    cmd=['openssl','enc','-'+alg,'-K',key.hex(),'-nopad']+(['-d'] if dec else ['-e'])
    if iv is not None: cmd+=['-iv',iv.hex()]
    return subprocess.run(cmd,input=data,capture_output=True).stdout
# AES
for kl in (16,24,32):
    k=rnd(kl); m=rnd(16)
    print('aes',kl, AES(k).enc(m)==ossl('aes-%d-ecb'%(kl*8),k,m), AES(k).dec(m)==ossl('aes-%d-ecb'%(kl*8),k,m,dec=True))
print('aes 17-byte block:',trycall(AES(rnd(16)).enc,rnd(17)))
print('aes 15-byte block:',trycall(AES(rnd(16)).enc,rnd(15)))
print('aes bad key:',trycall(AES,rnd(15)))
print('gmul(3,0):',trycall(gmul,3,0),'gmul(0,0)',trycall(gmul,0,0))
# DES via 3DES
k=rnd(8); m=rnd(8)
print('des',DES(k).enc(m)==ossl('des-ede3-ecb',k*3,m), DES(k).dec(m)==ossl('des-ede3-ecb',k*3,m,dec=True))
k3=rnd(24)
print('tdea 24:',trycall(lambda:TDEA(k3).enc(m)))
print('tdea 3args:',trycall(lambda:TDEA(k3[:8],k3[8:16],k3[16:]).enc(m))==ossl('des-ede3-ecb',k3,m))
print('tdea 16:',trycall(lambda:TDEA(k3[:16]).enc(m))==ossl('des-ede3-ecb',k3[:16]+k3[:8],m))
print('tdea 2args:',trycall(lambda:TDEA(k3[:8],k3[8:16]).enc(m))==ossl('des-ede3-ecb',k3[:16]+k3[:8],m))
print('tdea dec:',trycall(lambda:TDEA(k3[:8],k3[8:16],k3[16:]).dec(m))==ossl('des-ede3-ecb',k3,m,dec=True))
print('des bad key:',trycall(DES,rnd(7)), 'des bad blk:',trycall(DES(k).enc,rnd(9)))
# Serpent
print('serpent 33-byte key:',type(trycall(Serpent,rnd(33))), 'serpent 0-byte key', type(trycall(Serpent,b'')))
# modes
E=ECB(AES(rnd(16)))
print('ecb twice:',type(E.enc(b'abc')),trycall(E.enc,b'abc'))
for cls in (CTS_ECB,):
    E=cls(AES(rnd(16)))
    print(cls.__name__,'enc 20:',trycall(E.enc,rnd(20)), 'enc 32:',type(trycall(cls(AES(rnd(16))).enc,rnd(32))))
E=CTS_CBC(AES(rnd(16)),rnd(16)); print('CTS_CBC enc 20',trycall(E.enc,rnd(20)))
E=CTS_CBC(AES(rnd(16)),rnd(16)); c=E.enc(rnd(32)); E2=CTS_CBC(E._cipher,E.IV); print('CTS_CBC 32: len c',len(c),'dec len',len(trycall(E2.dec,c)))
kk=rnd(16); iv=rnd(16)
E=CTR(AES(kk),iv); m=rnd(37); c=E.enc(m); print('ctr enc ok:',c==ossl('aes-128-ctr',kk,m,iv), 'dec:',trycall(E.dec,c))
print('CTR default counter:',trycall(lambda:CTR(AES(kk)).enc(m)))
E=CBC(AES(kk),iv); c=E.enc(m); print('cbc ok:',c[16:]==ossl('aes-128-cbc',kk,pkcs7(128).lastblock(m[32:]) and m+bytes([11])*11,iv), 'dec:',CBC(AES(kk),iv).dec(c)==m)
# CTR with threefish 512 and counter high words nonzero
tk=rnd(64); tw=rnd(16)
class TF:
    blocksize=512
    def __init__(s): s.t=Threefish(tk,tw)
    def enc(s,b): return s.t.enc(b)
    def dec(s,b): return s.t.dec(b)
iv=rnd(64); E=CTR(TF(),iv); c=E.enc(b'\0'*64); print('ctr tf512 first ctr block == iv:', TF().dec(c)==iv)
# stream
key=rnd(32); nonce=rnd(8); m=rnd(200)
c=Chacha(Bits(key,bitorder=1),20).enc(Bits(nonce,bitorder=1),m)
print('chacha20 vs openssl:', c==ossl('chacha20',key,m,b'\0'*8+nonce))
print('salsa empty:',Salsa20(Bits(key,bitorder=1)).enc(Bits(nonce,bitorder=1),b''))
print('rc4 empty:',RC4(b'key').enc(b''))
r=RC4(b'Key'); print('rc4 vec:',r.enc(b'Plaintext').hex()=='bbf316e8d940af0ad3')
r1=RC4(b'Key'); r2=RC4(b'Key'); print('rc4 split:', r1.enc(b'Plain')+r1.enc(b'text')==r2.enc(b'Plaintext'))
# CRC
fl=0
for i in range(200):
    d=rnd(random.randrange(0,40))
    if C.crc32(d)!=zlib.crc32(d): fl+=1
print('crc32 fails',fl)
fl=[]
for i in range(200):
    d=rnd(random.randrange(4,40)); t=random.getrandbits(32)
    f=trycall(C.crc32_fix,d,t)
    if isinstance(f,str) or zlib.crc32(f)!=t or f[:-4]!=d[:-4] or len(f)!=len(d): fl.append(('fix',d,t,f))
    pos=random.randrange(0,len(d)-3)
    f=trycall(C.crc32_fix_pos,d,pos,t)
    if isinstance(f,str) or zlib.crc32(f)!=t or f[:pos]!=d[:pos] or f[pos+4:]!=d[pos+4:] or len(f)!=len(d): fl.append(('fixpos',d,pos,t,f))
print('crc fix fails',len(fl),fl[:3])
print('crc32_fix target=0:',zlib.crc32(C.crc32_fix(b'abcdefgh',0)))
# generic crc other polys
def bitcrc(P,w,data,init,fin):
    r=init
    for b in data:
        r^=b
        for _ in range(8):
            r=(r>>1)^P if r&1 else r>>1
    return r^fin
fl=[]
for w in (8,16,24,32,40,64):
    P=random.getrandbits(w)|(1<<(w-1))
    T=C.crc_table(Bits(P,w))
    for i in range(20):
        d=rnd(random.randrange(0,20)); init=random.getrandbits(w); fin=random.getrandbits(w)
        r=trycall(C.crc,d,T,init,fin)
        if r!=bitcrc(P,w,d,init,fin): fl.append((w,hex(P),d,init,fin,r))
print('generic crc fails',len(fl),fl[:2])
