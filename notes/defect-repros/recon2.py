import hashlib, os, random, traceback, zlib, hmac as pyhmac
from crysp.sha import SHA1,SHA2,SHA3,SHAKE128,SHAKE256
from crysp.md import MD4,MD5,MD6
from crysp.blake import Blake,Blake2
from crysp.keccak import Keccak
from crysp.bits import *
from crysp.poly import Poly
from crysp.padding import *
from crysp.hmac import HMAC
random.seed(2)
def rnd(n): return bytes(random.getrandbits(8) for _ in range(n))
def trycall(f,*a,**k):
    try: return f(*a,**k)
    except Exception as e: return 'EXC:'+type(e).__name__+':'+str(e)[:80]

# reference SHA padding at bit level
def refpad(m,L,bs,cs,big=True):
    bits=[]
    for byte in m: bits += [(byte>>(7-i))&1 for i in range(8)]
    bits=bits[:L]
    bits.append(1)
    while (len(bits)+cs)%bs: bits.append(0)
    lf=[(L>>(cs-1-i))&1 for i in range(cs)]
    out=bytearray()
    for i in range(0,len(bits),8):
        out.append(sum(b<<(7-j) for j,b in enumerate(bits[i:i+8])))
    lenb = (L%(1<<cs)).to_bytes(cs//8,'big' if big else 'little')
    return bytes(out)+lenb
fails=[]
for bs,ws,cls,big in ((512,32,SHApadding,True),(1024,64,SHApadding,True),(512,32,MDpadding,False)):
    for n in range(0,3*bs//8+2):
        m=rnd(n)
        for L in set([8*n]+[max(0,8*n-k) for k in range(1,9)]+[random.randrange(0,8*n+1) for _ in range(3)]):
            if L==0 and n>0: continue
            p=cls(bs,ws)
            r=trycall(lambda: b''.join(p.iterblocks(m,bitlen=L)))
            e=refpad(m,L,bs,2*ws,big)
            if r!=e: fails.append((cls.__name__,bs,n,L,r if isinstance(r,str) else 'DIFF'))
print('pad fails',fails[:10],len(fails))
# bitlen > len
print('bitlen>len:',trycall(SHA2(256),b'abc',25), trycall(MD5(),b'abc',25))
print('bitlen=0 with data:',trycall(SHA2(256),b'abc',0)==hashlib.sha256(b'abc').digest())
# streaming with empty piece
h=SHA2(256); h.initstate()
print('empty nonfinal piece:',trycall(h.update,b'',padding=False))
# HMAC
for hname,mk in (('md5',MD5),('sha1',SHA1),('sha256',lambda:SHA2(256)),('sha512',lambda:SHA2(512))):
    bl = mk().blocksize//8
    fl=[]
    for kl in (0,1,bl-1,bl,bl+1,2*bl+3):
        k=rnd(kl); m=rnd(37)
        r=trycall(lambda: HMAC(mk(),k)(m))
        e=pyhmac.new(k,m,hname).digest()
        if r!=e: fl.append((kl,r if isinstance(r,str) else 'DIFF'))
    print('hmac',hname,fl)
# Keccak edge
k=Keccak(r=1088,c=512,len=256)
print('keccak r-1:',trycall(k,rnd(136),bitlen=1087)[:20] if isinstance(trycall(k,rnd(136),bitlen=1087),str) else 'ok')
print('keccak r-2:',type(trycall(k,rnd(136),bitlen=1086)))
m=rnd(3)
a=trycall(Keccak(r=1088,c=512,len=256),m,bitlen=13)
b=trycall(Keccak(r=1088,c=512,len=256),m[:2],bitlen=13)
print('keccak M[-1:] issue (should be equal):',a==b)
k8=Keccak(b=25,r=5,len=8)
print('small rate ignoring msg:',trycall(k8,b'\x01')==trycall(k8,b'\x02'))
# Bits neg, unpack
print('neg:',(-Bits(1,4)).ival, trycall(lambda:(-Bits(0,0)).ival))
print('unpack be 3:',hex(unpack(b'\x01\x02\x03',True)[0]), 'be12:',hex(unpack(bytes(range(1,13)),True)[0]),'be24',hex(unpack(bytes(range(1,25)),True)[0]))
print('mul int:',trycall(lambda:(Bits(3,4)*2).ival))
print('Bits(b"",bitorder=0):',trycall(lambda:Bits(b'',bitorder=0).size))
# Poly
a=Poly([1,2,3],8); b=Poly([1],8)
print('poly xor comm:',(a^b).ival,(b^a).ival,(a+b).ival,(b+a).ival,(a|b).ival,(b|a).ival,(a&b).ival,(b&a).ival)
print('poly neg:',trycall(lambda:(a+(-a)).ival), (-a).ival, (-a).mask)
e=Poly([],8)
print('empty:',(e^e).ival,(e+e).ival,(e&e).ival)
