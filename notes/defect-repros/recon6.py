import os, random, itertools, codecs
from crysp.bits import Bits
from crysp.des import DES
from crysp.wb import table_rKT,table_M1,table_M2,table_M3,WhiteDES
random.seed(7)
M1,M2,M3=table_M1(),table_M2()[0],table_M3()
bad=0
keys=[os.urandom(8) for _ in range(4)]+[bytes.fromhex('0101010101010101'),bytes.fromhex('fefefefefefefefe'),bytes.fromhex('e0e0e0e0f1f1f1f1'),bytes(8),b'\xff'*8]
for K in keys:
    KT=[table_rKT(r,Bits(K,64))[1] for r in range(16)]
    for t in KT:
        assert len(t)==12 and all(len(x)==256 and all(0<=v<256 for v in x) for x in t)
        assert all(list(t[n])==list(range(256)) for n in range(8,12))
    W=WhiteDES(KT,M1,M2,M3); E=DES(K)
    blocks=[bytes(8),b'\xff'*8]+[ (1<<i).to_bytes(8,'big') for i in range(0,64,7)]+[os.urandom(8) for _ in range(5)]
    for b in blocks:
        if W.enc(b)!=E.enc(b): bad+=1; print('WB diff',K.hex(),b.hex())
print('wb bad',bad, 'M1',len(M1),'M2',len(M2),'M3',len(M3))
