import hashlib, os, random, traceback, zlib
from crysp.sha import SHA1,SHA2,SHA3,SHAKE128,SHAKE256
from crysp.md import MD4,MD5,MD6
from crysp.blake import Blake,Blake2
from crysp.keccak import Keccak
from crysp.bits import *
from crysp.poly import Poly
random.seed(1)
def rnd(n): return bytes(random.getrandbits(8) for _ in range(n))
def trycall(f,*a,**k):
    try: return f(*a,**k)
    except Exception as e: return 'EXC:'+type(e).__name__+':'+str(e)[:60]

bad=0
# SHA family vs hashlib on many lengths
for name,mk,ref in [('sha1',lambda:SHA1(),hashlib.sha1),('sha224',lambda:SHA2(224),hashlib.sha224),('sha256',lambda:SHA2(256),hashlib.sha256),
                    ('sha384',lambda:SHA2(384),hashlib.sha384),('sha512',lambda:SHA2(512),hashlib.sha512),
                    ('sha512_224',lambda:SHA2(512,224),lambda m:hashlib.new('sha512_224',m)),('sha512_256',lambda:SHA2(512,256),lambda m:hashlib.new('sha512_256',m)),
                    ('md5',lambda:MD5(),hashlib.md5)]:
    fails=[]
    for n in list(range(0,140))+[200,255,256,257,300]:
        m=rnd(n)
        r=trycall(mk(),m)
        if r!=ref(m).digest(): fails.append((n,r if isinstance(r,str) else 'DIFF'))
    print(name,'fails:',fails[:5],len(fails))
# SHA3
for n_ in (224,256,384,512):
    fails=[]
    for n in list(range(0,150))+[200,300]:
        m=rnd(n)
        r=trycall(SHA3(n_),m)
        if r!=hashlib.new('sha3_%d'%n_,m).digest(): fails.append((n,r if isinstance(r,str) else 'DIFF'))
    print('sha3',n_,fails[:5],len(fails))
for f,ref in ((SHAKE128,hashlib.shake_128),(SHAKE256,hashlib.shake_256)):
    fails=[]
    for n in list(range(0,180,7)):
        for d in (8,64,256,1344,1352,2696,4000):
            m=rnd(n)
            r=trycall(f,m,d)
            if r!=ref(m).digest(d//8): fails.append((n,d,r if isinstance(r,str) else 'DIFF'))
    print(f.__name__,fails[:5],len(fails))
# blake2
for size,ref,bl in ((512,hashlib.blake2b,128),(256,hashlib.blake2s,64)):
    fails=[]
    for n in [0,1,bl-1,bl,bl+1,2*bl-1,2*bl,2*bl+1,3*bl,3*bl+5,500]:
        m=rnd(n)
        r=trycall(Blake2(size),m)
        if r!=ref(m).digest(): fails.append((n,r if isinstance(r,str) else 'DIFF'))
    print('blake2',size,fails,len(fails))
